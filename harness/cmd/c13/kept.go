package main

// Kept sequences (LESSONS classes 2, 9, 10).
//
// The other engines call All() and run the result on the spot. Here the
// iter.Seq returned by All() is kept and used later, after more operations,
// and more than once: twice in a row, re-entered from its own yield function,
// interleaved with a second live iteration (iter.Pull, advanced alternately),
// abandoned half-way and run again, and with a yield function that panics
// (after which the list must go on working like container/list).
//
// What is asserted is only what "traversal via All" means for a sequence value:
// whenever it is run to the end without the list being changed meanwhile, it
// yields the values the list holds front-to-back at that time; yield is not
// called again once it returned false. The callbacks never modify a list.

import (
	"fmt"
	"iter"
	"runtime/debug"

	"verif/ev"
)

const (
	kTwice = iota
	kNestedSame
	kNestedOther
	kPullSame
	kPullOther
	kAbandon
	kPanic
	nKeptModes
)

var keptModeName = [...]string{"run-twice", "re-entered-from-own-yield", "other-run-inside-yield", "two-pulls-of-one-seq-alternating",
	"two-seqs-pulled-alternating", "abandoned-then-rerun", "panicking-yield"}

type yieldPanic struct{ at int }

// collect runs seq to the end (or until it misbehaves: more than limit values).
func collect(seq iter.Seq[int], limit int) []int {
	var out []int
	seq(func(v int) bool {
		out = append(out, v)
		return len(out) <= limit
	})
	return out
}

// useKept exercises a sequence value obtained earlier. want/otherWant are the values the
// lists hold now. pfx is "dlist" or "slist", what names the sequence for messages.
func useKept(c *ev.Case, pfx, what string, mode int, seq iter.Seq[int], want []int, other iter.Seq[int], otherWant []int) bool {
	rng := c.Rng
	limit := len(want) + len(otherWant) + 3
	name := pfx + ".All-kept/" + keptModeName[mode]
	fail := func(detail string, got, w []int) bool {
		c.Failf(pfx+"-all-kept", "%s, %s: %s yields %v, the list holds %v", what, keptModeName[mode], detail, got, w)
		return false
	}
	c.Logf("    kept %s: %s", what, keptModeName[mode])
	switch mode {
	case kTwice:
		var a, b []int
		if !c.Guard(name, func() { a = collect(seq, limit); b = collect(seq, limit) }) {
			return false
		}
		if !eqInts(a, want) {
			return fail("the first run", a, want)
		}
		if !eqInts(b, want) {
			return fail("the second run", b, want)
		}
	case kNestedSame, kNestedOther:
		in, inWant, inName := seq, want, "the same sequence run from inside its own yield"
		if mode == kNestedOther {
			in, inWant, inName = other, otherWant, "the other sequence run from inside the yield"
		}
		at := rng.Intn(len(want) + 1) // len(want): the inner run never happens
		var outer []int
		var inner [][]int
		if !c.Guard(name, func() {
			seq(func(v int) bool {
				outer = append(outer, v)
				if len(outer)-1 == at || (len(outer) == 1 && rng.Chance(1, 3)) {
					inner = append(inner, collect(in, limit))
				}
				return len(outer) <= limit
			})
		}) {
			return false
		}
		for _, got := range inner {
			if !eqInts(got, inWant) {
				return fail(inName, got, inWant)
			}
		}
		if !eqInts(outer, want) {
			return fail(fmt.Sprintf("the outer run (%d complete inner runs happened inside its yield)", len(inner)), outer, want)
		}
		if len(inner) > 0 {
			c.Add(pfx+"_kept_nested_runs", int64(len(inner)))
		}
	case kPullSame, kPullOther:
		s2, w2 := seq, want
		if mode == kPullOther {
			s2, w2 = other, otherWant
		}
		var a, b []int
		stopEarly := rng.Chance(1, 4)
		if !c.Guard(name, func() {
			n1, stop1 := iter.Pull(inCoroutine(c, name, seq))
			n2, stop2 := iter.Pull(inCoroutine(c, name, s2))
			defer stop1()
			defer stop2()
			d1, d2 := false, false
			for (!d1 || !d2) && len(a)+len(b) <= 2*limit {
				// advance the two live iterations alternately, in uneven steps
				for i := rng.Range(1, 2); i > 0 && !d1; i-- {
					if v, ok := n1(); ok {
						a = append(a, v)
					} else {
						d1 = true
					}
				}
				if stopEarly && len(b) >= len(w2)/2 {
					stop2()
					d2 = true
				}
				for i := rng.Range(1, 2); i > 0 && !d2; i-- {
					if v, ok := n2(); ok {
						b = append(b, v)
					} else {
						d2 = true
					}
				}
			}
		}) {
			return false
		}
		if !eqInts(a, want) {
			return fail("the first of two iterations advanced alternately", a, want)
		}
		if stopEarly && len(b) <= len(w2) {
			w2 = w2[:len(b)] // stopped on purpose: what it yielded until then is a prefix
		}
		if !eqInts(b, w2) {
			return fail("the second of two iterations advanced alternately", b, w2)
		}
		c.Add(pfx+"_kept_pull_steps", int64(len(a)+len(b)))
	case kAbandon:
		stop := 1 + rng.Intn(len(want)+1)
		calls := 0
		var again []int
		if !c.Guard(name, func() {
			seq(func(int) bool {
				calls++
				return calls < stop
			})
			again = collect(seq, limit)
		}) {
			return false
		}
		if w := min(stop, len(want)); calls != w {
			c.Failf(pfx+"-all-stop", "%s: yield returned false at call %d of %d values; it was called %d times", what, stop, len(want), calls)
			return false
		}
		if !eqInts(again, want) {
			return fail("the run after an abandoned run", again, want)
		}
	case kPanic:
		if len(want) == 0 {
			return true
		}
		at := 1 + rng.Intn(len(want))
		calls := 0
		var escaped any
		if !c.Guard(name, func() {
			defer func() {
				if p := recover(); p != nil {
					if yp, ok := p.(yieldPanic); ok && yp.at == at {
						escaped = p
						return
					}
					panic(p)
				}
			}()
			seq(func(int) bool {
				calls++
				if calls == at {
					panic(yieldPanic{at})
				}
				return calls <= limit
			})
		}) {
			return false
		}
		if escaped == nil || calls != at {
			c.Failf(pfx+"-all-yield-panic", "%s: the yield function panicked at call %d; the panic reached the caller: %v, yield was called %d times", what, at, escaped != nil, calls)
			return false
		}
		c.Add(pfx+"_kept_yield_panics", 1)
	}
	c.Add(pfx+"_kept_uses", 1)
	c.Add(pfx+"_kept_use/"+keptModeName[mode], 1)
	return true
}

// inCoroutine: iter.Pull runs the sequence on its own stack and hands a panic over to the
// caller of next() without that stack, so a panic is attributed here, where the golib
// frames are still visible.
func inCoroutine(c *ev.Case, name string, seq iter.Seq[int]) iter.Seq[int] {
	return func(yield func(int) bool) {
		defer func() {
			if p := recover(); p != nil {
				st := string(debug.Stack())
				if ev.InGolib(st) {
					c.Failf("panic/"+name, "%s panicked: %v\n%s", name, p, st)
				} else {
					c.Run().HarnessFailure(fmt.Sprintf("%s[%d] %s: harness panic: %v\n%s", c.Engine, c.Index, name, p, st))
				}
			}
		}()
		seq(yield)
	}
}

type keptSeq struct {
	k    int
	seq  iter.Seq[int]
	born []int // values of the list when All() was called
	id   int
}

// dlistKept: sequences from All() of 1..2 DLists kept across operations.
func dlistKept(c *ev.Case) {
	rng := c.Rng
	want := c.Index < 64 && c.WantSample()
	s := newDsut(c, rng.Range(1, 2), want)
	var kept []*keptSeq
	keep := func(k int) bool {
		ks := &keptSeq{k: k, born: s.modelValues(k), id: len(kept)}
		if !c.Guard("DList.All", func() { ks.seq = s.gl[k].All() }) {
			return false
		}
		if ks.seq == nil {
			c.Failf("dlist-all-kept", "L%d.All() returned a nil sequence", k)
			return false
		}
		c.Logf("    seq#%d = L%d.All() (not run yet)", ks.id, k)
		kept = append(kept, ks)
		c.Add("dlist_kept_seqs", 1)
		return true
	}
	// sequences taken before anything else has touched the lists (possibly never-initialised zero values)
	for k := range s.gl {
		if rng.Bool() {
			if s.zero[k] {
				c.Add("dlist_kept_taken_from_untouched_zero_value", 1)
			}
			if !keep(k) {
				return
			}
		}
	}
	if rng.Bool() && !s.checkAll() {
		return
	}
	nops := rng.Pick(10, 20, 40)
	uses := 0
	for i := 0; i < nops; i++ {
		if !s.apply(s.randomOp(&wMix)) {
			return
		}
		switch p := rng.Intn(10); {
		case p < 2 || len(kept) == 0:
			if !keep(rng.Intn(len(s.gl))) {
				return
			}
		case p < 6:
			ks := kept[rng.Intn(len(kept))]
			if rng.Chance(2, 3) {
				ks = kept[rng.Intn(min(len(kept), 3))] // the oldest ones have seen the most changes
			}
			o := kept[rng.Intn(len(kept))]
			now, onow := s.modelValues(ks.k), s.modelValues(o.k)
			mode := rng.Intn(nKeptModes)
			if !useKept(c, "dlist", fmt.Sprintf("seq#%d = L%d.All() taken when L%d held %v", ks.id, ks.k, ks.k, ks.born), mode, ks.seq, now, o.seq, onow) {
				return
			}
			s.hash = ev.Mix(s.hash, 0xCE, uint64(ks.id), uint64(o.id), uint64(mode))
			uses++
			if !eqInts(now, ks.born) {
				c.Add("dlist_kept_run_after_change", 1)
				if len(ks.born) == 0 || len(now) == 0 || ks.born[0] != now[0] {
					c.Add("dlist_kept_run_after_front_changed", 1)
				}
			}
			if o.k != ks.k && (mode == kNestedOther || mode == kPullOther) {
				c.Add("dlist_kept_two_lists_interleaved", 1)
			}
			if mode == kPanic && len(now) > 0 {
				// the list that was being enumerated when the callback panicked goes on working
				if !s.apply(s.randomOp(&wMix)) {
					return
				}
			}
		}
	}
	if !s.finalChecks() {
		return
	}
	if s.nontriv >= 2 && uses > 0 {
		c.Distinct(ev.Mix(0xD4, s.hash))
	}
	s.sample("kept")
}

// slistKept: sequences from All() of an SList kept across operations.
func slistKept(c *ev.Case) {
	rng := c.Rng
	want := c.Index < 64 && c.WantSample()
	s := newSsut(c, want)
	var kept []*keptSeq
	keep := func() bool {
		ks := &keptSeq{born: append([]int(nil), s.vals...), id: len(kept)}
		if !c.Guard("SList.All", func() { ks.seq = s.l.All() }) {
			return false
		}
		if ks.seq == nil {
			c.Failf("slist-all-kept", "All() returned a nil sequence")
			return false
		}
		c.Logf("    seq#%d = All() (not run yet)", ks.id)
		kept = append(kept, ks)
		c.Add("slist_kept_seqs", 1)
		return true
	}
	if rng.Bool() {
		c.Add("slist_kept_taken_from_untouched_list", 1)
		if !keep() {
			return
		}
	}
	if rng.Bool() && !s.check() {
		return
	}
	nops := rng.Pick(10, 20, 40)
	uses := 0
	for i := 0; i < nops; i++ {
		if !s.apply(s.randomOp()) {
			return
		}
		switch p := rng.Intn(10); {
		case p < 2 || len(kept) == 0:
			if !keep() {
				return
			}
		case p < 6:
			ks := kept[rng.Intn(len(kept))]
			if rng.Chance(2, 3) {
				ks = kept[rng.Intn(min(len(kept), 3))]
			}
			o := kept[rng.Intn(len(kept))]
			mode := rng.Intn(nKeptModes)
			now := append([]int(nil), s.vals...)
			if !useKept(c, "slist", fmt.Sprintf("seq#%d = All() taken when the list held %v", ks.id, ks.born), mode, ks.seq, now, o.seq, now) {
				return
			}
			s.hash = ev.Mix(s.hash, 0xCE, uint64(ks.id), uint64(o.id), uint64(mode))
			uses++
			if !eqInts(now, ks.born) {
				c.Add("slist_kept_run_after_change", 1)
				if len(ks.born) == 0 || len(now) == 0 || ks.born[0] != now[0] {
					c.Add("slist_kept_run_after_front_changed", 1)
				}
			}
			if mode == kPanic && len(now) > 0 {
				if !s.apply(s.randomOp()) {
					return
				}
			}
		}
	}
	if s.nontriv >= 2 && uses > 0 {
		c.Distinct(ev.Mix(0x54, s.hash))
	}
	s.sample("kept")
}
