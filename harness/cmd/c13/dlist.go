package main

// DList monitor: differential against container/list with paired handles.
//
// Every golib node the harness has ever seen is paired with exactly one
// container/list element (a "handle"). The same operation is applied to both
// lists with the paired arguments; after every operation every list of the case
// is traversed forwards (Front/Next), backwards (Back/Prev) and through All,
// and must show the paired nodes, in the model's order, with the model's values.

import (
	"container/list"
	"fmt"
	"strings"

	"github.com/welllog/golib/listz"

	"verif/ev"
)

const (
	hFresh   = iota // never inserted anywhere (zero links, no owner)
	hLive           // member of list `owner`
	hRemoved        // was a member, has been removed
	hRetired        // was a member of list `owner` when that list was re-Init()ed
)

var stateName = [...]string{"fresh", "live", "removed", "retired"}

type handle struct {
	id    int
	g     *listz.DNode[int]
	e     *list.Element
	state int
	owner int
	last  int // list it was removed from last (hRemoved), for the coverage counters
}

func (h *handle) val() int {
	if v, ok := h.e.Value.(int); ok {
		return v
	}
	return -999999
}

func (h *handle) String() string {
	if h == nil {
		return "h?"
	}
	switch h.state {
	case hLive:
		return fmt.Sprintf("h%d{live in L%d v=%d}", h.id, h.owner, h.val())
	case hRetired:
		return fmt.Sprintf("h%d{retired by L%d.Init v=%d}", h.id, h.owner, h.val())
	}
	return fmt.Sprintf("h%d{%s v=%d}", h.id, stateName[h.state], h.val())
}

const (
	oPushFront = iota
	oPushBack
	oInsBefore
	oInsAfter
	oPushFrontNode
	oPushBackNode
	oInsNodeBefore
	oInsNodeAfter
	oRemove
	oMoveFront
	oMoveBack
	oMoveBefore
	oMoveAfter
	oPushBackList
	oPushFrontList
	oInit
	oSetValue
	nDOps
)

var dopName = [...]string{"PushFront", "PushBack", "InsertBefore", "InsertAfter", "PushFrontNode", "PushBackNode",
	"InsertNodeBefore", "InsertNodeAfter", "Remove", "MoveToFront", "MoveToBack", "MoveBefore", "MoveAfter",
	"PushBackDList", "PushFrontDList", "Init", "SetValue"}

// argument classes of a node / mark argument relative to the receiver list
const (
	aLive = iota
	aForeign
	aRemoved
	aFresh
	aRetired
	nArgClasses
)

var argClassName = [...]string{"member", "member-of-another-list", "removed", "never-inserted", "orphaned-by-another-lists-Init"}
var argRoleName = [...]string{"node", "mark"}

// dargName[op][role][class] = "dlist_arg/<Op>/<node|mark>/<class>": which operation was given
// which kind of handle in which argument position (floors in main.go: every named operation
// of the statement really meets every kind of handle the quantifier names).
var dargName = func() (t [nDOps][2][nArgClasses]string) {
	for o := range t {
		for r := range t[o] {
			for a := range t[o][r] {
				t[o][r][a] = "dlist_arg/" + dopName[o] + "/" + argRoleName[r] + "/" + argClassName[a]
			}
		}
	}
	return
}()

func (s *dsut) argClass(h *handle, k int) int {
	switch {
	case s.member(h, k):
		return aLive
	case h.state == hLive:
		return aForeign
	case h.state == hRemoved:
		return aRemoved
	case h.state == hFresh:
		return aFresh
	}
	return aRetired
}

type dop struct {
	code int
	k, j int     // receiver list, other list (copies)
	h, m *handle // node argument, mark argument
	v    int
}

type dsut struct {
	c        *ev.Case
	gl       []*listz.DList[int]
	ml       []*list.List
	zero     []bool // created as a zero value and not yet touched by any operation
	hs       []*handle
	byElem   map[*list.Element]*handle
	byNode   map[*listz.DNode[int]]*handle
	allowNew bool // the last operation copies a list: unseen nodes may appear (paired by position)
	quiet    bool // building a fixture: skip the traversal comparison
	window   bool // unobserved-operation window: only the mutators' own results are compared (windows.go)
	hash     uint64
	nextVal  int
	keepText bool
	text     []string
	nontriv  int
}

func newDsut(c *ev.Case, nlists int, keepText bool) *dsut {
	s := &dsut{c: c, byElem: map[*list.Element]*handle{}, byNode: map[*listz.DNode[int]]*handle{}, keepText: keepText || c.Logging(), nextVal: 100}
	for i := 0; i < nlists; i++ {
		if c.Rng.Bool() {
			s.addList(true)
		} else {
			s.addList(false)
		}
	}
	return s
}

func (s *dsut) addList(zero bool) int {
	if zero {
		s.gl = append(s.gl, new(listz.DList[int])) // zero value, never initialised
		s.ml = append(s.ml, new(list.List))
	} else {
		var gl *listz.DList[int]
		if !s.c.Guard("NewDoubly", func() { gl = listz.NewDoubly[int]() }) || gl == nil {
			s.c.Failf("dlist-new", "NewDoubly returned nil")
			gl = new(listz.DList[int])
		}
		s.gl = append(s.gl, gl)
		s.ml = append(s.ml, list.New())
	}
	s.zero = append(s.zero, zero)
	return len(s.gl) - 1
}

func (s *dsut) newHandle(g *listz.DNode[int], e *list.Element, state, owner int) *handle {
	h := &handle{id: len(s.hs), g: g, e: e, state: state, owner: owner}
	s.hs = append(s.hs, h)
	s.byElem[e] = h
	s.byNode[g] = h
	return h
}

func (s *dsut) fresh(v int) *handle {
	return s.newHandle(&listz.DNode[int]{Value: v}, &list.Element{Value: v}, hFresh, -1)
}

func (s *dsut) member(h *handle, k int) bool { return h != nil && h.state == hLive && h.owner == k }

func (s *dsut) live(k int) []*handle {
	var out []*handle
	for e := s.ml[k].Front(); e != nil; e = e.Next() {
		if h := s.byElem[e]; h != nil {
			out = append(out, h)
		}
	}
	return out
}

func (s *dsut) modelValues(k int) []int {
	var out []int
	for e := s.ml[k].Front(); e != nil; e = e.Next() {
		v, _ := e.Value.(int)
		out = append(out, v)
	}
	return out
}

func (s *dsut) dump() string {
	var b strings.Builder
	for k := range s.ml {
		fmt.Fprintf(&b, " L%d=%v", k, s.modelValues(k))
	}
	return b.String()
}

func (s *dsut) opText(op dop) string {
	n := dopName[op.code]
	switch op.code {
	case oPushFront, oPushBack:
		return fmt.Sprintf("L%d.%s(%d)", op.k, n, op.v)
	case oInsBefore, oInsAfter:
		return fmt.Sprintf("L%d.%s(%d, mark=%v)", op.k, n, op.v, op.m)
	case oPushFrontNode, oPushBackNode, oRemove, oMoveFront, oMoveBack:
		return fmt.Sprintf("L%d.%s(%v)", op.k, n, op.h)
	case oInsNodeBefore, oInsNodeAfter, oMoveBefore, oMoveAfter:
		return fmt.Sprintf("L%d.%s(%v, mark=%v)", op.k, n, op.h, op.m)
	case oPushBackList, oPushFrontList:
		return fmt.Sprintf("L%d.%s(L%d)", op.k, n, op.j)
	case oInit:
		return fmt.Sprintf("L%d.Init()", op.k)
	case oSetValue:
		return fmt.Sprintf("%v.Value = %d", op.h, op.v)
	}
	return n
}

// bindNew pairs the node returned by a value-form insertion with the model's new element.
func (s *dsut) bindNew(name string, gn *listz.DNode[int], ne *list.Element, k, v int) bool {
	if (gn == nil) != (ne == nil) {
		if gn == nil {
			s.c.Failf("dlist-insert-result", "%s returned nil; container/list inserted a new element with value %d", name, v)
		} else {
			s.c.Failf("dlist-insert-result", "%s returned a node (value %d); container/list returned nil because the mark is not an element of the list", name, gn.Value)
		}
		return false
	}
	if gn == nil {
		return true
	}
	if old := s.byNode[gn]; old != nil {
		s.c.Failf("dlist-insert-result", "%s returned an already existing node (%v) instead of a new one", name, old)
		return false
	}
	if gn.Value != v {
		s.c.Failf("dlist-insert-result", "%s(%d) returned a node with Value %d", name, v, gn.Value)
		return false
	}
	s.newHandle(gn, ne, hLive, k)
	return true
}

func (s *dsut) rebind(h *handle, ne *list.Element, k int) {
	delete(s.byElem, h.e)
	h.e = ne
	s.byElem[ne] = h
	h.state, h.owner = hLive, k
}

func (s *dsut) usable(h *handle, k int) bool {
	// container/list is undefined for elements of a list that has been re-Init()ed when
	// they are handed to that same list; everywhere else they are plain non-members.
	return h != nil && !(h.state == hRetired && h.owner == k)
}

// countReinsert: a node that was removed earlier goes back into a list (the one it left, or another one).
func (s *dsut) countReinsert(op dop, k int) {
	c := s.c
	c.Add("dlist_node_reinserted_after_removal", 1)
	c.Add("dlist_node_reinserted_after_removal/"+dopName[op.code], 1)
	if op.h.last != k {
		c.Add("dlist_node_reinserted_into_another_list", 1)
	}
}

// apply performs one operation on golib and on the model and compares all observable state.
func (s *dsut) apply(op dop) bool {
	c := s.c
	k := op.k
	gl, ml := s.gl[k], s.ml[k]
	name := "DList." + dopName[op.code]
	hid := func(h *handle) uint64 {
		if h == nil {
			return 0
		}
		return uint64(h.id + 1)
	}
	s.hash = ev.Mix(s.hash, uint64(op.code), uint64(k), uint64(op.j), hid(op.h), hid(op.m), uint64(op.v))
	if (op.h != nil && !s.usable(op.h, k)) || (op.m != nil && !s.usable(op.m, k)) {
		c.Run().HarnessFailure("generator handed a retired handle to its own list: " + s.opText(op))
		return false
	}
	var txt string
	if s.keepText {
		txt = s.opText(op)
		s.text = append(s.text, txt)
	}
	if s.zero[k] && op.code != oSetValue {
		c.Add("dlist_zero_value_first_op", 1)
		c.Add("dlist_zero_value_first_op/"+dopName[op.code], 1)
		s.zero[k] = false
	}
	if !s.quiet {
		c.Add("dlist_ops", 1)
		c.Add("dlist_op/"+dopName[op.code], 1)
		for role, h := range [2]*handle{op.h, op.m} {
			if h == nil || op.code == oSetValue {
				continue
			}
			a := s.argClass(h, k)
			c.Add(dargName[op.code][role][a], 1)
			switch a {
			case aLive:
				c.Add("dlist_handle_live", 1)
			case aForeign:
				c.Add("dlist_handle_foreign", 1)
			case aRemoved:
				c.Add("dlist_handle_removed", 1)
			case aFresh:
				c.Add("dlist_handle_fresh", 1)
			case aRetired:
				c.Add("dlist_handle_retired_other_list", 1)
			}
		}
	}
	res := ""
	switch op.code {
	case oPushFront, oPushBack:
		var gn *listz.DNode[int]
		if !c.Guard(name, func() {
			if op.code == oPushFront {
				gn = gl.PushFront(op.v)
			} else {
				gn = gl.PushBack(op.v)
			}
		}) {
			return false
		}
		var ne *list.Element
		if op.code == oPushFront {
			ne = ml.PushFront(op.v)
		} else {
			ne = ml.PushBack(op.v)
		}
		if !s.bindNew(name, gn, ne, k, op.v) {
			return false
		}
	case oInsBefore, oInsAfter:
		var gn *listz.DNode[int]
		if !c.Guard(name, func() {
			if op.code == oInsBefore {
				gn = gl.InsertBefore(op.v, op.m.g)
			} else {
				gn = gl.InsertAfter(op.v, op.m.g)
			}
		}) {
			return false
		}
		var ne *list.Element
		if op.code == oInsBefore {
			ne = ml.InsertBefore(op.v, op.m.e)
		} else {
			ne = ml.InsertAfter(op.v, op.m.e)
		}
		if s.keepText {
			res = fmt.Sprintf(" -> nil=%v", gn == nil)
		}
		if ne == nil {
			c.Add("dlist_stale_mark_noop", 1)
		} else {
			s.nontriv++
		}
		if !s.bindNew(name, gn, ne, k, op.v) {
			return false
		}
	case oPushFrontNode, oPushBackNode:
		if op.h.state != hFresh && op.h.state != hRemoved {
			c.Run().HarnessFailure("generator inserted a node that is still in a list: " + s.opText(op))
			return false
		}
		if op.h.state == hRemoved {
			s.countReinsert(op, k)
		}
		v := op.h.val()
		if !c.Guard(name, func() {
			if op.code == oPushFrontNode {
				gl.PushFrontNode(op.h.g)
			} else {
				gl.PushBackNode(op.h.g)
			}
		}) {
			return false
		}
		var ne *list.Element
		if op.code == oPushFrontNode {
			ne = ml.PushFront(v)
		} else {
			ne = ml.PushBack(v)
		}
		s.rebind(op.h, ne, k)
	case oInsNodeBefore, oInsNodeAfter:
		if op.h.state != hFresh && op.h.state != hRemoved {
			c.Run().HarnessFailure("generator inserted a node that is still in a list: " + s.opText(op))
			return false
		}
		v := op.h.val()
		if !c.Guard(name, func() {
			if op.code == oInsNodeBefore {
				gl.InsertNodeBefore(op.h.g, op.m.g)
			} else {
				gl.InsertNodeAfter(op.h.g, op.m.g)
			}
		}) {
			return false
		}
		var ne *list.Element
		if op.code == oInsNodeBefore {
			ne = ml.InsertBefore(v, op.m.e)
		} else {
			ne = ml.InsertAfter(v, op.m.e)
		}
		if ne != nil {
			if op.h.state == hRemoved {
				s.countReinsert(op, k)
			}
			s.rebind(op.h, ne, k)
			s.nontriv++
		} else {
			c.Add("dlist_stale_mark_noop", 1)
		}
	case oRemove:
		var got int
		if !c.Guard(name, func() { got = gl.Remove(op.h.g) }) {
			return false
		}
		wantAny := ml.Remove(op.h.e)
		want, _ := wantAny.(int)
		if s.keepText {
			res = fmt.Sprintf(" -> %d", got)
		}
		if got != want {
			c.Logf("%s -> %d", txt, got)
			c.Failf("dlist-remove-result", "Remove(%v) returned %d, container/list returned %d", op.h, got, want)
			return false
		}
		if s.member(op.h, k) {
			op.h.state, op.h.owner, op.h.last = hRemoved, -1, k
			c.Add("dlist_remove_effective", 1)
			s.nontriv++
		} else {
			c.Add("dlist_stale_handle_noop", 1)
		}
	case oMoveFront, oMoveBack:
		if !c.Guard(name, func() {
			if op.code == oMoveFront {
				gl.MoveToFront(op.h.g)
			} else {
				gl.MoveToBack(op.h.g)
			}
		}) {
			return false
		}
		if op.code == oMoveFront {
			ml.MoveToFront(op.h.e)
		} else {
			ml.MoveToBack(op.h.e)
		}
		if s.member(op.h, k) {
			c.Add("dlist_move_effective", 1)
			s.nontriv++
		} else {
			c.Add("dlist_stale_handle_noop", 1)
		}
	case oMoveBefore, oMoveAfter:
		if !c.Guard(name, func() {
			if op.code == oMoveBefore {
				gl.MoveBefore(op.h.g, op.m.g)
			} else {
				gl.MoveAfter(op.h.g, op.m.g)
			}
		}) {
			return false
		}
		if op.code == oMoveBefore {
			ml.MoveBefore(op.h.e, op.m.e)
		} else {
			ml.MoveAfter(op.h.e, op.m.e)
		}
		switch {
		case op.h == op.m:
			c.Add("dlist_move_onto_itself", 1)
		case s.member(op.h, k) && s.member(op.m, k):
			c.Add("dlist_move_effective", 1)
			s.nontriv++
			if op.h.e.Next() == op.m.e || op.h.e.Prev() == op.m.e {
				c.Add("dlist_move_adjacent", 1)
			}
		default:
			c.Add("dlist_stale_handle_noop", 1)
		}
	case oPushBackList, oPushFrontList:
		src := s.gl[op.j]
		if op.j == k {
			c.Add("dlist_self_copy", 1)
			if ml.Len() > 0 {
				c.Add("dlist_self_copy_nonempty", 1)
				c.Add("dlist_self_copy_nonempty/"+dopName[op.code], 1)
			}
		} else {
			c.Add("dlist_other_copy", 1)
			c.Add("dlist_other_copy/"+dopName[op.code], 1)
			if s.zero[op.j] {
				c.Add("dlist_copy_source_untouched_zero_value", 1)
			}
		}
		if s.ml[op.j].Len() > 0 {
			s.nontriv++
		}
		if !c.Guard(name, func() {
			if op.code == oPushBackList {
				gl.PushBackDList(src)
			} else {
				gl.PushFrontDList(src)
			}
		}) {
			return false
		}
		if op.code == oPushBackList {
			ml.PushBackList(s.ml[op.j])
		} else {
			ml.PushFrontList(s.ml[op.j])
		}
		s.allowNew = true
	case oInit:
		var ret *listz.DList[int]
		if !c.Guard(name, func() { ret = gl.Init() }) {
			return false
		}
		ml.Init()
		if ret != gl {
			c.Failf("dlist-init-result", "Init() did not return its receiver (container/list returns l)")
			return false
		}
		for _, h := range s.hs {
			if s.member(h, k) {
				h.state = hRetired
				c.Add("dlist_handles_retired_by_init", 1)
			}
		}
		c.Add("dlist_init", 1)
	case oSetValue:
		op.h.g.Value = op.v
		op.h.e.Value = op.v
	}
	c.Logf("%s%s", txt, res)
	if s.window {
		// no observing call at all; nodes created by a copy stay unpaired (allowNew is kept)
		// until the check that closes the window
		return !c.Failed()
	}
	if s.quiet {
		s.allowNew = false
		return !c.Failed()
	}
	ok := s.checkAll()
	if ok {
		ok = s.checkDetached(op.h) && s.checkDetached(op.m)
	}
	if c.Logging() {
		c.Logf("    model:%s", s.dump())
	}
	return ok
}

func (s *dsut) checkAll() bool {
	for k := range s.gl {
		if !s.checkList(k) {
			s.allowNew = false
			return false
		}
	}
	s.allowNew = false
	return true
}

func nodeVals(ns []*listz.DNode[int]) []int {
	out := make([]int, 0, len(ns))
	for _, n := range ns {
		if n == nil {
			out = append(out, -1<<31)
		} else {
			out = append(out, n.Value)
		}
	}
	return out
}

// checkList compares Len, Front/Next, Back/Prev and All of list k with the model.
func (s *dsut) checkList(k int) bool {
	c := s.c
	gl, ml := s.gl[k], s.ml[k]
	want := make([]*list.Element, 0, ml.Len())
	for e := ml.Front(); e != nil; e = e.Next() {
		want = append(want, e)
	}
	wantVals := s.modelValues(k)
	if s.zero[k] {
		c.Add("dlist_untouched_zero_value_observed", 1)
	}
	var n int
	if !c.Guard("DList.Len", func() { n = gl.Len() }) {
		return false
	}
	if n != len(want) {
		c.Failf("dlist-len", "L%d.Len() = %d, container/list has %d elements %v", k, n, len(want), wantVals)
		return false
	}
	limit := len(want) + 3
	var fw []*listz.DNode[int]
	if !c.Guard("DList.Front/Next", func() {
		for e := gl.Front(); e != nil; e = e.Next() {
			fw = append(fw, e)
			if len(fw) > limit {
				break
			}
		}
	}) {
		return false
	}
	if len(fw) != len(want) {
		c.Failf("dlist-forward", "L%d: Front/Next traversal visits %d nodes %v, container/list has %d elements %v", k, len(fw), nodeVals(fw), len(want), wantVals)
		return false
	}
	for i, gn := range fw {
		hm, hg := s.byElem[want[i]], s.byNode[gn]
		switch {
		case hm == nil && hg == nil && s.allowNew:
			s.newHandle(gn, want[i], hLive, k)
			c.Add("dlist_copied_nodes_paired", 1)
		case hm == nil || hg == nil || hm != hg:
			c.Failf("dlist-identity", "L%d: position %d front-to-back holds node %v, container/list has %v there (golib values %v, model values %v)", k, i, hdesc(hg, gn), hdesc(hm, nil), nodeVals(fw), wantVals)
			return false
		}
		if gn.Value != wantVals[i] {
			c.Failf("dlist-value", "L%d: values front-to-back are %v, container/list has %v", k, nodeVals(fw), wantVals)
			return false
		}
	}
	var bw []*listz.DNode[int]
	if !c.Guard("DList.Back/Prev", func() {
		for e := gl.Back(); e != nil; e = e.Prev() {
			bw = append(bw, e)
			if len(bw) > limit {
				break
			}
		}
	}) {
		return false
	}
	bad := len(bw) != len(fw)
	for i := 0; !bad && i < len(bw); i++ {
		bad = bw[i] != fw[len(fw)-1-i]
	}
	if bad {
		c.Failf("dlist-backward", "L%d: Back/Prev traversal gives %v, which is not the reverse of the model %v", k, nodeVals(bw), wantVals)
		return false
	}
	var all []int
	if !c.Guard("DList.All", func() {
		// the iterator is called directly (not through range) so that an iterator that
		// goes on after yield returned false is counted instead of tripping the runtime check
		gl.All()(func(v int) bool {
			all = append(all, v)
			return len(all) <= limit
		})
	}) {
		return false
	}
	bad = len(all) != len(wantVals)
	for i := 0; !bad && i < len(all); i++ {
		bad = all[i] != wantVals[i]
	}
	if bad {
		c.Failf("dlist-all", "L%d: All() yields %v, container/list has %v", k, all, wantVals)
		return false
	}
	if len(want) > 0 && c.Rng.Chance(1, 4) {
		stop := 1 + c.Rng.Intn(len(want))
		calls := 0
		if !c.Guard("DList.All-break", func() {
			gl.All()(func(int) bool {
				calls++
				return calls < stop
			})
		}) {
			return false
		}
		if calls != stop {
			c.Failf("dlist-all-stop", "L%d: All() whose yield returned false at element %d called yield %d times", k, stop, calls)
			return false
		}
		c.Add("dlist_all_early_break", 1)
	}
	c.Add("dlist_traversals_compared", 3)
	c.Max("dlist_max_len", int64(len(want)))
	return true
}

func hdesc(h *handle, gn *listz.DNode[int]) string {
	if h != nil {
		return h.String()
	}
	if gn != nil {
		return fmt.Sprintf("<unknown node v=%d>", gn.Value)
	}
	return "<an element without handle>"
}

// checkDetached: a node that is in no list answers Next/Prev like the paired
// container/list element does (nil).
func (s *dsut) checkDetached(h *handle) bool {
	if h == nil || (h.state != hRemoved && h.state != hFresh) {
		return true
	}
	var nx, pv *listz.DNode[int]
	if !s.c.Guard("DNode.Next/Prev", func() { nx, pv = h.g.Next(), h.g.Prev() }) {
		return false
	}
	if (nx == nil) != (h.e.Next() == nil) || (pv == nil) != (h.e.Prev() == nil) {
		s.c.Failf("dlist-nav-detached", "%v is in no list: Next()==nil is %v, Prev()==nil is %v; the container/list element answers nil/nil", h, nx == nil, pv == nil)
		return false
	}
	s.c.Add("dlist_detached_nav_checked", 1)
	s.c.Add("dlist_detached_nav_checked/"+stateName[h.state], 1)
	return true
}

func (s *dsut) finalChecks() bool {
	for _, h := range s.hs {
		if !s.checkDetached(h) {
			return false
		}
	}
	return true
}

// ---- generators ----

// pickHandle chooses a handle for an operation on list k: mostly members, but also
// members of other lists, removed nodes, never-inserted nodes and nodes orphaned by
// another list's Init.
func (s *dsut) pickHandle(k int) *handle {
	rng := s.c.Rng
	var live, foreign, removed, retired []*handle
	for _, h := range s.hs {
		switch {
		case s.member(h, k):
			live = append(live, h)
		case h.state == hLive:
			foreign = append(foreign, h)
		case h.state == hRemoved:
			removed = append(removed, h)
		case h.state == hRetired && h.owner != k:
			retired = append(retired, h)
		}
	}
	p := rng.Intn(100)
	var pool []*handle
	switch {
	case p < 62:
		pool = live
	case p < 74:
		pool = foreign
	case p < 88:
		pool = removed
	case p < 94:
		return s.fresh(s.val())
	default:
		pool = retired
	}
	if len(pool) == 0 {
		pool = live
	}
	if len(pool) == 0 {
		return s.fresh(s.val())
	}
	return pool[rng.Intn(len(pool))]
}

// pickInsertable chooses a node that is in no list: a removed one or a fresh one.
func (s *dsut) pickInsertable() *handle {
	rng := s.c.Rng
	if rng.Chance(3, 5) {
		var removed []*handle
		for _, h := range s.hs {
			if h.state == hRemoved {
				removed = append(removed, h)
			}
		}
		if len(removed) > 0 {
			return removed[rng.Intn(len(removed))]
		}
	}
	return s.fresh(s.val())
}

func (s *dsut) val() int {
	if s.c.Rng.Chance(1, 4) {
		return s.c.Rng.Intn(4) // duplicates
	}
	s.nextVal++
	return s.nextVal
}

// weights per operation code for the two profiles
var (
	wMix  = [nDOps]int{6, 6, 6, 6, 5, 5, 5, 5, 16, 6, 6, 9, 9, 3, 3, 1, 3}
	wCopy = [nDOps]int{5, 5, 2, 2, 2, 2, 1, 1, 8, 3, 3, 3, 3, 28, 28, 2, 2}
)

func (s *dsut) randomOp(w *[nDOps]int) dop {
	rng := s.c.Rng
	k := rng.Intn(len(s.gl))
	tot := 0
	for _, x := range w {
		tot += x
	}
	var code int
	for {
		p := rng.Intn(tot)
		for code = 0; code < nDOps; code++ {
			if p < w[code] {
				break
			}
			p -= w[code]
		}
		n := s.ml[k].Len()
		if n > 14 && (code <= oInsNodeAfter) && rng.Chance(3, 4) {
			continue // keep lists small: the mechanism is in the splice bookkeeping, not in size
		}
		if n == 0 && code >= oInsBefore && code <= oMoveAfter && code != oPushFrontNode && code != oPushBackNode && rng.Chance(3, 4) {
			// node-relative operations on an empty list can only be no-ops: keep some, grow mostly
			code = rng.Pick(oPushFront, oPushBack, oPushFrontNode, oPushBackNode)
		}
		break
	}
	op := dop{code: code, k: k}
	switch code {
	case oPushFront, oPushBack:
		op.v = s.val()
	case oInsBefore, oInsAfter:
		op.v, op.m = s.val(), s.pickHandle(k)
	case oPushFrontNode, oPushBackNode:
		op.h = s.pickInsertable()
	case oInsNodeBefore, oInsNodeAfter:
		op.h, op.m = s.pickInsertable(), s.pickHandle(k)
		if rng.Chance(1, 25) {
			op.m = op.h // mark is the detached node itself
		}
	case oRemove, oMoveFront, oMoveBack:
		op.h = s.pickHandle(k)
		if live := s.live(k); len(live) > 0 && rng.Chance(1, 4) {
			op.h = live[rng.Pick(0, len(live)-1)] // the ends
		}
	case oMoveBefore, oMoveAfter:
		op.h, op.m = s.pickHandle(k), s.pickHandle(k)
		live := s.live(k)
		switch {
		case rng.Chance(1, 12):
			op.m = op.h
		case len(live) > 1 && rng.Chance(1, 3):
			// neighbours and the two ends: the splice degenerates there
			i := rng.Intn(len(live) - 1)
			op.h, op.m = live[i], live[i+1]
			if rng.Bool() {
				op.h, op.m = op.m, op.h
			}
			if rng.Chance(1, 3) {
				op.h, op.m = live[0], live[len(live)-1]
				if rng.Bool() {
					op.h, op.m = op.m, op.h
				}
			}
		}
	case oPushBackList, oPushFrontList:
		op.j = rng.Intn(len(s.gl))
		if rng.Chance(2, 5) {
			op.j = k
		}
		if s.ml[k].Len()+s.ml[op.j].Len() > 48 {
			return dop{code: oInit, k: k}
		}
	case oSetValue:
		op.h, op.v = s.pickHandle(k), s.val()
		if op.h.state == hRetired {
			op.h = s.fresh(op.v)
		}
	}
	return op
}

func (s *dsut) sample(kind string) {
	c := s.c
	if s.keepText && c.WantSample() {
		t := s.text
		more := ""
		if len(t) > 14 {
			more = fmt.Sprintf(" ... (+%d more operations)", len(t)-14)
			t = t[:14]
		}
		c.Sample(kind + ": " + strings.Join(t, "; ") + more + "; final model:" + s.dump())
	}
}

// dlistMix: random interleavings over 1..3 lists with live, removed, fresh, foreign and retired handles.
func dlistMix(c *ev.Case) {
	want := c.Index < 64 && c.WantSample()
	s := newDsut(c, c.Rng.Range(1, 3), want)
	if !s.checkAll() { // zero values / fresh lists are observable before any operation
		return
	}
	nops := c.Rng.Pick(8, 20, 40, 80, 160)
	for i := 0; i < nops; i++ {
		if !s.apply(s.randomOp(&wMix)) {
			return
		}
	}
	if !s.finalChecks() {
		return
	}
	if s.nontriv >= 2 {
		c.Distinct(s.hash)
	}
	s.sample("mix")
}

// dlistCopy: PushBackDList / PushFrontDList between lists and onto the list itself,
// including never-initialised zero values and lists emptied again, interleaved with moves and removals.
func dlistCopy(c *ev.Case) {
	want := c.Index < 64 && c.WantSample()
	s := newDsut(c, c.Rng.Range(1, 3), want)
	if !s.checkAll() {
		return
	}
	// small prefix so that copies have something to copy (or deliberately nothing)
	for i := c.Rng.Intn(5); i > 0; i-- {
		if !s.apply(dop{code: c.Rng.Pick(oPushFront, oPushBack), k: c.Rng.Intn(len(s.gl)), v: s.val()}) {
			return
		}
	}
	nops := c.Rng.Pick(6, 12, 30)
	for i := 0; i < nops; i++ {
		if !s.apply(s.randomOp(&wCopy)) {
			return
		}
	}
	if !s.finalChecks() {
		return
	}
	if s.nontriv >= 2 {
		c.Distinct(s.hash)
	}
	s.sample("copy")
}

// dlistSmall: for one small size n (0..5) every operation is tried with every choice of
// node and mark among {each position, a node of another list, a removed node, a fresh
// node}, each on a freshly built list; afterwards a few random operations shake out
// latent link / owner corruption.
func dlistSmall(c *ev.Case) {
	rng := c.Rng
	n := rng.Range(0, 5)
	zero := rng.Bool()
	style := rng.Intn(3)
	want := c.WantSample()
	builds := 0
	var caseHash uint64
	var last *dsut
	// build returns the system and the handle universe
	build := func() (*dsut, []*handle) {
		s := &dsut{c: c, byElem: map[*list.Element]*handle{}, byNode: map[*listz.DNode[int]]*handle{}, keepText: want || c.Logging(), nextVal: 100}
		s.addList(zero)
		s.addList(false)
		c.Logf("---- new fixture: L0 (%d nodes, zero value: %v), L1 (2 nodes)", n, zero)
		s.quiet = true
		for i := 0; i < n; i++ {
			code := oPushBack
			if style == 1 || (style == 2 && i%2 == 1) {
				code = oPushFront
			}
			if !s.apply(dop{code: code, k: 0, v: 10 + i}) {
				return nil, nil
			}
		}
		for i := 0; i < 3; i++ {
			if !s.apply(dop{code: oPushBack, k: 1, v: 20 + i}) {
				return nil, nil
			}
		}
		l1 := s.live(1)
		if len(l1) != 3 {
			return nil, nil
		}
		removed := l1[1]
		if !s.apply(dop{code: oRemove, k: 1, h: removed}) {
			return nil, nil
		}
		s.quiet = false
		s.text = s.text[:0]
		u := append([]*handle{}, s.live(0)...)
		u = append(u, l1[0], removed, s.fresh(30))
		builds++
		last = s
		return s, u
	}
	follow := func(s *dsut) bool {
		for i := 0; i < 3; i++ {
			if !s.apply(s.randomOp(&wMix)) {
				return false
			}
		}
		caseHash = ev.Mix(caseHash, s.hash)
		return s.finalChecks()
	}
	run := func(mk func(s *dsut, u []*handle) dop) bool {
		s, u := build()
		if s == nil {
			return false
		}
		if !s.checkAll() {
			return false
		}
		if !s.apply(mk(s, u)) {
			return false
		}
		return follow(s)
	}
	usize := n + 3
	// operations without handle
	for _, code := range []int{oPushFront, oPushBack, oInit} {
		if !run(func(s *dsut, u []*handle) dop { return dop{code: code, k: 0, v: 77} }) {
			return
		}
	}
	for _, code := range []int{oPushBackList, oPushFrontList} {
		for _, j := range []int{0, 1} {
			if !run(func(s *dsut, u []*handle) dop { return dop{code: code, k: 0, j: j} }) {
				return
			}
			// copy L0 into L1 as well (source possibly a never-initialised zero value)
			if !run(func(s *dsut, u []*handle) dop { return dop{code: code, k: 1, j: j} }) {
				return
			}
		}
	}
	// one handle
	for _, code := range []int{oRemove, oMoveFront, oMoveBack, oInsBefore, oInsAfter} {
		for i := 0; i < usize; i++ {
			if !run(func(s *dsut, u []*handle) dop {
				if code == oInsBefore || code == oInsAfter {
					return dop{code: code, k: 0, m: u[i], v: 77}
				}
				return dop{code: code, k: 0, h: u[i]}
			}) {
				return
			}
		}
	}
	// Remove twice in a row (the second is a no-op with the same result)
	for i := 0; i < usize; i++ {
		s, u := build()
		if s == nil {
			return
		}
		if !s.apply(dop{code: oRemove, k: 0, h: u[i]}) || !s.apply(dop{code: oRemove, k: 0, h: u[i]}) || !follow(s) {
			return
		}
	}
	// node forms: the inserted node is the removed or the fresh one
	for _, code := range []int{oPushFrontNode, oPushBackNode} {
		for _, hi := range []int{n + 1, n + 2} {
			if !run(func(s *dsut, u []*handle) dop { return dop{code: code, k: 0, h: u[hi]} }) {
				return
			}
		}
	}
	for _, code := range []int{oInsNodeBefore, oInsNodeAfter} {
		for _, hi := range []int{n + 1, n + 2} {
			for mi := 0; mi < usize; mi++ {
				if !run(func(s *dsut, u []*handle) dop { return dop{code: code, k: 0, h: u[hi], m: u[mi]} }) {
					return
				}
			}
		}
	}
	// two handles
	for _, code := range []int{oMoveBefore, oMoveAfter} {
		for hi := 0; hi < usize; hi++ {
			for mi := 0; mi < usize; mi++ {
				if !run(func(s *dsut, u []*handle) dop { return dop{code: code, k: 0, h: u[hi], m: u[mi]} }) {
					return
				}
			}
		}
	}
	c.Add("dlist_small_fixtures", int64(builds))
	c.Add(fmt.Sprintf("dlist_small_size_%d", n), 1)
	c.Distinct(ev.Mix(0xD1, uint64(n), uint64(style), b2u(zero), caseHash))
	if want && last != nil {
		c.Sample(fmt.Sprintf("small: size %d (zero value: %v, build style %d): %d fixtures = every operation x every node/mark among positions 0..%d, foreign, removed, fresh; each followed by 3 random operations; last fixture: %s", n, zero, style, builds, n-1, strings.Join(last.text, "; ")))
	}
}

func b2u(b bool) uint64 {
	if b {
		return 1
	}
	return 0
}
