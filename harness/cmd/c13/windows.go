package main

// Unobserved-operation windows (LESSONS class 1: observation repairs the state).
//
// The other engines read Len, Front, Back, every traversal and Get after every
// single operation, so a list that keeps part of its state lazily (a length or
// a tail that is recomputed when somebody asks, a zero value that is set up by
// the first reader) is always repaired before the next mutator runs. Here 2..12
// mutators run back to back with no observing call at all (their own results
// are still compared), then ONE observer chosen at random looks first, then
// everything is compared as usual. A window may also be the very first thing
// that happens to a never-initialised zero value.

import (
	"container/list"
	"fmt"

	"github.com/welllog/golib/listz"

	"verif/ev"
)

// ---- DList ----

var dFirstName = [...]string{"Len", "Front", "Back", "All", "Back-Prev-walk", "Front-Next-walk", "node-Next-Prev"}

// firstObserve lets one observer of one list look at the state before anybody else does.
func (s *dsut) firstObserve() bool {
	c := s.c
	rng := c.Rng
	k := rng.Intn(len(s.gl))
	if rng.Bool() {
		// an empty list is where Front/Back/All depend on the length being right
		for j := range s.gl {
			if s.ml[j].Len() == 0 {
				k = j
			}
		}
	}
	gl, ml := s.gl[k], s.ml[k]
	want := s.modelValues(k)
	if len(want) == 0 {
		c.Add("dlist_window_first_on_empty_list", 1)
	}
	o := rng.Intn(len(dFirstName))
	if o == 6 && len(s.live(k)) == 0 {
		o = rng.Intn(6)
	}
	c.Logf("    first observer after the window: L%d %s", k, dFirstName[o])
	limit := len(want) + 3
	switch o {
	case 0:
		var n int
		if !c.Guard("DList.Len", func() { n = gl.Len() }) {
			return false
		}
		if n != len(want) {
			c.Failf("dlist-len", "L%d.Len() = %d as the first observation after a run of unobserved operations, container/list has %d elements %v", k, n, len(want), want)
			return false
		}
	case 1, 2:
		var gn *listz.DNode[int]
		var e *list.Element
		if o == 1 {
			e = ml.Front()
			if !c.Guard("DList.Front", func() { gn = gl.Front() }) {
				return false
			}
		} else {
			e = ml.Back()
			if !c.Guard("DList.Back", func() { gn = gl.Back() }) {
				return false
			}
		}
		if !s.sameNode("L"+fmt.Sprint(k)+"."+dFirstName[o]+"() as the first observation after a run of unobserved operations", gn, e) {
			return false
		}
	case 3:
		var all []int
		if !c.Guard("DList.All", func() {
			gl.All()(func(v int) bool {
				all = append(all, v)
				return len(all) <= limit
			})
		}) {
			return false
		}
		if !eqInts(all, want) {
			c.Failf("dlist-all", "L%d: All() as the first observation after a run of unobserved operations yields %v, container/list has %v", k, all, want)
			return false
		}
	case 4, 5:
		var got []int
		if !c.Guard("DList."+dFirstName[o], func() {
			if o == 4 {
				for e := gl.Back(); e != nil && len(got) <= limit; e = e.Prev() {
					got = append(got, e.Value)
				}
			} else {
				for e := gl.Front(); e != nil && len(got) <= limit; e = e.Next() {
					got = append(got, e.Value)
				}
			}
		}) {
			return false
		}
		w := want
		if o == 4 {
			w = make([]int, len(want))
			for i, v := range want {
				w[len(want)-1-i] = v
			}
		}
		if !eqInts(got, w) {
			c.Failf("dlist-first-walk", "L%d: %s as the first observation after a run of unobserved operations reads %v, container/list has %v", k, dFirstName[o], got, w)
			return false
		}
	case 6:
		live := s.live(k)
		h := live[rng.Intn(len(live))]
		var nx, pv *listz.DNode[int]
		if !c.Guard("DNode.Next/Prev", func() { nx, pv = h.g.Next(), h.g.Prev() }) {
			return false
		}
		if !s.sameNode(fmt.Sprintf("%v.Next() as the first observation after a run of unobserved operations", h), nx, h.e.Next()) ||
			!s.sameNode(fmt.Sprintf("%v.Prev() as the first observation after a run of unobserved operations", h), pv, h.e.Prev()) {
			return false
		}
	}
	c.Add("dlist_window_first/"+dFirstName[o], 1)
	return true
}

// sameNode: a node answered by golib and the element answered by container/list are both
// nil or carry the same value (and are the paired handle when both are already known).
func (s *dsut) sameNode(what string, gn *listz.DNode[int], e *list.Element) bool {
	c := s.c
	if (gn == nil) != (e == nil) {
		c.Failf("dlist-first-node", "%s: nil is %v, container/list answers nil: %v (model:%s)", what, gn == nil, e == nil, s.dump())
		return false
	}
	if gn == nil {
		return true
	}
	if v, _ := e.Value.(int); v != gn.Value {
		c.Failf("dlist-first-node", "%s: node with value %d, container/list answers the element with value %d (model:%s)", what, gn.Value, v, s.dump())
		return false
	}
	hg, hm := s.byNode[gn], s.byElem[e]
	if (hg != nil || hm != nil) && hg != hm && !(s.allowNew && (hg == nil || hm == nil)) {
		c.Failf("dlist-identity", "%s: node %v, container/list answers %v (model:%s)", what, hdesc(hg, gn), hdesc(hm, nil), s.dump())
		return false
	}
	return true
}

func eqInts(a, b []int) bool {
	if len(a) != len(b) {
		return false
	}
	for i := range a {
		if a[i] != b[i] {
			return false
		}
	}
	return true
}

// entryOp: any operation as the first thing that happens to a never-initialised zero value.
func (s *dsut) entryOp() dop {
	rng := s.c.Rng
	var zs []int
	for k, z := range s.zero {
		if z {
			zs = append(zs, k)
		}
	}
	k := zs[rng.Intn(len(zs))]
	op := dop{code: rng.Pick(oPushFrontNode, oPushBackNode, oPushBackList, oPushFrontList, oInit, oRemove, oMoveFront, oMoveBack,
		oInsBefore, oInsAfter, oInsNodeBefore, oInsNodeAfter, oMoveBefore, oMoveAfter), k: k}
	switch op.code {
	case oPushFrontNode, oPushBackNode:
		op.h = s.pickInsertable()
	case oPushBackList, oPushFrontList:
		op.j = rng.Intn(len(s.gl)) // itself or another list, which may be an untouched zero value too
	case oRemove, oMoveFront, oMoveBack:
		op.h = s.pickHandle(k)
	case oInsBefore, oInsAfter:
		op.v, op.m = s.val(), s.pickHandle(k)
	case oInsNodeBefore, oInsNodeAfter:
		op.h, op.m = s.pickInsertable(), s.pickHandle(k)
	case oMoveBefore, oMoveAfter:
		op.h, op.m = s.pickHandle(k), s.pickHandle(k)
	}
	return op
}

// dlistWindow: runs of 2..12 unobserved operations over 1..3 lists.
func dlistWindow(c *ev.Case) {
	rng := c.Rng
	want := c.Index < 64 && c.WantSample()
	s := newDsut(c, rng.Range(1, 3), want)
	anyZero := false
	for _, z := range s.zero {
		anyZero = anyZero || z
	}
	unobserved := rng.Bool() // nothing looks at the lists (never-initialised zero values among them) before the first mutators run
	if !unobserved {
		if !s.checkAll() {
			return
		}
	} else if anyZero {
		c.Add("dlist_window_on_unobserved_zero_value", 1)
	}
	w := &wMix
	if rng.Chance(1, 4) {
		w = &wCopy
	}
	rounds := rng.Pick(2, 4, 8, 16)
	for r := 0; r < rounds; r++ {
		n := rng.Range(2, 12)
		// one window in eight takes a list apart node by node (in any order) so that it is
		// empty, or down to its last nodes, when the first observer looks
		var drain []*handle
		drainK := rng.Intn(len(s.gl))
		if rng.Chance(1, 8) {
			drain = s.live(drainK)
			for i, j := range rng.Perm(len(drain)) {
				drain[i], drain[j] = drain[j], drain[i]
			}
			if len(drain) > 12 {
				drain = drain[:12]
			}
			if len(drain) > 0 {
				n = len(drain)
			}
		}
		c.Logf("---- window of %d unobserved operations", n)
		s.window = true
		for i := 0; i < n; i++ {
			op := s.randomOp(w)
			if i < len(drain) {
				op = dop{code: oRemove, k: drainK, h: drain[i]}
				if i == len(drain)-1 && s.ml[drainK].Len() == 1 {
					c.Add("dlist_window_list_emptied_by_removes", 1)
				}
			}
			if r == 0 && i == 0 && unobserved && anyZero && rng.Bool() {
				op = s.entryOp()
			}
			if r == 0 && unobserved && s.zero[op.k] && op.code != oSetValue {
				// the first thing that ever happens to this never-initialised zero value
				c.Add("dlist_unobserved_zero_value_first_op", 1)
				c.Add("dlist_unobserved_zero_value_first_op/"+dopName[op.code], 1)
			}
			if !s.apply(op) {
				return
			}
		}
		s.window = false
		c.Add("dlist_windows", 1)
		c.Add("dlist_window_ops", int64(n))
		if !s.firstObserve() || !s.checkAll() {
			return
		}
		for i := rng.Intn(3); i > 0; i-- {
			if !s.apply(s.randomOp(w)) {
				return
			}
		}
	}
	if !s.finalChecks() {
		return
	}
	if s.nontriv >= 2 {
		c.Distinct(ev.Mix(0xD3, s.hash))
	}
	s.sample("window")
}

// ---- SList ----

var sFirstName = [...]string{"Len", "Front", "Back", "All", "Front-Next-walk", "Get"}

// probe is the index of a single Get made just before or inside the window (-1: none): a
// list that remembers where its last Get ended is asked for that place or one behind it.
func (s *ssut) firstObserve(probe int) bool {
	c := s.c
	rng := c.Rng
	l := s.l
	want := len(s.vals)
	o := rng.Intn(len(sFirstName))
	if probe >= 0 && want > 0 && rng.Bool() {
		o = 5
	}
	c.Logf("    first observer after the window: %s", sFirstName[o])
	s.unseen = false
	limit := want + 3
	switch o {
	case 0:
		var n int
		if !c.Guard("SList.Len", func() { n = l.Len() }) {
			return false
		}
		if n != want {
			c.Failf("slist-len", "Len() = %d as the first observation after a run of unobserved operations, the sequence has %d elements %v", n, want, s.vals)
			return false
		}
	case 1, 2:
		var e *listz.SNode[int]
		at := 0
		if o == 1 {
			if !c.Guard("SList.Front", func() { e = l.Front() }) {
				return false
			}
		} else {
			at = want - 1
			if !c.Guard("SList.Back", func() { e = l.Back() }) {
				return false
			}
		}
		sig := "slist-front"
		if o == 2 {
			sig = "slist-back"
		}
		switch {
		case want == 0 && e != nil:
			c.Failf(sig, "%s() as the first observation after a run of unobserved operations is a node with value %d, the sequence is empty", sFirstName[o], e.Value)
			return false
		case want == 0:
		case e == nil:
			c.Failf(sig, "%s() as the first observation after a run of unobserved operations is nil, the sequence is %v", sFirstName[o], s.vals)
			return false
		case e.Value != s.vals[at] || (s.nodes[at] != nil && s.nodes[at] != e):
			c.Failf(sig, "%s() as the first observation after a run of unobserved operations is a node with value %d (the node put there earlier: %v), the sequence is %v", sFirstName[o], e.Value, s.nodes[at] == nil || s.nodes[at] == e, s.vals)
			return false
		}
	case 3, 4:
		var got []int
		if !c.Guard("SList."+sFirstName[o], func() {
			if o == 3 {
				l.All()(func(v int) bool {
					got = append(got, v)
					return len(got) <= limit
				})
			} else {
				for e := l.Front(); e != nil && len(got) <= limit; e = e.Next() {
					got = append(got, e.Value)
				}
			}
		}) {
			return false
		}
		if !eqInts(got, s.vals) {
			sig := "slist-all"
			if o == 4 {
				sig = "slist-chain"
			}
			c.Failf(sig, "%s as the first observation after a run of unobserved operations reads %v, the sequence is %v", sFirstName[o], got, s.vals)
			return false
		}
	case 5:
		i := want - 1
		if want > 0 && rng.Bool() {
			i = rng.Intn(want)
		}
		if rng.Chance(1, 8) {
			i = want
		}
		if probe >= 0 && want > 0 && rng.Chance(3, 4) {
			i = rng.Range(min(probe, want-1), want-1)
			if rng.Bool() {
				i = min(probe+rng.Intn(2), want-1)
			}
			c.Add("slist_window_first_get_at_or_behind_probe", 1)
		}
		var got *listz.SNode[int]
		if !c.Guard("SList.Get", func() { got = l.Get(i) }) {
			return false
		}
		c.Logf("    Get(%d) -> %s", i, snodeText(got))
		if !s.checkGet(i, got) {
			return false
		}
	}
	c.Add("slist_window_first/"+sFirstName[o], 1)
	return true
}

// windowOp: a mutator (Get is an observer and stays out of the window).
func (s *ssut) windowOp() sop {
	for {
		if op := s.randomOp(); op.code != sGet {
			return op
		}
	}
}

// slistWindow: runs of 2..12 unobserved operations on one SList.
func slistWindow(c *ev.Case) {
	rng := c.Rng
	want := c.Index < 64 && c.WantSample()
	s := newSsut(c, want)
	if rng.Bool() {
		if !s.check() {
			return
		}
	}
	rounds := rng.Pick(2, 4, 8, 16)
	for r := 0; r < rounds; r++ {
		n := rng.Range(2, 12)
		c.Logf("---- window of %d unobserved operations", n)
		s.window = true
		// at most one Get (its result is compared, nothing else is looked at) in front of the
		// window or somewhere inside it: the mutators run with the last Get somewhere in the
		// middle of the list instead of at its end, where the full comparison leaves it
		probe, probeAt := -1, -1
		if rng.Bool() {
			probeAt = rng.Intn(n)
			if rng.Bool() {
				probeAt = 0
			}
		}
		for i := 0; i < n; i++ {
			if i == probeAt && len(s.vals) > 0 {
				probe = rng.Intn(len(s.vals))
				if !s.apply(sop{code: sGet, i: probe}) {
					return
				}
				c.Add("slist_window_probe_gets", 1)
			}
			op := s.windowOp()
			switch {
			case probe < 0:
			case op.code == sRemoveFront, op.code == sPushFront, op.code == sPushFrontNode,
				(op.code == sRemove || op.code == sInsertAt || op.code == sInsertNodeAt) && op.i <= probe:
				c.Add("slist_window_shift_in_front_of_probe", 1)
			}
			if op.code == sRemove && s.inRange(op.i) && op.i == len(s.vals)-1 {
				c.Add("slist_window_remove_last", 1)
			}
			if !s.apply(op) {
				return
			}
		}
		s.window = false
		c.Add("slist_windows", 1)
		c.Add("slist_window_ops", int64(n))
		if !s.firstObserve(probe) || !s.check() {
			return
		}
		for i := rng.Intn(3); i > 0; i-- {
			if !s.apply(s.randomOp()) {
				return
			}
		}
	}
	if s.nontriv >= 2 {
		c.Distinct(ev.Mix(0x53, s.hash))
	}
	s.sample("window")
}
