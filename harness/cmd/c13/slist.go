package main

// SList monitor: the model is a plain slice of (node, value). After every
// operation Len, Front, Back, the Next-chain, All and Get over -2..len+2 must
// describe the same sequence.

import (
	"fmt"
	"math"
	"strings"

	"github.com/welllog/golib/listz"

	"verif/ev"
)

const (
	sPushFront = iota
	sPushBack
	sInsertAt
	sPushFrontNode
	sPushBackNode
	sInsertNodeAt
	sGet
	sRemove
	sRemoveFront
	sSwap
	sSetValue
	nSOps
)

var sopName = [...]string{"PushFront", "PushBack", "InsertAt", "PushFrontNode", "PushBackNode", "InsertNodeAt",
	"Get", "Remove", "RemoveFront", "Swap", "SetValue"}

type sop struct {
	code int
	i, j int
	v    int
	e    *listz.SNode[int] // node forms: a fresh or previously removed node
	eOld bool              // e was removed from the list earlier
}

type ssut struct {
	c     *ev.Case
	l     *listz.SList[int]
	nodes []*listz.SNode[int] // nil: created inside golib by a value form, adopted at the next traversal
	vals  []int
	spare []*listz.SNode[int] // nodes handed out by Remove/RemoveFront, available for re-insertion
	quiet bool
	// window: unobserved-operation window, only the mutators' own results are compared (windows.go);
	// sparse: a long list, Get is probed at the ends, the middle and around powers of two only (big.go)
	window, sparse bool
	// untouched: the list is a zero value (new(SList), never NewSingly) that no operation has
	// been applied to yet; unseen: and no observer (Len/Front/Back/All/Get) has looked at it either
	untouched, unseen bool
	// after Swap(i,j) golib may exchange the values (documented) or the nodes: both are the same sequence
	swapI, swapJ int
	swapped      bool
	hash         uint64
	nextVal      int
	keepText     bool
	text         []string
	nontriv      int
}

func newSsut(c *ev.Case, keepText bool) *ssut {
	s := &ssut{c: c, keepText: keepText || c.Logging(), nextVal: 100}
	if c.Rng.Bool() {
		s.l = new(listz.SList[int]) // zero value
		s.untouched, s.unseen = true, true
		c.Add("slist_zero_value_lists", 1)
	} else {
		if !c.Guard("NewSingly", func() { s.l = listz.NewSingly[int]() }) || s.l == nil {
			c.Failf("slist-new", "NewSingly returned nil")
			s.l = new(listz.SList[int])
		}
	}
	return s
}

func (s *ssut) val() int {
	if s.c.Rng.Chance(1, 4) {
		return s.c.Rng.Intn(4)
	}
	s.nextVal++
	return s.nextVal
}

func idxStr(i int) string {
	switch i {
	case math.MaxInt:
		return "MaxInt"
	case math.MaxInt - 1:
		return "MaxInt-1"
	case math.MinInt:
		return "MinInt"
	case math.MinInt + 1:
		return "MinInt+1"
	}
	return fmt.Sprint(i)
}

func (s *ssut) opText(op sop) string {
	n := sopName[op.code]
	switch op.code {
	case sPushFront, sPushBack:
		return fmt.Sprintf("%s(%d)", n, op.v)
	case sInsertAt:
		return fmt.Sprintf("InsertAt(%s, %d)", idxStr(op.i), op.v)
	case sPushFrontNode, sPushBackNode:
		return fmt.Sprintf("%s(%s)", n, s.nodeText(op))
	case sInsertNodeAt:
		return fmt.Sprintf("InsertNodeAt(%s, %s)", idxStr(op.i), s.nodeText(op))
	case sGet, sRemove:
		return fmt.Sprintf("%s(%s)", n, idxStr(op.i))
	case sSwap:
		return fmt.Sprintf("Swap(%s, %s)", idxStr(op.i), idxStr(op.j))
	case sSetValue:
		return fmt.Sprintf("Get(%d).Value = %d", op.i, op.v)
	}
	return n + "()"
}

func (s *ssut) nodeText(op sop) string {
	if op.e == nil {
		return "<nil>"
	}
	if op.eOld {
		return fmt.Sprintf("<previously removed node v=%d>", op.e.Value)
	}
	return fmt.Sprintf("<fresh node v=%d>", op.e.Value)
}

func (s *ssut) inRange(i int) bool { return i >= 0 && i < len(s.vals) }

func (s *ssut) insertModel(i int, e *listz.SNode[int], v int) {
	if i < 0 {
		i = 0
	}
	if i > len(s.vals) {
		i = len(s.vals)
	}
	s.nodes = append(s.nodes, nil)
	copy(s.nodes[i+1:], s.nodes[i:])
	s.nodes[i] = e
	s.vals = append(s.vals, 0)
	copy(s.vals[i+1:], s.vals[i:])
	s.vals[i] = v
}

func (s *ssut) removeModel(i int) (*listz.SNode[int], int) {
	e, v := s.nodes[i], s.vals[i]
	s.nodes = append(s.nodes[:i], s.nodes[i+1:]...)
	s.vals = append(s.vals[:i], s.vals[i+1:]...)
	return e, v
}

// index classes relative to the length of the list at the time of the call
const (
	iNegative = iota
	iEqLen
	iGtLen
	iOnly
	iFirst
	iLast
	iMiddle
	iExtreme // math.MinInt, MinInt+1, MaxInt-1, MaxInt (counted in addition to negative / gt_len)
	nIdxClasses
)

var idxClassName = [...]string{"negative", "eq_len", "gt_len", "only_element", "first", "last", "middle", "extreme"}

// the index-taking operations: Swap counts its two arguments separately
var idxOpName = [...]string{"InsertAt", "InsertNodeAt", "Get", "Remove", "Swap-i", "Swap-j"}

const (
	xInsertAt = iota
	xInsertNodeAt
	xGet
	xRemove
	xSwapI
	xSwapJ
	nIdxOps
)

// sidxName[op][class] = "slist_idx/<Op>/<class>" (floors in main.go: every index-based
// operation of the statement really meets every class of index)
var sidxName = func() (t [nIdxOps][nIdxClasses]string) {
	for o := range t {
		for a := range t[o] {
			t[o][a] = "slist_idx/" + idxOpName[o] + "/" + idxClassName[a]
		}
	}
	return
}()

func (s *ssut) classify(x, i int) {
	c := s.c
	n := len(s.vals)
	var a int
	switch {
	case i < 0:
		a = iNegative
	case i == n:
		a = iEqLen
	case i > n:
		a = iGtLen
	case i == 0 && n == 1:
		a = iOnly
	case i == 0:
		a = iFirst
	case i == n-1:
		a = iLast
	default:
		a = iMiddle
	}
	c.Add("slist_index_"+idxClassName[a], 1)
	c.Add(sidxName[x][a], 1)
	if i <= math.MinInt+1 || i >= math.MaxInt-1 {
		c.Add(sidxName[x][iExtreme], 1)
	}
}

func (s *ssut) apply(op sop) bool {
	c := s.c
	l := s.l
	name := "SList." + sopName[op.code]
	s.hash = ev.Mix(s.hash, uint64(op.code), uint64(op.i), uint64(op.j), uint64(op.v), b2u(op.eOld))
	var txt string
	if s.keepText {
		txt = s.opText(op)
		s.text = append(s.text, txt)
	}
	if !s.quiet {
		c.Add("slist_ops", 1)
		c.Add("slist_op/"+sopName[op.code], 1)
	}
	if s.untouched && op.code != sSetValue {
		c.Add("slist_zero_value_first_op/"+sopName[op.code], 1)
		if s.unseen {
			c.Add("slist_unobserved_zero_value_first_op/"+sopName[op.code], 1)
		}
		s.untouched = false
	}
	res := ""
	switch op.code {
	case sPushFront, sPushBack:
		if !c.Guard(name, func() {
			if op.code == sPushFront {
				l.PushFront(op.v)
			} else {
				l.PushBack(op.v)
			}
		}) {
			return false
		}
		if op.code == sPushFront {
			s.insertModel(0, nil, op.v)
		} else {
			s.insertModel(len(s.vals), nil, op.v)
		}
	case sInsertAt:
		if !s.quiet {
			s.classify(xInsertAt, op.i)
		}
		if !c.Guard(name, func() { l.InsertAt(op.i, op.v) }) {
			return false
		}
		s.insertModel(op.i, nil, op.v) // documented: i <= 0 is the front, i >= len the back
		s.nontriv++
	case sPushFrontNode, sPushBackNode, sInsertNodeAt:
		if op.e == nil {
			c.Run().HarnessFailure("generator produced a nil node")
			return false
		}
		if op.eOld {
			c.Add("slist_node_reinserted_after_removal", 1)
			c.Add("slist_node_reinserted_after_removal/"+sopName[op.code], 1)
		}
		v := op.e.Value
		if op.code == sInsertNodeAt && !s.quiet {
			s.classify(xInsertNodeAt, op.i)
		}
		if !c.Guard(name, func() {
			switch op.code {
			case sPushFrontNode:
				l.PushFrontNode(op.e)
			case sPushBackNode:
				l.PushBackNode(op.e)
			default:
				l.InsertNodeAt(op.i, op.e)
			}
		}) {
			return false
		}
		switch op.code {
		case sPushFrontNode:
			s.insertModel(0, op.e, v)
		case sPushBackNode:
			s.insertModel(len(s.vals), op.e, v)
		default:
			s.insertModel(op.i, op.e, v)
		}
		s.nontriv++
	case sGet:
		if !s.quiet {
			s.classify(xGet, op.i)
		}
		var got *listz.SNode[int]
		if !c.Guard(name, func() { got = l.Get(op.i) }) {
			return false
		}
		s.unseen = false
		if s.keepText {
			res = " -> " + snodeText(got)
		}
		if !s.checkGet(op.i, got) {
			c.Logf("%s%s", txt, res)
			return false
		}
	case sRemove:
		if !s.quiet {
			s.classify(xRemove, op.i)
		}
		var got *listz.SNode[int]
		if !c.Guard(name, func() { got = l.Remove(op.i) }) {
			return false
		}
		if s.keepText {
			res = " -> " + snodeText(got)
		}
		c.Logf("%s%s", txt, res)
		txt = ""
		if !s.inRange(op.i) {
			if got != nil {
				c.Failf("slist-remove-result", "Remove(%s) on a list of %d returned a node (value %d); the index is out of range", idxStr(op.i), len(s.vals), got.Value)
				return false
			}
			c.Add("slist_remove_rejected", 1)
		} else {
			we, wv := s.removeModel(op.i)
			if got == nil {
				c.Failf("slist-remove-result", "Remove(%d) on a list of %d returned nil; expected the node with value %d", op.i, len(s.vals)+1, wv)
				return false
			}
			if (we != nil && got != we) || got.Value != wv {
				c.Failf("slist-remove-result", "Remove(%d) returned node with value %d (same node as Get(%d) before: %v); the sequence had value %d there", op.i, got.Value, op.i, we == nil || got == we, wv)
				return false
			}
			s.spare = append(s.spare, got)
			c.Add("slist_remove_effective", 1)
			s.nontriv++
		}
	case sRemoveFront:
		var got *listz.SNode[int]
		if !c.Guard(name, func() { got = l.RemoveFront() }) {
			return false
		}
		if s.keepText {
			res = " -> " + snodeText(got)
		}
		c.Logf("%s%s", txt, res)
		txt = ""
		if len(s.vals) == 0 {
			if got != nil {
				c.Failf("slist-removefront-result", "RemoveFront() on an empty list returned a node (value %d)", got.Value)
				return false
			}
			c.Add("slist_removefront_empty", 1)
		} else {
			if len(s.vals) == 1 {
				c.Add("slist_removefront_last_element", 1)
			}
			we, wv := s.removeModel(0)
			if got == nil {
				c.Failf("slist-removefront-result", "RemoveFront() on a list of %d returned nil", len(s.vals)+1)
				return false
			}
			if (we != nil && got != we) || got.Value != wv {
				c.Failf("slist-removefront-result", "RemoveFront() returned node with value %d (the former Front node: %v); the sequence started with %d", got.Value, we == nil || got == we, wv)
				return false
			}
			s.spare = append(s.spare, got)
			s.nontriv++
		}
	case sSwap:
		if !s.quiet {
			s.classify(xSwapI, op.i)
			s.classify(xSwapJ, op.j)
		}
		if !c.Guard(name, func() { l.Swap(op.i, op.j) }) {
			return false
		}
		if s.inRange(op.i) && s.inRange(op.j) {
			if op.i != op.j {
				s.vals[op.i], s.vals[op.j] = s.vals[op.j], s.vals[op.i]
				s.swapI, s.swapJ, s.swapped = op.i, op.j, true
				c.Add("slist_swap_effective", 1)
				s.nontriv++
			} else {
				c.Add("slist_swap_same_index", 1)
			}
		} else {
			c.Add("slist_swap_rejected", 1)
			switch {
			case s.inRange(op.j):
				c.Add("slist_swap_rejected/only-first-index-out-of-range", 1)
			case s.inRange(op.i):
				c.Add("slist_swap_rejected/only-second-index-out-of-range", 1)
			default:
				c.Add("slist_swap_rejected/both-indices-out-of-range", 1)
			}
		}
	case sSetValue:
		if !s.inRange(op.i) || s.nodes[op.i] == nil {
			return true
		}
		s.nodes[op.i].Value = op.v // through a handle obtained earlier
		s.vals[op.i] = op.v
		c.Add("slist_value_set_through_handle", 1)
	}
	if txt != "" {
		c.Logf("%s%s", txt, res)
	}
	if s.window {
		if s.swapped {
			// Swap may exchange values or nodes; without a traversal right behind it the harness
			// cannot tell which, so the identity of the two positions is learnt again later
			s.nodes[s.swapI], s.nodes[s.swapJ] = nil, nil
			s.swapped = false
		}
		return !c.Failed()
	}
	if s.quiet {
		s.swapped = false
		return !c.Failed()
	}
	ok := s.check()
	if c.Logging() {
		c.Logf("    model: %v", s.vals)
	}
	return ok
}

func snodeText(n *listz.SNode[int]) string {
	if n == nil {
		return "nil"
	}
	return fmt.Sprintf("node(v=%d)", n.Value)
}

func (s *ssut) checkGet(i int, got *listz.SNode[int]) bool {
	c := s.c
	if !s.inRange(i) {
		if got != nil {
			c.Failf("slist-get", "Get(%s) on a list of %d returned a node (value %d); the index is out of range", idxStr(i), len(s.vals), got.Value)
			return false
		}
		return true
	}
	if got == nil {
		c.Failf("slist-get", "Get(%d) on a list of %d returned nil; the sequence is %v", i, len(s.vals), s.vals)
		return false
	}
	if got.Value != s.vals[i] {
		c.Failf("slist-get", "Get(%d) has value %d; the sequence is %v", i, got.Value, s.vals)
		return false
	}
	if s.nodes[i] != nil && s.nodes[i] != got {
		c.Failf("slist-node-identity", "Get(%d) returned a different node than the one at that position in the last Next-traversal (sequence %v)", i, s.vals)
		return false
	}
	return true
}

func snodeVals(ns []*listz.SNode[int]) []int {
	out := make([]int, 0, len(ns))
	for _, n := range ns {
		if n == nil {
			out = append(out, -1<<31)
		} else {
			out = append(out, n.Value)
		}
	}
	return out
}

// check compares Len, Front, Back, the Next-chain, All and Get with the model.
func (s *ssut) check() bool {
	c := s.c
	l := s.l
	want := len(s.vals)
	defer func() { s.swapped = false }()
	if s.untouched {
		c.Add("slist_untouched_zero_value_observed", 1)
	}
	s.unseen = false
	var n int
	if !c.Guard("SList.Len", func() { n = l.Len() }) {
		return false
	}
	if n != want {
		c.Failf("slist-len", "Len() = %d, the sequence has %d elements %v", n, want, s.vals)
		return false
	}
	var front, back *listz.SNode[int]
	if !c.Guard("SList.Front/Back", func() { front, back = l.Front(), l.Back() }) {
		return false
	}
	limit := want + 3
	var chain []*listz.SNode[int]
	if !c.Guard("SNode.Next", func() {
		for e := front; e != nil; e = e.Next() {
			chain = append(chain, e)
			if len(chain) > limit {
				break
			}
		}
	}) {
		return false
	}
	if want == 0 {
		c.Add("slist_checked_empty", 1)
		if front != nil {
			c.Failf("slist-front", "the list is empty (Len 0) but Front() is a node with value %d", front.Value)
			return false
		}
		if back != nil {
			c.Failf("slist-back", "the list is empty (Len 0) but Back() is a node with value %d", back.Value)
			return false
		}
	}
	if len(chain) != want {
		c.Failf("slist-chain", "Front/Next traversal visits %d nodes %v, Len() is %d and the sequence is %v", len(chain), snodeVals(chain), n, s.vals)
		return false
	}
	if want > 0 {
		if back != chain[want-1] {
			bv := "nil"
			if back != nil {
				bv = fmt.Sprintf("a node with value %d", back.Value)
			}
			c.Failf("slist-back", "Back() is %s, but the last node reached by Front/Next is the one with value %d (sequence %v)", bv, chain[want-1].Value, s.vals)
			return false
		}
	}
	for i, e := range chain {
		if e.Value != s.vals[i] {
			c.Failf("slist-value", "Front/Next traversal reads %v, the sequence is %v", snodeVals(chain), s.vals)
			return false
		}
	}
	if s.swapped && s.nodes[s.swapI] != nil && s.nodes[s.swapJ] != nil &&
		chain[s.swapI] == s.nodes[s.swapJ] && chain[s.swapJ] == s.nodes[s.swapI] && s.swapI != s.swapJ {
		s.nodes[s.swapI], s.nodes[s.swapJ] = s.nodes[s.swapJ], s.nodes[s.swapI]
	}
	for i, e := range chain {
		if s.nodes[i] == nil {
			s.nodes[i] = e
		} else if s.nodes[i] != e {
			c.Failf("slist-node-identity", "position %d of the Front/Next traversal is not the node that the earlier operations put there (values agree: %v)", i, s.vals)
			return false
		}
	}
	var all []int
	if !c.Guard("SList.All", func() {
		// the iterator is called directly (not through range) so that an iterator that
		// goes on after yield returned false is counted instead of tripping the runtime check
		l.All()(func(v int) bool {
			all = append(all, v)
			return len(all) <= limit
		})
	}) {
		return false
	}
	bad := len(all) != want
	for i := 0; !bad && i < want; i++ {
		bad = all[i] != s.vals[i]
	}
	if bad {
		c.Failf("slist-all", "All() yields %v, the sequence is %v", all, s.vals)
		return false
	}
	if want > 0 && c.Rng.Chance(1, 4) {
		stop := 1 + c.Rng.Intn(want)
		calls := 0
		if !c.Guard("SList.All-break", func() {
			l.All()(func(int) bool {
				calls++
				return calls < stop
			})
		}) {
			return false
		}
		if calls != stop {
			c.Failf("slist-all-stop", "All() whose yield returned false at element %d called yield %d times", stop, calls)
			return false
		}
		c.Add("slist_all_early_break", 1)
	}
	gets := 0
	for i := -2; i <= want+2; i++ {
		if s.sparse && !probeIndex(i, want) {
			continue
		}
		var got *listz.SNode[int]
		if !c.Guard("SList.Get", func() { got = l.Get(i) }) {
			return false
		}
		if !s.checkGet(i, got) {
			return false
		}
		gets++
	}
	c.Add("slist_gets_compared", int64(gets))
	c.Add("slist_traversals_compared", 2)
	c.Max("slist_max_len", int64(want))
	return true
}

// ---- generators ----

func (s *ssut) index() int {
	rng := s.c.Rng
	n := len(s.vals)
	switch rng.Intn(12) {
	case 0:
		return -1
	case 1:
		return n
	case 2:
		return n + 1
	case 3, 4:
		return 0
	case 5, 6:
		return n - 1
	case 7:
		return rng.Pick(-2, n+2, math.MinInt, math.MaxInt, math.MinInt+1, math.MaxInt-1)
	}
	return rng.Intn(n)
}

func (s *ssut) node() (*listz.SNode[int], bool) {
	rng := s.c.Rng
	if len(s.spare) > 0 && rng.Chance(3, 5) {
		i := rng.Intn(len(s.spare))
		e := s.spare[i]
		s.spare = append(s.spare[:i], s.spare[i+1:]...)
		return e, true
	}
	return &listz.SNode[int]{Value: s.val()}, false
}

var wSMix = [nSOps]int{6, 6, 12, 5, 7, 12, 4, 18, 6, 10, 3}

func (s *ssut) randomOp() sop {
	rng := s.c.Rng
	tot := 0
	for _, x := range wSMix {
		tot += x
	}
	var code int
	for {
		p := rng.Intn(tot)
		for code = 0; code < nSOps; code++ {
			if p < wSMix[code] {
				break
			}
			p -= wSMix[code]
		}
		if len(s.vals) > 9 && code <= sInsertNodeAt && rng.Chance(3, 4) {
			continue
		}
		break
	}
	op := sop{code: code}
	switch code {
	case sPushFront, sPushBack:
		op.v = s.val()
	case sInsertAt:
		op.i, op.v = s.index(), s.val()
	case sPushFrontNode, sPushBackNode:
		op.e, op.eOld = s.node()
	case sInsertNodeAt:
		op.i = s.index()
		op.e, op.eOld = s.node()
	case sGet, sRemove:
		op.i = s.index()
	case sSwap:
		op.i, op.j = s.index(), s.index()
	case sSetValue:
		op.i, op.v = rng.Intn(len(s.vals)), s.val()
	}
	return op
}

func (s *ssut) sample(kind string) {
	c := s.c
	if s.keepText && c.WantSample() {
		t := s.text
		more := ""
		if len(t) > 16 {
			more = fmt.Sprintf(" ... (+%d more operations)", len(t)-16)
			t = t[:16]
		}
		c.Sample(fmt.Sprintf("%s: %s%s; final sequence %v", kind, strings.Join(t, "; "), more, s.vals))
	}
}

// slistMix: random operation sequences with boundary-heavy indices.
func slistMix(c *ev.Case) {
	want := c.Index < 64 && c.WantSample()
	s := newSsut(c, want)
	if !s.check() { // the zero value is observable before any operation
		return
	}
	nops := c.Rng.Pick(8, 20, 40, 80, 160)
	for i := 0; i < nops; i++ {
		if !s.apply(s.randomOp()) {
			return
		}
	}
	if s.nontriv >= 2 {
		c.Distinct(s.hash)
	}
	s.sample("mix")
}

// slistEnds: for one small size n (0..6) and one way of building the list, every
// index-based operation is tried at every index in -2..n+2 and at the extreme ints
// (Swap: every pair), each on a freshly built list and followed by operations that
// depend on head/tail being right (PushBack, RemoveFront, Remove(last), re-insertion
// of the removed node at the back).
func slistEnds(c *ev.Case) {
	rng := c.Rng
	n := rng.Range(0, 6)
	style := rng.Intn(5)
	want := c.WantSample()
	builds := 0
	var caseHash uint64
	var last *ssut
	build := func() *ssut {
		s := &ssut{c: c, keepText: want || c.Logging(), nextVal: 100, l: new(listz.SList[int]), untouched: true, unseen: true}
		c.Logf("---- new fixture: %d nodes, build style %d", n, style)
		s.quiet = true
		ok := true
		switch style {
		case 0:
			for i := 0; ok && i < n; i++ {
				ok = s.apply(sop{code: sPushBack, v: 10 + i})
			}
		case 1:
			for i := 0; ok && i < n; i++ {
				ok = s.apply(sop{code: sPushFront, v: 10 + i})
			}
		case 2:
			for i := 0; ok && i < n; i++ {
				ok = s.apply(sop{code: sInsertAt, i: (i * 7) % (i + 1), v: 10 + i})
			}
		case 3:
			for i := 0; ok && i < n; i++ {
				ok = s.apply(sop{code: sPushBackNode, e: &listz.SNode[int]{Value: 10 + i}})
			}
		default: // longer list cut down at both ends and in the middle
			for i := 0; ok && i < n+3; i++ {
				ok = s.apply(sop{code: sPushBack, v: 10 + i})
			}
			ok = ok && s.apply(sop{code: sRemove, i: n + 2}) && s.apply(sop{code: sRemove, i: 0}) && s.apply(sop{code: sRemove, i: n / 2})
		}
		if !ok {
			return nil
		}
		s.quiet = false
		s.text = s.text[:0]
		builds++
		last = s
		return s
	}
	follow := func(s *ssut) bool {
		// the removed node (if any) goes back in through the path that trusts its next pointer
		if len(s.spare) > 0 && rng.Bool() {
			e := s.spare[len(s.spare)-1]
			s.spare = s.spare[:len(s.spare)-1]
			code := rng.Pick(sPushBackNode, sInsertNodeAt, sPushFrontNode)
			if !s.apply(sop{code: code, i: len(s.vals) + rng.Intn(2), e: e, eOld: true}) {
				return false
			}
		}
		for _, code := range []int{sPushBack, sRemoveFront} {
			if !s.apply(sop{code: code, v: 90}) {
				return false
			}
		}
		if !s.apply(sop{code: sRemove, i: len(s.vals) - 1}) || !s.apply(sop{code: sPushBack, v: 91}) {
			return false
		}
		for i := 0; i < 2; i++ {
			if !s.apply(s.randomOp()) {
				return false
			}
		}
		caseHash = ev.Mix(caseHash, s.hash)
		return true
	}
	idx := []int{math.MinInt, math.MaxInt}
	for i := -2; i <= n+2; i++ {
		idx = append(idx, i)
	}
	run := func(op sop) bool {
		s := build()
		if s == nil {
			return false
		}
		if op.code == sInsertNodeAt && op.eOld {
			// obtain a removed node first
			if !s.apply(sop{code: sPushBack, v: 55}) || !s.apply(sop{code: sRemove, i: len(s.vals) - 1}) || len(s.spare) == 0 {
				return false
			}
			op.e = s.spare[len(s.spare)-1]
			s.spare = s.spare[:len(s.spare)-1]
		} else if op.code == sInsertNodeAt {
			op.e = &listz.SNode[int]{Value: 66}
		}
		if !s.check() {
			return false
		}
		return s.apply(op) && follow(s)
	}
	for _, i := range idx {
		for _, op := range []sop{{code: sGet, i: i}, {code: sRemove, i: i}, {code: sInsertAt, i: i, v: 77},
			{code: sInsertNodeAt, i: i}, {code: sInsertNodeAt, i: i, eOld: true}} {
			if !run(op) {
				return
			}
		}
		for _, j := range idx {
			if !run(sop{code: sSwap, i: i, j: j}) {
				return
			}
		}
	}
	for _, code := range []int{sRemoveFront, sPushFront, sPushBack, sPushFrontNode, sPushBackNode} {
		op := sop{code: code, v: 77}
		if code == sPushFrontNode || code == sPushBackNode {
			op.e = &listz.SNode[int]{Value: 66}
		}
		if !run(op) {
			return
		}
	}
	// drain completely from the front and from the back, then refill
	for _, fromBack := range []bool{false, true} {
		s := build()
		if s == nil {
			return
		}
		for len(s.vals) > 0 {
			op := sop{code: sRemoveFront}
			if fromBack {
				op = sop{code: sRemove, i: len(s.vals) - 1}
			}
			if !s.apply(op) {
				return
			}
		}
		c.Add("slist_drained_to_empty", 1)
		if !follow(s) {
			return
		}
	}
	c.Add("slist_ends_fixtures", int64(builds))
	c.Add(fmt.Sprintf("slist_ends_size_%d", n), 1)
	c.Distinct(ev.Mix(0x51, uint64(n), uint64(style), caseHash))
	if want && last != nil {
		c.Sample(fmt.Sprintf("ends: size %d, build style %d: %d fixtures = Get/Remove/InsertAt/InsertNodeAt at every index in {MinInt,-2..%d,MaxInt}, Swap at every pair, front/back operations, drain to empty; each followed by PushBack/RemoveFront/Remove(last)/PushBack and 2 random operations; last fixture: %s", n, style, builds, n+2, strings.Join(last.text, "; ")))
	}
}
