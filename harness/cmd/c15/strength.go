package main

// strength.go — workloads whose *history* contains the situations listed in
// harness/LESSONS.md; the oracle is the one of the other files (the standard
// library's answer for the same input), nothing is added to it.
//
//	history     (one case at a time, so nothing interrupts a sequence) 40-70 calls on
//	            one goroutine; each call either starts afresh or differs from the
//	            previous one in exactly one ingredient (same call again, one content
//	            byte, the length, string<->[]byte, algorithm / encoding / key / base /
//	            bit size / reader); []byte arguments live in a caller buffer that is
//	            reused for the next call and scribbled on in between (a third of them
//	            with the rest of that buffer as spare capacity); every returned
//	            slice and string is KEPT and compared again with the standard library's
//	            answer after later calls; returned slices are scribbled on by the
//	            caller and the same call is made again; stream helpers are fed a
//	            reader that fails, fails together with data, or panics, and then a
//	            healthy reader
//	big         hex / base64 / digests / HMAC / streams on inputs of 2^k-1, 2^k, 2^k+1
//	            bytes up to 1 MiB (4 MiB thorough) with the invalid character far
//	            behind any plausible fast-path threshold; ParseUint on strings of
//	            hundreds to 65536 characters (zero runs, underscore chains, overflow
//	            at the very end)
//	cold-start  one fresh process per case whose FIRST golib call is one chosen
//	            routine in one chosen form (HexDecodeInPlace before any HexDecode, a
//	            decode before any encode, a stream before any one-shot digest, ...)

import (
	"bytes"
	"crypto/hmac"
	"encoding/hex"
	"errors"
	"fmt"
	"hash"
	"io"
	"strconv"
	"strings"

	"github.com/welllog/golib/hashz"
	"github.com/welllog/golib/strz"

	"verif/ev"
)

// ---------------------------------------------------------------- readers ----

// readerPanic is the value the panicking reader panics with; only this value is
// swallowed by the harness.
type readerPanic struct{}

// faultReader delivers data in chunks of k and then misbehaves:
//
//	kind 0: returns (0, error)
//	kind 1: returns the last chunk together with a non-EOF error
//	kind 2: panics
type faultReader struct {
	data []byte
	k    int
	kind int
}

var errInjected = errors.New("injected read fault")

func (r *faultReader) Read(p []byte) (int, error) {
	n := r.k
	if n > len(r.data) {
		n = len(r.data)
	}
	if n > len(p) {
		n = len(p)
	}
	copy(p, r.data[:n])
	r.data = r.data[n:]
	if len(r.data) == 0 {
		switch r.kind {
		case 1:
			return n, errInjected
		case 2:
			if n == 0 {
				panic(readerPanic{})
			}
		default:
			if n == 0 {
				return 0, errInjected
			}
		}
	}
	return n, nil
}

// plainHash hides every optional interface (encoding.BinaryMarshaler, ...) of
// the wrapped hash.
type plainHash struct{ hash.Hash }

type hmacHash struct {
	name string
	newH func() hash.Hash
}

var hmacHashes = func() []hmacHash {
	var hs []hmacHash
	for _, d := range digests {
		hs = append(hs, hmacHash{d.name, d.newH})
	}
	sha256New, sha512New := digests[3].newH, digests[5].newH
	hs = append(hs,
		hmacHash{"Sha256 behind a plain hash.Hash", func() hash.Hash { return plainHash{sha256New()} }},
		hmacHash{"Sha512 behind a plain hash.Hash", func() hash.Hash { return plainHash{sha512New()} }},
	)
	return hs
}()

var streamDigests = func() []digestFn {
	var ds []digestFn
	for _, d := range digests {
		if d.stream != nil {
			ds = append(ds, d)
		}
	}
	return ds
}()

// ---------------------------------------------------------------- history ----

type famID int

const (
	fHexEnc famID = iota
	fHexDec
	fB64Enc
	fB64Dec
	fDigest
	fHmac
	fStream
	fParse
	fIPv4
	nFam
)

var famNames = [...]string{"HexEncode", "HexDecode", "Base64Encode", "Base64Decode", "digest", "Hmac", "stream", "ParseUint", "IPv4"}

// hstate is one call: routine family, arguments and the form it is made in.
type hstate struct {
	fam       famID
	content   []byte // data / text to decode / digits
	key       []byte // Hmac
	alg       int    // digests / streamDigests / hmacHashes
	enc       int    // b64Encs
	base      int
	bits      int
	x         uint32 // IPv4
	form      int    // instantiation: bit 0 = data is []byte; further bits by family
	reader    int    // stream: kind of the healthy reader (0..8)
	keyIsData bool   // Hmac: the very same slice is passed as key and as data (one call only)
	fault     int    // stream: 0 none, 1..3 a faulty stream precedes the healthy one
	place     int    // []byte arguments: 0 fresh copy, 1 caller buffer offset 0, 2 caller buffer random offset, 3 front part buf[off:off+n] of the caller buffer with the rest of it as spare capacity
}

type keptRes struct {
	step  int
	what  string
	b     []byte
	s     string
	isStr bool
	want  string
	dead  bool // the caller scribbled on it
}

func (k *keptRes) now() string {
	if k.isStr {
		return k.s
	}
	return string(k.b)
}

type hist struct {
	c      *ev.Case
	rng    *ev.Rand
	st     hstate
	rel    string
	step   int
	arena  []byte
	karena []byte
	kept   []*keptRes
	last   *keptRes // result of the call just made (nil if it returned no slice/string)
	lastIn []byte   // caller-buffer region the last []byte argument lived in
	hash   uint64
	first  string
}

func newHist(c *ev.Case) *hist {
	h := &hist{c: c, rng: c.Rng}
	h.arena = make([]byte, 1024)
	h.karena = make([]byte, 512)
	for i := range h.arena {
		h.arena[i] = 0xA5
	}
	for i := range h.karena {
		h.karena[i] = 0x5A
	}
	return h
}

func (h *hist) rawContent() []byte {
	rng := h.rng
	n := rng.Pick(0, 1, 2, 3, 5, 16, 20, 31, 32, 33, 55, 56, 63, 64, 65, 100, 127, 128, 129, 200)
	if rng.Bool() {
		n = rng.Range(0, 48)
	}
	b := rng.Bytes(n)
	if n == 0 && rng.Bool() {
		return nil
	}
	return b
}

const nReaders = 9

const b64Common = "ABCDEFGHIJKLMNOPQRSTUVWXYZabcdefghijklmnopqrstuvwxyz0123456789"

// fresh starts an unrelated call.
func (h *hist) fresh(fam famID) {
	rng := h.rng
	st := &h.st
	st.fam = fam
	st.keyIsData = false
	st.form = rng.Intn(8)
	st.place = rng.Pick(0, 1, 1, 2, 3, 3)
	st.reader = rng.Intn(nReaders)
	st.fault = rng.Pick(0, 0, 0, 1, 2, 3)
	st.enc = rng.Intn(len(b64Encs))
	if rng.Chance(2, 3) {
		st.enc = rng.Intn(4)
	}
	switch fam {
	case fHexEnc, fB64Enc:
		st.content = h.rawContent()
	case fDigest:
		st.content = h.rawContent()
		st.alg = rng.Intn(len(digests))
	case fStream:
		st.content = h.rawContent()
		st.alg = rng.Intn(len(streamDigests))
	case fHmac:
		st.content = h.rawContent()
		st.alg = rng.Intn(len(hmacHashes))
		if rng.Chance(3, 4) {
			st.alg = rng.Intn(len(digests))
		}
		kl := rng.Pick(0, 1, 16, 32, 63, 64, 65, 127, 128, 129, 200)
		if rng.Bool() {
			kl = rng.Range(0, 40)
		}
		st.key = rng.Bytes(kl)
	case fHexDec:
		m := rng.Range(0, 40)
		if rng.Chance(1, 8) {
			m = rng.Range(41, 300)
		}
		st.content = randHexString(rng, m)
		if m > 0 && rng.Chance(1, 4) {
			st.content[rng.Intn(m)] = hexBadChars[rng.Intn(len(hexBadChars))]
		}
	case fB64Dec:
		st.content = []byte(b64Encs[st.enc].enc.EncodeToString(h.rawContent()))
		if len(st.content) > 0 && rng.Chance(1, 4) {
			switch rng.Intn(3) {
			case 0:
				st.content[rng.Intn(len(st.content))] = b64Junk[rng.Intn(len(b64Junk))]
			case 1:
				st.content = st.content[:len(st.content)-1]
			default:
				st.content = append(st.content, '=')
			}
		}
	case fParse:
		s, base, bits := genParse(rng)
		st.content, st.base, st.bits = []byte(s), base, bits
	case fIPv4:
		st.x = uint32(rng.Uint64())
	}
}

// vary changes exactly one ingredient of the previous call and says which.
func (h *hist) vary() string {
	rng := h.rng
	st := &h.st
	for try := 0; try < 8; try++ {
		switch rng.Intn(6) {
		case 0:
			return "same-call-again"
		case 1: // one byte of the content, same length
			if st.fam == fIPv4 {
				st.x ^= uint32(1+rng.Intn(255)) << (8 * uint(rng.Intn(4)))
				return "one-octet"
			}
			if len(st.content) == 0 {
				continue
			}
			c2 := append([]byte(nil), st.content...)
			p := rng.Intn(len(c2))
			old := c2[p]
			for c2[p] == old {
				switch st.fam {
				case fHexDec:
					c2[p] = "0123456789abcdefABCDEF"[rng.Intn(22)]
					if rng.Chance(1, 8) {
						c2[p] = hexBadChars[rng.Intn(len(hexBadChars))]
					}
				case fB64Dec:
					c2[p] = b64Common[rng.Intn(len(b64Common))]
				case fParse:
					c2[p] = "0123456789abcdefz_"[rng.Intn(18)]
				default:
					c2[p] = old ^ byte(1<<uint(rng.Intn(8)))
				}
			}
			st.content = c2
			return "one-content-byte"
		case 2: // length
			if st.fam == fIPv4 {
				continue
			}
			c2 := append([]byte(nil), st.content...)
			if len(c2) > 0 && rng.Bool() {
				c2 = c2[:len(c2)-rng.Range(1, min(len(c2), 2))]
			} else {
				add := rng.Range(1, 2)
				for i := 0; i < add; i++ {
					switch st.fam {
					case fHexDec:
						c2 = append(c2, "0123456789abcdefABCDEF"[rng.Intn(22)])
					case fB64Dec:
						c2 = append(c2, b64Common[rng.Intn(len(b64Common))])
					case fParse:
						c2 = append(c2, "0123456789"[rng.Intn(10)])
					default:
						c2 = append(c2, byte(rng.Uint64()))
					}
				}
			}
			st.content = c2
			return "content-length"
		case 3: // string <-> []byte, ToString <-> slice result
			if st.fam == fIPv4 || st.fam == fStream {
				continue
			}
			st.form ^= 1 << uint(rng.Intn(3))
			return "form"
		case 4: // the second ingredient
			switch st.fam {
			case fDigest:
				st.alg = (st.alg + 1 + rng.Intn(len(digests)-1)) % len(digests)
				return "algorithm"
			case fStream:
				if rng.Bool() {
					st.alg = (st.alg + 1 + rng.Intn(len(streamDigests)-1)) % len(streamDigests)
					return "algorithm"
				}
				if rng.Chance(1, 3) {
					st.fault = (st.fault + 1 + rng.Intn(3)) % 4
					return "reader-fault"
				}
				st.reader = (st.reader + 1 + rng.Intn(nReaders-1)) % nReaders
				return "reader"
			case fHmac:
				if rng.Bool() {
					st.alg = (st.alg + 1 + rng.Intn(len(hmacHashes)-1)) % len(hmacHashes)
					return "hmac-hash-same-key"
				}
				if rng.Chance(1, 4) {
					// one slice passed as both parameters
					st.key = append([]byte(nil), st.content...)
					st.form |= 5
					st.keyIsData = true
					return "hmac-key-is-data-slice"
				}
				k2 := append([]byte(nil), st.key...)
				switch {
				case len(k2) > 0 && rng.Chance(2, 3):
					k2[rng.Intn(len(k2))] ^= byte(1 << uint(rng.Intn(8)))
				case len(k2) > 0 && rng.Bool():
					k2 = k2[:len(k2)-1]
				default:
					k2 = append(k2, byte(rng.Uint64()))
				}
				st.key = k2
				return "hmac-key-same-data"
			case fB64Enc, fB64Dec:
				st.enc = (st.enc + 1 + rng.Intn(len(b64Encs)-1)) % len(b64Encs)
				return "encoding"
			case fParse:
				if rng.Bool() {
					st.base = pickBase(rng)
					return "base"
				}
				st.bits = pickBits(rng)
				return "bit-size"
			default:
				continue
			}
		default: // where the []byte argument lives
			if st.fam == fIPv4 {
				continue
			}
			st.place = (st.place + 1 + rng.Intn(3)) % 4
			st.form |= 1
			return "argument-buffer"
		}
	}
	return "same-call-again"
}

func (h *hist) placeIn(arena, content []byte, mode int) (arg []byte, region []byte) {
	n := len(content)
	switch {
	case mode == 0 || n > len(arena)/2:
		if content == nil {
			return nil, nil
		}
		return append(make([]byte, 0, n), content...), nil
	case mode == 1:
		copy(arena, content)
		return arena[0:n:n], arena[0:n]
	case mode == 3:
		// buf[off:off+n] as a program gets it from a read into a big buffer: the
		// capacity reaches to the end of the caller's buffer (at least half of
		// it), and all of it is the caller's to reuse afterwards
		off := h.rng.Intn(len(arena)/2 - n + 1)
		copy(arena[off:], content)
		h.c.Add("history_arg_with_spare_capacity", 1)
		return arena[off : off+n], arena[off:]
	default:
		off := h.rng.Intn(len(arena) - n + 1) // also flush with the end of the arena
		copy(arena[off:], content)
		return arena[off : off+n : off+n], arena[off : off+n]
	}
}

// keep records a returned slice / string together with the standard library's answer.
func (h *hist) keep(what string, b []byte, s string, isStr bool, want string) {
	k := &keptRes{step: h.step, what: what, b: b, s: s, isStr: isStr, want: want}
	h.kept = append(h.kept, k)
	h.last = k
	h.c.Add("history_results_kept", 1)
}

// recheck compares every kept result (that the harness did not scribble on)
// with the answer the standard library gave when the call was made.
func (h *hist) recheck(when string) bool {
	c := h.c
	for _, k := range h.kept {
		if k.dead {
			continue
		}
		if k.now() != k.want {
			c.Failf("kept-result", "the result of step %d, %s, was %s when it was returned (equal to the standard library's) but reads %s %s (step %d); the caller never wrote to it",
				k.step, k.what, clipS(k.want), clipS(k.now()), when, h.step)
			return false
		}
		if k.step < h.step {
			c.Add("history_kept_results_rechecked_after_later_calls", 1)
		}
	}
	return true
}

func errSame(c *ev.Case, what string, got, want error, text bool) bool {
	p, t := sameErr(got, want)
	if !p {
		c.Failf("history-err", "%s: error %s, the standard library gives %s: error presence differs", what, qe(got), qe(want))
		return false
	}
	if text && !t {
		c.Failf("history-errtext", "%s: error %s, the standard library gives %s", what, qe(got), qe(want))
		return false
	}
	return true
}

// value compares a returned slice/string with the standard library's and keeps it.
func (h *hist) value(what string, b []byte, s string, isStr bool, want string) bool {
	got := s
	if !isStr {
		got = string(b)
	}
	if got != want {
		h.c.Failf("history-value", "%s = %s, the standard library gives %s (%s after the previous call)", what, clipS(got), clipS(want), h.rel)
		return false
	}
	h.keep(what, b, s, isStr, want)
	return true
}

// exec makes the call described by h.st, compares its results at once and
// keeps them.
func (h *hist) exec() bool {
	c, st, rng := h.c, &h.st, h.rng
	h.step++
	h.last, h.lastIn = nil, nil
	snap := append([]byte(nil), st.content...)
	useBytes := st.form&1 == 1 || st.fam == fStream
	toStr := st.form&2 == 2
	var argB []byte
	var argS string
	if useBytes {
		argB, h.lastIn = h.placeIn(h.arena, st.content, st.place)
		if h.lastIn != nil {
			c.Add("history_arg_in_reused_caller_buffer", 1)
		}
	} else {
		argS = string(st.content)
	}
	tn := "string"
	if useBytes {
		tn = "[]byte"
	}
	h.hash = ev.Mix(h.hash, uint64(st.fam), ev.HashBytes(st.content), ev.HashBytes(st.key), uint64(st.alg), uint64(st.enc), uint64(int64(st.base)), uint64(int64(st.bits)), uint64(st.form), uint64(st.reader), uint64(st.fault), uint64(st.place), uint64(st.x))
	var what string
	ok := true
	switch st.fam {
	case fHexEnc:
		want := hex.EncodeToString(snap)
		var b []byte
		var s string
		if toStr {
			what = fmt.Sprintf("HexEncodeToString[%s](%s)", tn, clip(snap))
			ok = c.Guard("HexEncodeToString", func() {
				if useBytes {
					s = strz.HexEncodeToString(argB)
				} else {
					s = strz.HexEncodeToString(argS)
				}
			})
		} else {
			what = fmt.Sprintf("HexEncode[%s](%s)", tn, clip(snap))
			ok = c.Guard("HexEncode", func() {
				if useBytes {
					b = strz.HexEncode(argB)
				} else {
					b = strz.HexEncode(argS)
				}
			})
		}
		ok = ok && h.value(what, b, s, toStr, want)
	case fHexDec:
		if st.form&4 == 4 && useBytes {
			// in place: the argument is the buffer; nothing is returned to keep
			ref := make([]byte, len(snap)/2+1)
			rn, rerr := hex.Decode(ref, append([]byte(nil), snap...))
			what = fmt.Sprintf("HexDecodeInPlace(%s)", clip(snap))
			var n int
			var err error
			if !c.Guard("HexDecodeInPlace", func() { n, err = strz.HexDecodeInPlace(argB) }) {
				return false
			}
			if !errSame(c, what, err, rerr, true) {
				return false
			}
			if n != rn || n < 0 || n > len(argB) || !bytes.Equal(argB[:n], ref[:rn]) {
				c.Failf("history-value", "%s = (%d, %v) leaving %s, hex.Decode gives (%d, %v) and %s", what, n, err, clip(argB), rn, rerr, clip(ref[:rn]))
				return false
			}
			c.Add("history_calls/HexDecodeInPlace", 1)
			h.log(what)
			return true // the argument was legitimately overwritten
		}
		want, werr := hex.DecodeString(string(snap))
		var b []byte
		var s string
		var err error
		if toStr {
			what = fmt.Sprintf("HexDecodeToString[%s](%s)", tn, clip(snap))
			ok = c.Guard("HexDecodeToString", func() {
				if useBytes {
					s, err = strz.HexDecodeToString(argB)
				} else {
					s, err = strz.HexDecodeToString(argS)
				}
			})
		} else {
			what = fmt.Sprintf("HexDecode[%s](%s)", tn, clip(snap))
			ok = c.Guard("HexDecode", func() {
				if useBytes {
					b, err = strz.HexDecode(argB)
				} else {
					b, err = strz.HexDecode(argS)
				}
			})
		}
		ok = ok && errSame(c, what, err, werr, true) && h.value(what, b, s, toStr, string(want))
		if ok && werr != nil {
			c.Add("history_decode_errors", 1)
		}
	case fB64Enc:
		e := b64Encs[st.enc]
		want := e.enc.EncodeToString(snap)
		var b []byte
		var s string
		if toStr {
			what = fmt.Sprintf("Base64EncodeToString[%s](%s, %s)", tn, clip(snap), e.name)
			ok = c.Guard("Base64EncodeToString", func() {
				if useBytes {
					s = strz.Base64EncodeToString(argB, e.enc)
				} else {
					s = strz.Base64EncodeToString(argS, e.enc)
				}
			})
		} else {
			what = fmt.Sprintf("Base64Encode[%s](%s, %s)", tn, clip(snap), e.name)
			ok = c.Guard("Base64Encode", func() {
				if useBytes {
					b = strz.Base64Encode(argB, e.enc)
				} else {
					b = strz.Base64Encode(argS, e.enc)
				}
			})
		}
		ok = ok && h.value(what, b, s, toStr, want)
	case fB64Dec:
		e := b64Encs[st.enc]
		want, werr := e.enc.DecodeString(string(snap))
		var b []byte
		var s string
		var err error
		if toStr {
			what = fmt.Sprintf("Base64DecodeToString[%s](%s, %s)", tn, clip(snap), e.name)
			ok = c.Guard("Base64DecodeToString", func() {
				if useBytes {
					s, err = strz.Base64DecodeToString(argB, e.enc)
				} else {
					s, err = strz.Base64DecodeToString(argS, e.enc)
				}
			})
		} else {
			what = fmt.Sprintf("Base64Decode[%s](%s, %s)", tn, clip(snap), e.name)
			ok = c.Guard("Base64Decode", func() {
				if useBytes {
					b, err = strz.Base64Decode(argB, e.enc)
				} else {
					b, err = strz.Base64Decode(argS, e.enc)
				}
			})
		}
		ok = ok && errSame(c, what, err, werr, true) && h.value(what, b, s, toStr, string(want))
		if ok && werr != nil {
			c.Add("history_decode_errors", 1)
		}
	case fDigest:
		d := digests[st.alg]
		want := refDigest(d.newH, snap)
		var b []byte
		var s string
		if toStr {
			what = fmt.Sprintf("hashz.%sToString[%s](%s)", d.name, tn, clip(snap))
			ok = c.Guard(d.name+"ToString", func() {
				if useBytes {
					s = d.bs(argB)
				} else {
					s = d.ss(argS)
				}
			})
		} else {
			what = fmt.Sprintf("hashz.%s[%s](%s)", d.name, tn, clip(snap))
			ok = c.Guard(d.name, func() {
				if useBytes {
					b = d.b(argB)
				} else {
					b = d.s(argS)
				}
			})
		}
		ok = ok && h.value(what, b, s, toStr, want)
	case fHmac:
		hh := hmacHashes[st.alg]
		if st.keyIsData && !bytes.Equal(st.key, st.content) {
			st.keyIsData = false
		}
		ksnap := append([]byte(nil), st.key...)
		m := hmac.New(hh.newH, ksnap)
		m.Write(snap)
		want := hex.EncodeToString(m.Sum(nil))
		keyBytes := st.form&4 == 4
		var keyB, keyRegion []byte
		var keyS string
		ktn := "string"
		if st.keyIsData && keyBytes && useBytes {
			keyB = argB
			ktn = "the data slice"
			c.Add("history_hmac_key_and_data_one_slice", 1)
			st.keyIsData = false
		} else if keyBytes {
			keyB, keyRegion = h.placeIn(h.karena, st.key, st.place)
			ktn = "[]byte"
			if keyRegion != nil {
				c.Add("history_hmac_key_in_reused_caller_buffer", 1)
			}
		} else {
			keyS = string(st.key)
		}
		var b []byte
		var s string
		fn := "Hmac"
		if toStr {
			fn = "HmacToString"
		}
		what = fmt.Sprintf("hashz.%s[%s,%s](key=%s, data=%s, %s)", fn, ktn, tn, clip(ksnap), clip(snap), hh.name)
		ok = c.Guard(fn, func() {
			switch {
			case toStr && keyBytes && useBytes:
				s = hashz.HmacToString(keyB, argB, hh.newH)
			case toStr && keyBytes:
				s = hashz.HmacToString(keyB, argS, hh.newH)
			case toStr && useBytes:
				s = hashz.HmacToString(keyS, argB, hh.newH)
			case toStr:
				s = hashz.HmacToString(keyS, argS, hh.newH)
			case keyBytes && useBytes:
				b = hashz.Hmac(keyB, argB, hh.newH)
			case keyBytes:
				b = hashz.Hmac(keyB, argS, hh.newH)
			case useBytes:
				b = hashz.Hmac(keyS, argB, hh.newH)
			default:
				b = hashz.Hmac(keyS, argS, hh.newH)
			}
		})
		ok = ok && h.value(what, b, s, toStr, want)
		if ok && ((keyBytes && !bytes.Equal(keyB, ksnap)) || (!keyBytes && keyS != string(ksnap))) {
			c.Failf("input-modified", "%s modified its key argument", what)
			return false
		}
		if ok && st.alg >= len(digests) {
			c.Add("history_hmac_wrapped_hash", 1)
		}
		if ok && keyRegion != nil && rng.Bool() {
			// the caller reuses its key buffer
			for i := range keyRegion {
				keyRegion[i] = byte(0xC3 + h.step)
			}
		}
	case fStream:
		d := streamDigests[st.alg]
		if st.fault > 0 {
			kind := st.fault - 1
			junk := rng.Bytes(rng.Pick(1, 5, 64, 100, 300))
			fr := &faultReader{data: junk, k: rng.Pick(1, 7, 64, 1000), kind: kind}
			swallowed := false
			if !c.Guard(d.name+"Stream", func() {
				defer func() {
					if p := recover(); p != nil {
						if _, mine := p.(readerPanic); mine {
							swallowed = true
							return
						}
						c.Failf("panic/"+d.name+"Stream", "hashz.%sStream panicked: %v", d.name, p)
					}
				}()
				_, _ = d.stream(fr)
			}) || c.Failed() {
				return false
			}
			h.log(fmt.Sprintf("hashz.%sStream(reader kind %d misbehaving after %d bytes) -> not judged (panic swallowed: %v)", d.name, kind, len(junk), swallowed))
			c.Add([]string{"history_stream_after_error_reader", "history_stream_after_data_with_error_reader", "history_stream_after_panicking_reader"}[kind], 1)
		}
		// the stream is what the reader still has to deliver: [lo, hi) of the argument
		var r io.Reader
		k := rng.Pick(1, 3, 64, 65, 1000)
		lo, hi := 0, len(argB)
		cut := rng.Intn(len(argB) + 1)
		rn := ""
		switch st.reader {
		case 0:
			r, rn = bytes.NewReader(argB), "bytes.Reader"
		case 1:
			r, rn = &chunkReader{data: argB, k: k}, fmt.Sprintf("chunk(%d)", k)
		case 2:
			r, rn = &chunkReader{data: argB, k: k, eofWithData: true}, fmt.Sprintf("chunk(%d)+EOF-with-data", k)
		case 3:
			br := bytes.NewReader(argB)
			_, _ = br.Read(make([]byte, cut))
			r, rn, lo = br, fmt.Sprintf("bytes.Reader of which %d bytes were read before", cut), cut
		case 4:
			sr := strings.NewReader(string(argB))
			_, _ = sr.Seek(int64(cut), io.SeekStart)
			r, rn, lo = sr, fmt.Sprintf("strings.Reader positioned at %d", cut), cut
		case 5:
			bb := bytes.NewBuffer(argB)
			_ = bb.Next(cut)
			r, rn, lo = bb, fmt.Sprintf("bytes.Buffer of which %d bytes were read before", cut), cut
		case 6:
			r, rn, hi = io.LimitReader(bytes.NewReader(argB), int64(cut)), fmt.Sprintf("io.LimitReader(bytes.Reader, %d)", cut), cut
		case 7:
			r, rn = io.MultiReader(bytes.NewReader(argB[:cut]), strings.NewReader(string(argB[cut:]))), fmt.Sprintf("io.MultiReader(bytes.Reader of %d bytes, strings.Reader of the rest)", cut)
		default:
			n2 := rng.Intn(len(argB) - cut + 1)
			r, rn, lo, hi = io.NewSectionReader(bytes.NewReader(argB), int64(cut), int64(n2)), fmt.Sprintf("io.SectionReader(bytes.Reader, %d, %d)", cut, n2), cut, cut+n2
		}
		if st.reader >= 3 && (lo > 0 || hi < len(argB)) {
			c.Add("history_stream_reader_delivers_part_of_its_source", 1)
		}
		want := refDigest(d.newH, snap[lo:hi])
		what = fmt.Sprintf("hashz.%sStream(%s over %s)", d.name, rn, clip(snap))
		var b []byte
		var err error
		ok = c.Guard(d.name+"Stream", func() { b, err = d.stream(r) })
		ok = ok && errSame(c, what, err, nil, false) && h.value(what, b, "", false, want)
	case fParse:
		s := string(snap)
		want, werr := strconv.ParseUint(s, st.base, st.bits)
		what = fmt.Sprintf("ParseUint[%s](%q, %d, %d)", tn, s, st.base, st.bits)
		var g uint64
		var err error
		ok = c.Guard("ParseUint", func() {
			if useBytes {
				g, err = strz.ParseUint(argB, st.base, st.bits)
			} else {
				g, err = strz.ParseUint(argS, st.base, st.bits)
			}
		})
		ok = ok && errSame(c, what, err, werr, false)
		if ok && g != want {
			c.Failf("history-value", "%s = (%d, %s), strconv.ParseUint gives (%d, %s) (%s after the previous call)", what, g, qe(err), want, qe(werr), h.rel)
			return false
		}
	case fIPv4:
		x := st.x
		what = fmt.Sprintf("IPv4ToLong(LongToIPv4(%#08x))", x)
		var dotted string
		var back uint32
		ok = c.Guard("IPv4ToLong(LongToIPv4)", func() {
			dotted = strz.LongToIPv4(x)
			back = strz.IPv4ToLong(dotted)
		})
		if ok && back != x {
			c.Failf("ipv4-roundtrip", "IPv4ToLong(LongToIPv4(%d)) = %d (dotted form %q, x = %#08x; %s after the previous call)", x, back, dotted, x, h.rel)
			return false
		}
	}
	if !ok {
		return false
	}
	if h.step == 1 {
		h.first = what
	}
	h.log(what)
	c.Add("history_calls/"+famNames[st.fam], 1)
	// no routine but HexDecodeInPlace may write to its argument
	if useBytes && !bytes.Equal(argB, snap) {
		c.Failf("input-modified", "%s modified its []byte argument: was %s, now %s", what, clip(snap), clip(argB))
		return false
	}
	if !useBytes && argS != string(snap) {
		c.Failf("input-modified", "%s modified its string argument: was %s, now %s", what, clip(snap), clipS(argS))
		return false
	}
	return true
}

func (h *hist) log(what string) {
	if h.c.Logging() {
		h.c.Logf("step %d (%s): %s -> agrees with the standard library", h.step, h.rel, what)
	}
}

// after: what the caller does between two calls.
func (h *hist) after() (repeat bool, ok bool) {
	c, rng := h.c, h.rng
	if h.lastIn != nil && rng.Bool() {
		// the caller reuses its argument buffer
		for i := range h.lastIn {
			h.lastIn[i] = byte(0x3C + h.step)
		}
		c.Add("history_arg_buffer_scribbled_after_call", 1)
		if c.Logging() {
			c.Logf("  caller overwrites its %d-byte argument buffer", len(h.lastIn))
		}
		if !h.recheck("after the caller overwrote the argument buffer of the last call") {
			return false, false
		}
	}
	if h.last != nil && !h.last.isStr && len(h.last.b) > 0 && rng.Chance(1, 4) {
		// the caller owns the returned slice: it scribbles on it and asks again
		for i := range h.last.b {
			h.last.b[i] ^= 0xFF
		}
		h.last.dead = true
		c.Add("history_result_scribbled_then_same_call", 1)
		if c.Logging() {
			c.Logf("  caller scribbles on the returned slice and repeats the call")
		}
		if !h.recheck("after the caller scribbled on a later result") {
			return false, false
		}
		return true, true
	}
	if rng.Chance(1, 5) {
		if !h.recheck("after later calls") {
			return false, false
		}
	}
	return false, true
}

func pickFam(rng *ev.Rand) famID {
	// IPv4 and ParseUint keep nothing; the others carry the weight
	return famID(rng.Pick(0, 0, 1, 1, 2, 2, 3, 3, 4, 4, 4, 5, 5, 5, 6, 6, 6, 7, 7, 8))
}

func (h *hist) run(steps int) bool {
	c, rng := h.c, h.rng
	repeat := false
	for i := 0; i < steps; i++ {
		switch {
		case repeat:
			h.rel = "same-call-after-scribbled-result"
		case h.step == 0 || rng.Chance(1, 3):
			h.fresh(pickFam(rng))
			h.rel = "fresh"
		default:
			h.rel = h.vary()
		}
		c.Add("history_step/"+h.rel, 1)
		if !h.exec() {
			return false
		}
		var ok bool
		if repeat, ok = h.after(); !ok {
			return false
		}
	}
	return h.recheck("at the end of the history")
}

func historyCase(c *ev.Case) {
	h := newHist(c)
	steps := c.Rng.Range(40, 70)
	if !h.run(steps) {
		return
	}
	c.Add("history_cases", 1)
	c.Max("history_max_kept_results", int64(len(h.kept)))
	c.Distinct(h.hash)
	if c.WantSample() {
		c.Sample(fmt.Sprintf("history: %d calls, %d results kept and compared again at the end; first call %s", h.step, len(h.kept), h.first))
	}
}

// ------------------------------------------------------------- cold start ----

// coldFirst lists the call a fresh process makes first.
var coldFirst = []struct {
	name string
	set  func(h *hist)
}{
	{"HexDecodeInPlace", func(h *hist) { h.fresh(fHexDec); h.st.form = 5 }},
	{"HexDecodeInPlace/invalid", func(h *hist) { h.fresh(fHexDec); h.st.form = 5; h.st.content = []byte("6g") }},
	{"HexDecode[string]/one-invalid-char", func(h *hist) { h.fresh(fHexDec); h.st.form = 0; h.st.content = []byte("g") }},
	{"HexDecode[[]byte]/one-invalid-char", func(h *hist) { h.fresh(fHexDec); h.st.form = 1; h.st.content = []byte{0x00} }},
	{"HexDecode[string]/one-valid-char", func(h *hist) { h.fresh(fHexDec); h.st.form = 0; h.st.content = []byte("A") }},
	{"HexDecodeToString[[]byte]", func(h *hist) { h.fresh(fHexDec); h.st.form = 3 }},
	{"HexDecodeToString[string]/invalid-pair", func(h *hist) { h.fresh(fHexDec); h.st.form = 2; h.st.content = []byte("00zy") }},
	{"HexEncodeToString[string]", func(h *hist) { h.fresh(fHexEnc); h.st.form = 2; h.st.content = []byte{0x00, 0x9f, 0xf0, 0xff} }},
	{"HexEncode[[]byte]", func(h *hist) { h.fresh(fHexEnc); h.st.form = 1; h.st.content = []byte{0xab, 0xcd, 0xef, 0x01} }},
	{"Base64Decode[string]", func(h *hist) { h.fresh(fB64Dec); h.st.form = 0 }},
	{"Base64DecodeToString[[]byte]", func(h *hist) { h.fresh(fB64Dec); h.st.form = 3 }},
	{"Base64EncodeToString[string]", func(h *hist) { h.fresh(fB64Enc); h.st.form = 2 }},
	{"ParseUint[[]byte]/base0", func(h *hist) {
		h.fresh(fParse)
		h.st.form, h.st.content, h.st.base, h.st.bits = 1, []byte("0x_dead_BEEF"), 0, 32
	}},
	{"ParseUint[string]/base36-overflow", func(h *hist) {
		h.fresh(fParse)
		h.st.form, h.st.content, h.st.base, h.st.bits = 0, []byte("3w5e11264sgsg"), 36, 64
	}},
	{"ParseUint[string]/base7", func(h *hist) {
		h.fresh(fParse)
		h.st.form, h.st.content, h.st.base, h.st.bits = 0, []byte("45012021522523134134601"), 7, 64
	}},
	{"ParseUint[[]byte]/bits0", func(h *hist) {
		h.fresh(fParse)
		h.st.form, h.st.content, h.st.base, h.st.bits = 1, []byte("18446744073709551615"), 10, 0
	}},
	{"Md5Stream", func(h *hist) { h.fresh(fStream); h.st.alg, h.st.reader, h.st.fault = 0, 1, 0 }},
	{"Sha384Stream/after-failing-reader", func(h *hist) { h.fresh(fStream); h.st.alg, h.st.reader, h.st.fault = 4, 0, 1 }},
	{"Sha512Stream/after-panicking-reader", func(h *hist) { h.fresh(fStream); h.st.alg, h.st.reader, h.st.fault = 5, 2, 3 }},
	{"Sha512_224ToString[string]", func(h *hist) { h.fresh(fDigest); h.st.alg, h.st.form = 6, 2 }},
	{"Sha224[[]byte]", func(h *hist) { h.fresh(fDigest); h.st.alg, h.st.form = 2, 1 }},
	{"Hmac[[]byte,string]", func(h *hist) { h.fresh(fHmac); h.st.form = 4 }},
	{"HmacToString[string,[]byte]", func(h *hist) { h.fresh(fHmac); h.st.form = 3 }},
	{"IPv4", func(h *hist) { h.fresh(fIPv4); h.st.x |= 0x01020304 }},
}

// coldCase runs alone in a freshly started process.
func coldCase(c *ev.Case) {
	h := newHist(c)
	f := coldFirst[c.Index%len(coldFirst)]
	f.set(h)
	h.rel = "first call of the process"
	c.Logf("cold start: the first golib call of this process is %s", f.name)
	if !h.exec() {
		return
	}
	c.Add("cold_start_first/"+f.name, 1)
	if _, ok := h.after(); !ok {
		return
	}
	if !h.run(40) {
		return
	}
	c.Add("cold_start_cases", 1)
	c.Distinct(ev.Mix(h.hash, 0xC01D))
	if c.WantSample() {
		c.Sample(fmt.Sprintf("cold start: fresh process, first call %s, then %d more calls", h.first, h.step-1))
	}
}

// -------------------------------------------------------------------- big ----

// bigSizes: both sides of every power of two from 2^10 up.
func bigSizes(thorough bool) []int {
	top := 20
	if thorough {
		top = 22
	}
	var out []int
	for k := 10; k <= top; k++ {
		out = append(out, 1<<k-1, 1<<k, 1<<k+1)
	}
	out = append(out, 3000, 5000, 12289, 98304, 262144+4096)
	return out
}

func bigClass(c *ev.Case, n int) {
	c.Add("big_inputs", 1)
	if n >= 4096 {
		c.Add("big_inputs_ge_4096", 1)
	}
	if n >= 65536 {
		c.Add("big_inputs_ge_65536", 1)
	}
	if n >= 1<<20 {
		c.Add("big_inputs_ge_1MiB", 1)
	}
	c.Max("big_max_input_bytes", int64(n))
}

// deepPositions: places for an invalid character far into a text of n bytes.
func deepPositions(rng *ev.Rand, n int) []int {
	ps := []int{n - 1, n - 2, n / 2, n/2 + 1, 1023, 1024, 4095, 4096, 4097, 65535, 65536, rng.Intn(n)}
	var out []int
	for _, p := range ps {
		if p >= 512 && p < n {
			out = append(out, p)
		}
	}
	return out
}

func bigCase(c *ev.Case) {
	rng := c.Rng
	sizes := bigSizes(c.Thorough())
	L := sizes[c.Index%len(sizes)]
	kind := (c.Index / len(sizes)) % 4
	h := ev.Mix(uint64(L), uint64(kind))
	switch kind {
	case 0: // hex
		k := &hexChk{c: c}
		raw := rng.Bytes(L)
		if !k.encode(raw) {
			return
		}
		bigClass(c, L)
		txt := randHexString(rng, L)
		if !k.decode(txt) {
			return
		}
		bigClass(c, L)
		if !k.decode(txt[:L-1]) { // the other parity: for an odd length the error is only found at the very end
			return
		}
		for _, p := range deepPositions(rng, L) {
			t2 := append([]byte(nil), txt...)
			t2[p] = hexBadChars[rng.Intn(len(hexBadChars))]
			if rng.Bool() && p+1 < L {
				t2[p+1] = hexBadChars[rng.Intn(len(hexBadChars))]
			}
			if !k.decode(t2) {
				return
			}
			c.Add("big_hex_invalid_byte_deep", 1)
		}
		h = ev.Mix(h, k.hash)
	case 1: // base64
		k := &b64Chk{c: c}
		raw := rng.Bytes(L)
		for e := 0; e < 4; e++ {
			if !k.encode(e, raw) {
				return
			}
			bigClass(c, L)
			txt := []byte(b64Encs[e].enc.EncodeToString(raw))
			if !k.decode(e, txt) {
				return
			}
			ps := deepPositions(rng, len(txt))
			p := ps[rng.Intn(len(ps))]
			t2 := append([]byte(nil), txt...)
			t2[p] = b64Junk[rng.Intn(len(b64Junk))]
			if !k.decode(e, t2) {
				return
			}
			c.Add("big_b64_corruption_deep", 1)
		}
		// line-wrapped text, as PEM / MIME produce it
		e := rng.Intn(2)
		txt := b64Encs[e].enc.EncodeToString(raw)
		var sb strings.Builder
		for i := 0; i < len(txt); i += 76 {
			sb.WriteString(txt[i:min(i+76, len(txt))])
			sb.WriteString("\r\n")
		}
		if !k.decode(e, []byte(sb.String())) {
			return
		}
		c.Add("big_b64_line_wrapped", 1)
		h = ev.Mix(h, k.hash)
	case 2: // digests, HMAC, streams
		data := rng.Bytes(L)
		in := mkInp(data)
		for _, d := range digests {
			want := refDigest(d.newH, data)
			var g [4]string
			var b0, b1 []byte
			if !c.Guard(d.name+"[string]", func() { b0 = d.s(in.s) }) ||
				!c.Guard(d.name+"[[]byte]", func() { b1 = d.b(in.b) }) ||
				!c.Guard(d.name+"ToString[string]", func() { g[2] = d.ss(in.s) }) ||
				!c.Guard(d.name+"ToString[[]byte]", func() { g[3] = d.bs(in.b) }) {
				return
			}
			g[0], g[1] = string(b0), string(b1)
			for i := range g {
				if g[i] != want {
					c.Failf("digest/"+d.name, "hashz.%s (form %d) over %d bytes = %q, hex of crypto digest = %q", d.name, i, L, g[i], want)
					return
				}
			}
			bigClass(c, L)
			c.Add("big_digest_calls", 4)
		}
		// HMAC with big data and a big key
		for t := 0; t < 2; t++ {
			hh := hmacHashes[rng.Intn(len(digests))]
			kl := L
			if t == 1 {
				kl = rng.Pick(1, 64, 129, 4096)
			}
			kin := mkInp(rng.Bytes(kl))
			m := hmac.New(hh.newH, kin.snap)
			m.Write(data)
			want := hex.EncodeToString(m.Sum(nil))
			var b0 []byte
			var s1 string
			if !c.Guard("Hmac", func() { b0 = hashz.Hmac(kin.s, in.b, hh.newH) }) ||
				!c.Guard("HmacToString", func() { s1 = hashz.HmacToString(kin.b, in.s, hh.newH) }) {
				return
			}
			if string(b0) != want || s1 != want {
				c.Failf("hmac", "hashz.Hmac(key of %d bytes, data of %d bytes, %s) = %q / %q, hex of crypto/hmac = %q", kl, L, hh.name, b0, s1, want)
				return
			}
			if !kin.intact(c, "hashz.Hmac (key)") {
				return
			}
			c.Add("big_hmac_calls", 2)
		}
		d := streamDigests[rng.Intn(len(streamDigests))]
		want := refDigest(d.newH, data)
		k := rng.Pick(4095, 4096, 32768, 65536, 65537, 1<<20)
		for _, r := range []io.Reader{bytes.NewReader(in.b), strings.NewReader(in.s), &chunkReader{data: in.b, k: k}, &chunkReader{data: in.b, k: k, eofWithData: true}} {
			var got []byte
			var err error
			if !c.Guard(d.name+"Stream", func() { got, err = d.stream(r) }) {
				return
			}
			if string(got) != want || err != nil {
				c.Failf("stream/"+d.name, "hashz.%sStream over %d bytes (chunk %d) = (%q, %v), hex of crypto digest = %q", d.name, L, k, got, err, want)
				return
			}
			c.Add("big_stream_calls", 1)
		}
		if !in.intact(c, "hashz digests over a big input") {
			return
		}
		h = ev.Mix(h, ev.HashBytes(data[:64]))
	default: // ParseUint on long strings
		k := &puChk{c: c}
		Z := min(L, 65537)
		for i := 0; i < 24; i++ {
			base, bits := pickBase(rng), pickBits(rng)
			eb := base
			prefix := ""
			if base == 0 {
				pf := prefixForms[rng.Intn(len(prefixForms))]
				prefix, eb = pf.text, pf.eb
			}
			if eb < 2 || eb > 36 {
				eb = 10
			}
			z := rng.Pick(Z, Z/2, 257, 300, 1000, rng.Range(130, Z))
			var digits []byte
			switch rng.Intn(5) {
			case 0: // zeros, then a value that fits
				digits = append(bytes.Repeat([]byte{'0'}, z), strconv.FormatUint(rng.Uint64()>>uint(rng.Intn(64)), eb)...)
			case 1: // zeros, then max / max+1 of the bit size
				bs := bits
				if bs < 1 || bs > 64 {
					bs = 64
				}
				v := pow2m1(bs)
				if rng.Bool() {
					v.Add(v, bigOne)
				}
				digits = append(bytes.Repeat([]byte{'0'}, z), v.Text(eb)...)
			case 2: // 0_0_0_..._d : legal only for base 0
				digits = bytes.Repeat([]byte{'0', '_'}, z/2)
				digits = append(digits, digitChars[rng.Intn(eb)])
			case 3: // a long run of valid digits (overflow long before the end), junk at the very end sometimes
				digits = make([]byte, z)
				for j := range digits {
					digits[j] = digitChars[rng.Intn(eb)]
				}
				if rng.Bool() {
					digits[z-1] = '!'
				}
			default: // zeros with the error at the very end
				digits = append(bytes.Repeat([]byte{'0'}, z), "_ z_!"[rng.Intn(5)])
			}
			s := prefix + string(digits)
			_, werr := strconv.ParseUint(s, base, bits)
			if !k.check(s, base, bits) {
				return
			}
			c.Add("big_pu_long_inputs", 1)
			if werr == nil {
				c.Add("big_pu_long_inputs_accepted", 1)
			}
			c.Max("big_pu_max_len", int64(len(s)))
		}
		bigClass(c, Z)
		h = ev.Mix(h, k.hash)
	}
	c.Distinct(h)
	if c.WantSample() {
		c.Sample(fmt.Sprintf("big: %s on inputs of %d bytes", []string{"hex encode/decode", "base64 encode/decode", "digests, HMAC and streams", "ParseUint long strings"}[kind], L))
	}
}
