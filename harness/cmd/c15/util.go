package main

import (
	"bytes"
	"fmt"

	"verif/ev"
)

// Named instantiations of the ~string | ~[]byte constraint.
type myStr string
type myBytes []byte

// inp is one input in its two forms plus a private snapshot that is never
// handed to golib. Both forms are heap-backed copies, so an (illegal) write by
// golib is observable instead of faulting on read-only data. Half of the []byte
// forms have spare capacity behind them (buf[:n] of a bigger buffer, filled with
// other bytes), as most slices in a real program have: a routine must answer
// for the len bytes it was given.
type inp struct {
	s    string
	b    []byte
	snap []byte
}

func mkInp(content []byte) *inp {
	in := &inp{}
	in.snap = append(make([]byte, 0, len(content)), content...)
	spare := 0
	switch len(content) % 4 {
	case 1:
		spare = 5
	case 3:
		spare = 64
	}
	in.b = append(make([]byte, 0, len(content)+spare), content...)
	for i, room := 0, in.b[len(in.b):cap(in.b)]; i < len(room); i++ {
		room[i] = 0xEE ^ byte(i)
	}
	in.s = string(content)
	if content == nil {
		// keep nil-ness now and then: nil slices are legal inputs
		in.b = nil
	}
	return in
}

// intact reports (and fails the case) if golib changed one of the inputs.
func (in *inp) intact(c *ev.Case, fn string) bool {
	if in.s != string(in.snap) {
		c.Failf("input-modified", "%s modified its string argument: was %q, now %q", fn, in.snap, in.s)
		return false
	}
	if !bytes.Equal(in.b, in.snap) {
		c.Failf("input-modified", "%s modified its []byte argument: was %q, now %q", fn, in.snap, in.b)
		return false
	}
	return true
}

func errStr(e error) string {
	if e == nil {
		return "<nil>"
	}
	return e.Error()
}

// qe renders an error for messages: <nil> or its text in Go-quoted form (the
// text may embed raw input bytes).
func qe(e error) string {
	if e == nil {
		return "<nil>"
	}
	return fmt.Sprintf("%q", e.Error())
}

func clip(b []byte) string {
	if len(b) <= 96 {
		return fmt.Sprintf("%q", b)
	}
	return fmt.Sprintf("%q…(%d bytes)", b[:96], len(b))
}

func clipS(s string) string {
	if len(s) <= 96 {
		return fmt.Sprintf("%q", s)
	}
	return fmt.Sprintf("%q…(%d bytes)", s[:96], len(s))
}
