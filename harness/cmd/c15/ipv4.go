package main

import (
	"fmt"

	"github.com/welllog/golib/strz"

	"verif/ev"
)

// roundTrip checks IPv4ToLong(LongToIPv4(x)) == x for the addresses produced
// by next (which returns false when exhausted). golib is called in guarded
// blocks; cur always names the address being converted.
func roundTrip(c *ev.Case, next func() (uint32, bool)) (count int64, ok bool) {
	var cur uint32
	var dotted string
	var back uint32
	done := false
	bad := false
	for !done && !bad {
		guarded := c.Guard("IPv4ToLong(LongToIPv4)", func() {
			for i := 0; i < 4096; i++ {
				x, more := next()
				if !more {
					done = true
					return
				}
				cur = x
				dotted = ""
				dotted = strz.LongToIPv4(x)
				back = strz.IPv4ToLong(dotted)
				count++
				if back != x {
					bad = true
					return
				}
			}
		})
		if !guarded {
			c.Logf("the panic happened while converting x=%d (%#08x), LongToIPv4 had returned %q", cur, cur, dotted)
			return count, false
		}
	}
	if bad {
		c.Logf("LongToIPv4(%d) -> %q; IPv4ToLong(%q) -> %d", cur, dotted, dotted, back)
		c.Failf("ipv4-roundtrip", "IPv4ToLong(LongToIPv4(%d)) = %d (dotted form %q, x = %#08x)", cur, back, dotted, cur)
		return count, false
	}
	return count, true
}

var gridBytes = []uint32{0, 1, 9, 10, 99, 100, 127, 128, 199, 200, 254, 255}

// ipv4GridCase: 144 cases x 144 addresses = all 12^4 addresses whose bytes are
// digit-count / carry boundaries of the dotted form.
func ipv4GridCase(c *ev.Case) {
	a, b := gridBytes[(c.Index/12)%12], gridBytes[c.Index%12]
	i := 0
	n, ok := roundTrip(c, func() (uint32, bool) {
		if i >= 144 {
			return 0, false
		}
		x := a<<24 | b<<16 | gridBytes[i/12]<<8 | gridBytes[i%12]
		i++
		return x, true
	})
	c.Add("ipv4_roundtrips", n)
	c.Add("ipv4_grid_addresses", n)
	if !ok {
		return
	}
	c.Logf("grid %d.%d.*.*: %d addresses round-tripped", a, b, n)
	c.Distinct(ev.Mix(uint64(a), uint64(b), 4))
	if c.WantSample() {
		c.Sample(fmt.Sprintf("ipv4 grid: the 144 addresses %d.%d.c.d with c,d in %v", a, b, gridBytes))
	}
}

const strataPerCase = 1 << 16 // 64 cases x 2^16 strata of 1024 addresses = 2^22 samples

// ipv4StratifiedCase: one random address out of each block of 1024.
func ipv4StratifiedCase(c *ev.Case) {
	rng := c.Rng
	first := uint32(c.Index%64) * strataPerCase
	i := uint32(0)
	n, ok := roundTrip(c, func() (uint32, bool) {
		if i >= strataPerCase {
			return 0, false
		}
		x := (first+i)<<10 | uint32(rng.Uint64()&1023)
		i++
		return x, true
	})
	c.Add("ipv4_roundtrips", n)
	c.Add("ipv4_stratified_samples", n)
	if !ok {
		return
	}
	c.Logf("strata %d..%d: %d addresses round-tripped", first, first+strataPerCase-1, n)
	c.Distinct(ev.Mix(uint64(c.Index), rng.Uint64(), 5))
	if c.WantSample() {
		c.Sample(fmt.Sprintf("ipv4 stratified: one random address from each 1024-block in [%#08x, %#08x]", first<<10, (first+strataPerCase)<<10-1))
	}
}

const chunkBits = 20 // 4096 cases x 2^20 addresses = 2^32

// ipv4ChunkCase: every address of one 2^20 chunk.
func ipv4ChunkCase(c *ev.Case) {
	lo := uint64(c.Index) << chunkBits
	hi := lo + 1<<chunkBits
	x := lo
	n, ok := roundTrip(c, func() (uint32, bool) {
		if x >= hi {
			return 0, false
		}
		v := uint32(x)
		x++
		return v, true
	})
	c.Add("ipv4_roundtrips", n)
	c.Add("ipv4_exhaustive_addresses", n)
	if !ok {
		return
	}
	c.Add("ipv4_chunks_complete", 1)
	c.Logf("chunk [%#08x, %#08x]: %d addresses round-tripped", lo, hi-1, n)
	c.Distinct(ev.Mix(lo, 6))
	if c.WantSample() {
		c.Sample(fmt.Sprintf("ipv4 exhaustive: all %d addresses in [%#08x, %#08x]", n, lo, hi-1))
	}
}
