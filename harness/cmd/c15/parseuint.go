package main

import (
	"errors"
	"fmt"
	"math/big"
	"strconv"
	"strings"

	"github.com/welllog/golib/strz"

	"verif/ev"
)

// ---------------------------------------------------------------- oracle ----

type puChk struct {
	c     *ev.Case
	hash  uint64
	n     int
	first string
}

func effBits(bits int) int {
	if bits == 0 {
		return strconv.IntSize
	}
	return bits
}

// check runs strz.ParseUint on the string and on the []byte form of s and
// compares value and error presence with strconv.ParseUint.
func (k *puChk) check(s string, base, bits int) bool {
	c := k.c
	k.hash = ev.Mix(k.hash, ev.HashString(s), uint64(int64(base)), uint64(int64(bits)))
	k.n++
	if k.n == 1 {
		k.first = fmt.Sprintf("ParseUint(%q, %d, %d)", s, base, bits)
	}
	want, werr := strconv.ParseUint(s, base, bits)
	in := mkInp([]byte(s))
	if c.Logging() {
		c.Logf("call ParseUint(%q, base=%d, bitSize=%d); strconv -> (%d, %s)", s, base, bits, want, qe(werr))
	}
	var gs, gb uint64
	var es, eb error
	if !c.Guard("ParseUint[string]", func() { gs, es = strz.ParseUint(in.s, base, bits) }) {
		return false
	}
	if !c.Guard("ParseUint[[]byte]", func() { gb, eb = strz.ParseUint(in.b, base, bits) }) {
		return false
	}
	if c.Logging() {
		c.Logf("  strz string -> (%d, %s); []byte -> (%d, %s)", gs, qe(es), gb, qe(eb))
	}
	if (es != nil) != (werr != nil) {
		c.Failf("parseuint-err", "strz.ParseUint[string](%q, %d, %d) = (%d, %s) but strconv.ParseUint = (%d, %s): error presence differs", s, base, bits, gs, qe(es), want, qe(werr))
		return false
	}
	if gs != want {
		c.Failf("parseuint-value", "strz.ParseUint[string](%q, %d, %d) = (%d, %s) but strconv.ParseUint = (%d, %s): value differs", s, base, bits, gs, qe(es), want, qe(werr))
		return false
	}
	if (eb != nil) != (werr != nil) {
		c.Failf("parseuint-err", "strz.ParseUint[[]byte](%q, %d, %d) = (%d, %s) but strconv.ParseUint = (%d, %s): error presence differs (string form gave (%d, %s))", s, base, bits, gb, qe(eb), want, qe(werr), gs, qe(es))
		return false
	}
	if gb != want {
		c.Failf("parseuint-value", "strz.ParseUint[[]byte](%q, %d, %d) = (%d, %s) but strconv.ParseUint = (%d, %s): value differs (string form gave (%d, %s))", s, base, bits, gb, qe(eb), want, qe(werr), gs, qe(es))
		return false
	}
	if !in.intact(c, fmt.Sprintf("ParseUint(%q, %d, %d)", s, base, bits)) {
		return false
	}
	// named string / byte-slice types now and then (same generic code, other instantiation)
	if k.n%16 == 0 {
		var gm, gn uint64
		var em, en error
		if !c.Guard("ParseUint[myStr]", func() { gm, em = strz.ParseUint(myStr(in.s), base, bits) }) {
			return false
		}
		if !c.Guard("ParseUint[myBytes]", func() { gn, en = strz.ParseUint(myBytes(in.b), base, bits) }) {
			return false
		}
		if gm != want || gn != want || (em != nil) != (werr != nil) || (en != nil) != (werr != nil) {
			c.Failf("parseuint-named", "strz.ParseUint on named types (%q, %d, %d) = (%d, %s) / (%d, %s) but strconv.ParseUint = (%d, %s)", s, base, bits, gm, qe(em), gn, qe(en), want, qe(werr))
			return false
		}
		c.Add("pu_named_type_calls", 2)
	}

	// ---- coverage: what this input exercised (classified with strconv's answer)
	c.Add("pu_inputs", 1)
	switch {
	case werr == nil:
		c.Add("pu_ok", 1)
		if bits >= 0 && bits <= 64 {
			eb := effBits(bits)
			if want == uint64(1)<<uint(eb)-1 {
				c.Add("pu_ok_value_eq_max", 1)
			}
		}
	case errors.Is(werr, strconv.ErrRange):
		c.Add("pu_err_range", 1)
	case errors.Is(werr, strconv.ErrSyntax):
		c.Add("pu_err_syntax", 1)
	default:
		if strings.Contains(werr.Error(), "invalid base") {
			c.Add("pu_err_base", 1)
		} else {
			c.Add("pu_err_bitsize", 1)
		}
	}
	if base == 0 && len(s) > 0 && s[0] == '0' {
		p := byte(0)
		if len(s) >= 3 {
			p = s[1] | 32
		}
		switch p {
		case 'x':
			c.Add("pu_base0_prefix_hex", 1)
		case 'o':
			c.Add("pu_base0_prefix_0o", 1)
		case 'b':
			c.Add("pu_base0_prefix_bin", 1)
		default:
			c.Add("pu_base0_prefix_0_octal", 1)
		}
	}
	if len(s) > 0 && (s[0] == '+' || s[0] == '-') {
		c.Add("pu_sign_prefixed", 1)
		if len(s) > 1 && s[1] >= '0' && s[1] <= '9' {
			c.Add("pu_sign_then_digit", 1)
		}
	}
	if len(s) == 0 {
		c.Add("pu_empty_inputs", 1)
	}
	if strings.IndexByte(s, '_') >= 0 {
		switch {
		case base == 0 && werr == nil:
			c.Add("pu_underscore_accepted", 1)
		case base == 0:
			c.Add("pu_underscore_base0_rejected", 1)
		default:
			c.Add("pu_underscore_fixed_base", 1)
		}
	}
	return true
}

func (k *puChk) finish(kind string) {
	c := k.c
	if k.n > 0 {
		c.Distinct(k.hash)
	}
	if c.WantSample() {
		c.Sample(fmt.Sprintf("%s: %d inputs compared with strconv.ParseUint (string and []byte form), first = %s", kind, k.n, k.first))
	}
}

// ------------------------------------------------------------ generators ----

const digitChars = "0123456789abcdefghijklmnopqrstuvwxyz"

var (
	bigOne = big.NewInt(1)
	big64  = new(big.Int).Lsh(bigOne, 64)
)

func pow2m1(bits int) *big.Int {
	v := new(big.Int).Lsh(bigOne, uint(bits))
	return v.Sub(v, bigOne)
}

func pickBase(rng *ev.Rand) int {
	switch rng.Intn(22) {
	case 0, 1, 2, 3, 4, 5, 6:
		return 0
	case 7, 8:
		return 10
	case 9, 10:
		return 16
	case 11:
		return 2
	case 12:
		return 8
	case 13:
		return 36
	case 14:
		return rng.Pick(-1, 1, 37)
	case 15:
		return rng.Pick(3, 7, 9, 11, 15, 17, 31, 32, 33, 35)
	default:
		return rng.Range(-1, 37)
	}
}

func pickBits(rng *ev.Rand) int {
	switch rng.Intn(12) {
	case 0, 1:
		return 64
	case 2:
		return 0
	case 3:
		return rng.Pick(8, 16, 32)
	case 4:
		return rng.Pick(1, 2, 7, 9, 15, 17, 31, 33, 63)
	case 5:
		return rng.Pick(-1, 65)
	default:
		return rng.Range(-1, 65)
	}
}

var invalidDigitChars = []byte{'@', '[', '`', '{', '/', ':', ' ', '.', ',', '-', '+', 0x00, 0x7f, 0x80, 0xff, '\n', 'G' | 0x80}

func randCase(rng *ev.Rand, b []byte, mode int) {
	for i, ch := range b {
		if ch >= 'a' && ch <= 'z' {
			switch mode {
			case 1:
				b[i] = ch - 32
			case 2:
				if rng.Bool() {
					b[i] = ch - 32
				}
			}
		}
	}
}

// insertUnderscores puts underscores into the digit part; legal = only
// between two digits (never doubled); otherwise in a forbidden place.
func insertUnderscores(rng *ev.Rand, digits []byte, legal bool) []byte {
	if legal {
		if len(digits) < 2 {
			return digits
		}
		out := make([]byte, 0, len(digits)*2)
		every := rng.Pick(1, 2, 3, 4, 99)
		for i, d := range digits {
			out = append(out, d)
			if i < len(digits)-1 {
				if every == 99 {
					if rng.Chance(1, 4) {
						out = append(out, '_')
					}
				} else if (i+1)%every == 0 {
					out = append(out, '_')
				}
			}
		}
		return out
	}
	switch rng.Intn(4) {
	case 0: // trailing
		return append(append([]byte{}, digits...), '_')
	case 1: // leading (only legal directly after a base prefix; the caller decides)
		return append([]byte{'_'}, digits...)
	case 2: // doubled
		p := 0
		if len(digits) > 0 {
			p = rng.Intn(len(digits) + 1)
		}
		out := append([]byte{}, digits[:p]...)
		out = append(out, '_', '_')
		return append(out, digits[p:]...)
	default: // only underscores
		return []byte(strings.Repeat("_", rng.Range(1, 3)))
	}
}

type prefixForm struct {
	text string
	eb   int
}

var prefixForms = []prefixForm{
	{"", 10}, {"", 10}, {"", 10},
	{"0x", 16}, {"0X", 16}, {"0b", 2}, {"0B", 2}, {"0o", 8}, {"0O", 8}, {"0", 8},
}

// genParse produces one grammar-aware (string, base, bitSize) triple.
func genParse(rng *ev.Rand) (string, int, int) {
	base := pickBase(rng)
	bits := pickBits(rng)
	if rng.Chance(1, 150) {
		return "", base, bits
	}
	var out []byte
	if rng.Chance(1, 30) {
		out = append(out, "+- \t"[rng.Intn(4)])
	}
	eb := base
	prefix := ""
	if base == 0 || rng.Chance(1, 10) {
		pf := prefixForms[rng.Intn(len(prefixForms))]
		prefix, eb = pf.text, pf.eb
	}
	if eb < 2 || eb > 36 {
		eb = rng.Pick(2, 8, 10, 16, 36)
	}
	// digits
	var digits []byte
	mode := rng.Intn(20)
	switch {
	case mode < 7: // value at a bit-size boundary
		bs := bits
		if bs < 1 || bs > 64 || rng.Chance(1, 5) {
			bs = rng.Pick(1, 7, 8, 9, 15, 16, 17, 31, 32, 33, 63, 64, rng.Range(1, 64))
		}
		v := pow2m1(bs)
		switch rng.Intn(8) {
		case 0:
			v.Add(v, bigOne)
		case 1:
			v.Sub(v, bigOne)
		case 2:
			v.Add(v, big.NewInt(int64(rng.Range(2, eb+1))))
		case 3:
			v.Mul(v, big.NewInt(int64(eb)))
		case 4:
			v.Sub(v, big.NewInt(int64(rng.Intn(eb+1))))
		}
		if v.Sign() < 0 {
			v.SetInt64(0)
		}
		digits = []byte(v.Text(eb))
	case mode < 10: // around 2^64 and the multiplication cutoff
		cut := new(big.Int).Div(pow2m1(64), big.NewInt(int64(eb)))
		cut.Add(cut, bigOne)
		var v *big.Int
		switch rng.Intn(6) {
		case 0:
			v = new(big.Int).Mul(cut, big.NewInt(int64(eb)))
			v.Add(v, big.NewInt(int64(rng.Intn(eb))))
		case 1:
			v = new(big.Int).Sub(cut, bigOne)
			v.Mul(v, big.NewInt(int64(eb)))
			v.Add(v, big.NewInt(int64(rng.Intn(eb))))
		case 2:
			v = new(big.Int).Add(big64, big.NewInt(int64(rng.Intn(3))))
		case 3:
			v = new(big.Int).Sub(big64, big.NewInt(int64(rng.Range(1, 3))))
		case 4:
			v = new(big.Int).Add(cut, big.NewInt(int64(rng.Range(-1, 1))))
		default:
			v = new(big.Int).Mul(big64, big.NewInt(int64(rng.Range(1, eb*eb))))
			v.Add(v, big.NewInt(int64(rng.Intn(1000))))
		}
		digits = []byte(v.Text(eb))
	case mode < 19: // random digits valid for eb
		n := rng.Pick(0, 1, 1, 2, 3, 4, 5, 8, 12, 19, 20, 21, 33, 64, 65, 70)
		if rng.Bool() {
			n = rng.Range(0, 24)
		}
		digits = make([]byte, n)
		for i := range digits {
			digits[i] = digitChars[rng.Intn(eb)]
		}
	default: // junk bytes
		digits = rng.Bytes(rng.Range(1, 6))
	}
	// leading zeros
	if rng.Chance(1, 8) {
		digits = append([]byte(strings.Repeat("0", rng.Range(1, 3))), digits...)
	}
	// one invalid digit: exactly the base, base+1, 'z', or a non-alphanumeric neighbour
	if rng.Chance(1, 7) && len(digits) > 0 {
		p := rng.Intn(len(digits))
		switch rng.Intn(4) {
		case 0:
			if eb < 36 {
				digits[p] = digitChars[eb]
			} else {
				digits[p] = '{'
			}
		case 1:
			if eb+1 < 36 {
				digits[p] = digitChars[eb+1]
			} else {
				digits[p] = '@'
			}
		case 2:
			digits[p] = 'z'
		default:
			digits[p] = invalidDigitChars[rng.Intn(len(invalidDigitChars))]
		}
	}
	randCase(rng, digits, rng.Intn(3))
	// underscores
	usChance := 40
	if base == 0 {
		usChance = 3
	}
	if rng.Chance(1, usChance) || (base == 0 && rng.Chance(1, 6)) {
		digits = insertUnderscores(rng, digits, rng.Chance(2, 3))
	}
	// underscore inside / before / right after the prefix
	switch {
	case prefix != "" && rng.Chance(1, 12):
		switch rng.Intn(3) {
		case 0:
			prefix = "_" + prefix
		case 1:
			prefix = prefix[:1] + "_" + prefix[1:]
		default:
			prefix = prefix + "_"
		}
	}
	out = append(out, prefix...)
	out = append(out, digits...)
	if rng.Chance(1, 40) {
		out = append(out, " \x00z_.xX"[rng.Intn(7)])
	}
	return string(out), base, bits
}

func grammarCase(c *ev.Case) {
	k := &puChk{c: c}
	n := 400
	for i := 0; i < n; i++ {
		s, base, bits := genParse(c.Rng)
		if !k.check(s, base, bits) {
			return
		}
	}
	k.finish("grammar")
}

// --------------------------------------------------------- boundary sweep ----

const nBases = 39 // -1..37
const nBits = 67  // -1..65
const boundaryCombos = nBases * nBits

// decorate renders digit string d (lower case, base eb) in a few surface forms.
func decorate(rng *ev.Rand, d string, eb, base int, round int) []string {
	forms := []string{}
	prefixes := []string{""}
	if base == 0 {
		switch eb {
		case 16:
			prefixes = []string{"0x", "0X"}
		case 8:
			prefixes = []string{"0", "0o", "0O"}
		case 2:
			prefixes = []string{"0b", "0B"}
		}
	}
	for _, p := range prefixes {
		forms = append(forms, p+d)
	}
	p := prefixes[rng.Intn(len(prefixes))]
	// upper case
	if eb > 10 {
		forms = append(forms, p+strings.ToUpper(d))
	}
	// leading zeros (in base 0 without prefix this turns the number octal: still a fair question)
	forms = append(forms, p+strings.Repeat("0", rng.Range(1, 3))+d)
	// underscores (legal in base 0 only)
	if len(d) >= 2 {
		forms = append(forms, p+string(insertUnderscores(rng, []byte(d), true)))
	}
	if p != "" && len(p) == 2 {
		forms = append(forms, p+"_"+d)
	}
	if round > 0 || rng.Chance(1, 4) {
		forms = append(forms, p+string(insertUnderscores(rng, []byte(d), false)))
		b := []byte(d)
		randCase(rng, b, 2)
		forms = append(forms, p+string(b))
	}
	return forms
}

func boundaryCase(c *ev.Case) {
	rng := c.Rng
	combo := c.Index % boundaryCombos
	round := c.Index / boundaryCombos
	base := combo%nBases - 1
	bits := combo/nBases - 1
	k := &puChk{c: c}

	ebs := []int{base}
	switch {
	case base == 0:
		ebs = []int{10, 16, 8, 2}
	case base < 2 || base > 36:
		ebs = []int{10, rng.Pick(2, 16, 36)}
	}
	eb64 := bits
	if bits == 0 {
		eb64 = strconv.IntSize
	}
	if eb64 < 1 || eb64 > 64 {
		eb64 = 64
	}
	for _, eb := range ebs {
		bb := big.NewInt(int64(eb))
		max := pow2m1(eb64)
		cut := new(big.Int).Div(pow2m1(64), bb)
		cut.Add(cut, bigOne)
		add := func(list *[]*big.Int, v *big.Int, d int64) {
			x := new(big.Int).Add(v, big.NewInt(d))
			if x.Sign() >= 0 {
				*list = append(*list, x)
			}
		}
		var vals []*big.Int
		for _, d := range []int64{0, 1, int64(eb) - 1, int64(eb), int64(eb) + 1} {
			vals = append(vals, big.NewInt(d))
		}
		for _, d := range []int64{-2, -1, 0, 1, 2, int64(eb) - 1, int64(eb), int64(eb) + 1} {
			add(&vals, max, d)
		}
		c.Add("pu_boundary_max_pm1_values", 3)
		// max*eb .. : one digit more than max
		me := new(big.Int).Mul(max, bb)
		add(&vals, me, 0)
		add(&vals, me, int64(eb)-1)
		add(&vals, new(big.Int).Mul(new(big.Int).Add(max, bigOne), bb), 0)
		// the multiplication cutoff of the uint64 accumulator
		for _, d := range []int64{-1, 0, 1} {
			add(&vals, cut, d)
		}
		cm1 := new(big.Int).Mul(new(big.Int).Sub(cut, bigOne), bb) // (cutoff-1)*base: last product that fits
		ce := new(big.Int).Mul(cut, bb)                            // cutoff*base: first product that does not
		for _, d := range []int64{0, 1, int64(eb) - 1} {
			add(&vals, cm1, d)
			add(&vals, ce, d)
		}
		add(&vals, new(big.Int).Mul(new(big.Int).Add(cut, bigOne), bb), 0)
		c.Add("pu_boundary_cutoff_values", 10)
		// 2^64 neighbourhood
		for _, d := range []int64{-2, -1, 0, 1, int64(eb)} {
			add(&vals, big64, d)
		}
		add(&vals, new(big.Int).Mul(big64, bb), 0)
		add(&vals, new(big.Int).Mul(big64, bb), -1)
		// neighbouring bit sizes
		if eb64 > 1 {
			add(&vals, pow2m1(eb64-1), 0)
			add(&vals, pow2m1(eb64-1), 1)
		}
		if eb64 < 64 {
			add(&vals, pow2m1(eb64+1), 0)
		}
		// repdigits (eb^k - 1) and powers around the digit count of max
		nd := len(max.Text(eb))
		for _, kk := range []int{nd - 1, nd, nd + 1} {
			if kk < 1 {
				continue
			}
			pw := new(big.Int).Exp(bb, big.NewInt(int64(kk)), nil)
			add(&vals, pw, -1)
			add(&vals, pw, 0)
		}
		// random values in [0, 2*max+eb] and [2^64-2^20, 2^64+2^20]
		for i := 0; i < 4+4*min(round, 1); i++ {
			hi := new(big.Int).Lsh(max, 1)
			hi.Add(hi, bb)
			r := new(big.Int).SetUint64(rng.Uint64())
			r.Lsh(r, 2)
			r.Mod(r, hi)
			vals = append(vals, r)
			vals = append(vals, new(big.Int).Add(big64, big.NewInt(int64(rng.Range(-1<<20, 1<<20)))))
		}
		for _, v := range vals {
			d := v.Text(eb)
			for _, s := range decorate(rng, d, eb, base, round) {
				if !k.check(s, base, bits) {
					return
				}
			}
		}
	}
	// a few non-numbers for every (base, bitSize)
	for _, s := range []string{"", "0", "_", "0x", "0X", "0b", "0o", "+1", "-1", " 1", "1 ", "0_", "_0", "0x_", "0_x1", "0x1_", "0x_1", "0_7", "1__0", "z", "Z", "9", "a"} {
		if !k.check(s, base, bits) {
			return
		}
	}
	c.Add("pu_boundary_combos", 1)
	if base >= 2 && base <= 36 && bits >= 0 && bits <= 64 {
		c.Add("pu_boundary_valid_base_bits_combos", 1)
	}
	k.finish(fmt.Sprintf("boundary base=%d bitSize=%d", base, bits))
}

// ------------------------------------------------ exhaustive short strings ----

const shortAlpha = "01789afzF_xXbBoO+-"

var shortBases = []int{0, 2, 8, 10, 16, 36, 1, 37, 11}
var shortBits = []int{0, 8, 64, 3}

// shortCase enumerates every string over shortAlpha that starts with a fixed
// two-character head (or has length < 2) up to the tier's length.
func shortCase(c *ev.Case) {
	k := &puChk{c: c}
	maxLen := 4
	if c.Thorough() {
		maxLen = 5
	}
	A := len(shortAlpha)
	run := func(s string) bool {
		for _, base := range shortBases {
			for _, bits := range shortBits {
				if !k.check(s, base, bits) {
					return false
				}
			}
		}
		return true
	}
	if c.Index >= A*A {
		if !run("") {
			return
		}
		for i := 0; i < A; i++ {
			if !run(shortAlpha[i : i+1]) {
				return
			}
		}
		k.finish("short strings of length 0 and 1")
		return
	}
	head := []byte{shortAlpha[c.Index/A], shortAlpha[c.Index%A]}
	buf := make([]byte, 0, maxLen)
	for l := 0; l <= maxLen-2; l++ {
		total := 1
		for i := 0; i < l; i++ {
			total *= A
		}
		for n := 0; n < total; n++ {
			buf = append(buf[:0], head...)
			x := n
			for i := 0; i < l; i++ {
				buf = append(buf, shortAlpha[x%A])
				x /= A
			}
			if !run(string(buf)) {
				return
			}
		}
	}
	c.Add("pu_short_heads_enumerated", 1)
	k.finish(fmt.Sprintf("all strings over %q with head %q up to length %d, bases %v, bit sizes %v", shortAlpha, head, maxLen, shortBases, shortBits))
}
