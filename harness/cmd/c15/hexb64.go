package main

import (
	"bytes"
	"encoding/base64"
	"encoding/hex"
	"fmt"

	"github.com/welllog/golib/strz"

	"verif/ev"
)

// ------------------------------------------------------------------- hex ----

type hexChk struct {
	c      *ev.Case
	hash   uint64
	n      int
	ne, nd int // encodes / decodes so far (the named-type turn is every 8th of each)
	first  string
}

func (k *hexChk) note(kind byte, b []byte) {
	k.hash = ev.Mix(k.hash, uint64(kind), ev.HashBytes(b))
	k.n++
	if k.n == 1 {
		k.first = fmt.Sprintf("%c %s", kind, clip(b))
	}
}

// encode: HexEncode / HexEncodeToString on both forms vs hex.EncodeToString.
func (k *hexChk) encode(raw []byte) bool {
	c := k.c
	k.note('E', raw)
	want := hex.EncodeToString(raw)
	in := mkInp(raw)
	var gs, gb []byte
	var ss, sb string
	if c.Logging() {
		c.Logf("call HexEncode(%s); encoding/hex -> %s", clip(raw), clipS(want))
	}
	if !c.Guard("HexEncode[string]", func() { gs = strz.HexEncode(in.s) }) ||
		!c.Guard("HexEncode[[]byte]", func() { gb = strz.HexEncode(in.b) }) ||
		!c.Guard("HexEncodeToString[string]", func() { ss = strz.HexEncodeToString(in.s) }) ||
		!c.Guard("HexEncodeToString[[]byte]", func() { sb = strz.HexEncodeToString(in.b) }) {
		return false
	}
	if c.Logging() {
		c.Logf("  strz -> %s / %s / %s / %s", clip(gs), clip(gb), clipS(ss), clipS(sb))
	}
	for i, g := range []string{string(gs), string(gb), ss, sb} {
		if g != want {
			c.Failf("hex-encode", "%s(%s) = %s, encoding/hex gives %s",
				[]string{"HexEncode[string]", "HexEncode[[]byte]", "HexEncodeToString[string]", "HexEncodeToString[[]byte]"}[i], clip(raw), clipS(g), clipS(want))
			return false
		}
	}
	// named string / byte-slice types: every 8th encode (counted separately from
	// the decodes, which alternate with the encodes in most engines)
	k.ne++
	if k.ne%8 == 0 {
		var g1, g2 []byte
		var s1, s2 string
		if !c.Guard("HexEncode[myStr]", func() { g1 = strz.HexEncode(myStr(in.s)) }) ||
			!c.Guard("HexEncode[myBytes]", func() { g2 = strz.HexEncode(myBytes(in.b)) }) ||
			!c.Guard("HexEncodeToString[myStr]", func() { s1 = strz.HexEncodeToString(myStr(in.s)) }) ||
			!c.Guard("HexEncodeToString[myBytes]", func() { s2 = strz.HexEncodeToString(myBytes(in.b)) }) {
			return false
		}
		if string(g1) != want || string(g2) != want || s1 != want || s2 != want {
			c.Failf("hex-encode", "HexEncode / HexEncodeToString on named types (%s) = %s / %s / %s / %s, encoding/hex gives %s", clip(raw), clip(g1), clip(g2), clipS(s1), clipS(s2), clipS(want))
			return false
		}
		c.Add("hex_named_type_encode_calls", 4)
	}
	c.Add("hex_encode_inputs", 1)
	if len(raw) == 0 {
		c.Add("hex_encode_empty_inputs", 1)
	}
	return in.intact(c, "HexEncode/HexEncodeToString")
}

// strBytes turns the (string, error) of a ...ToString routine into the
// ([]byte, error) the comparison loop works on.
func strBytes(s string, err error) ([]byte, error) { return []byte(s), err }

func sameErr(got, want error) (presence, text bool) {
	if (got != nil) != (want != nil) {
		return false, false
	}
	if got != nil && got.Error() != want.Error() {
		return true, false
	}
	return true, true
}

// decode: HexDecode / HexDecodeToString on both forms and HexDecodeInPlace vs encoding/hex.
func (k *hexChk) decode(src []byte) bool {
	c := k.c
	k.note('D', src)
	want, werr := hex.DecodeString(string(src))
	in := mkInp(src)
	if c.Logging() {
		c.Logf("call HexDecode(%s); encoding/hex -> (%s, %v)", clip(src), clip(want), werr)
	}
	type res struct {
		name string
		b    []byte
		err  error
	}
	var rs []res
	call := func(name string, f func() ([]byte, error)) bool {
		r := res{name: name}
		if !c.Guard(name, func() { r.b, r.err = f() }) {
			return false
		}
		rs = append(rs, r)
		return true
	}
	if !call("HexDecode[string]", func() ([]byte, error) { return strz.HexDecode(in.s) }) ||
		!call("HexDecode[[]byte]", func() ([]byte, error) { return strz.HexDecode(in.b) }) ||
		!call("HexDecodeToString[string]", func() ([]byte, error) { return strBytes(strz.HexDecodeToString(in.s)) }) ||
		!call("HexDecodeToString[[]byte]", func() ([]byte, error) { return strBytes(strz.HexDecodeToString(in.b)) }) {
		return false
	}
	k.nd++
	if k.nd%8 == 0 {
		if !call("HexDecode[myStr]", func() ([]byte, error) { return strz.HexDecode(myStr(in.s)) }) ||
			!call("HexDecode[myBytes]", func() ([]byte, error) { return strz.HexDecode(myBytes(in.b)) }) ||
			!call("HexDecodeToString[myStr]", func() ([]byte, error) { return strBytes(strz.HexDecodeToString(myStr(in.s))) }) ||
			!call("HexDecodeToString[myBytes]", func() ([]byte, error) { return strBytes(strz.HexDecodeToString(myBytes(in.b))) }) {
			return false
		}
		c.Add("hex_named_type_decode_calls", 4)
	}
	for _, r := range rs {
		if c.Logging() {
			c.Logf("  %s -> (%s, %v)", r.name, clip(r.b), r.err)
		}
		p, t := sameErr(r.err, werr)
		if !p {
			c.Failf("hex-decode-err", "%s(%s) = (%s, %v), encoding/hex gives (%s, %v): error presence differs", r.name, clip(src), clip(r.b), r.err, clip(want), werr)
			return false
		}
		if !t {
			c.Failf("hex-decode-errtext", "%s(%s) error %q, encoding/hex error %q", r.name, clip(src), errStr(r.err), errStr(werr))
			return false
		}
		if !bytes.Equal(r.b, want) {
			c.Failf("hex-decode-prefix", "%s(%s) = (%s, %v), encoding/hex gives (%s, %v): decoded bytes differ", r.name, clip(src), clip(r.b), r.err, clip(want), werr)
			return false
		}
	}
	if !in.intact(c, "HexDecode/HexDecodeToString") {
		return false
	}
	// in place (this one may overwrite its argument)
	buf := append(make([]byte, 0, len(src)), src...)
	ref := make([]byte, len(src)/2+1)
	rn, rerr := hex.Decode(ref, append([]byte(nil), src...))
	var n int
	var err error
	if !c.Guard("HexDecodeInPlace", func() { n, err = strz.HexDecodeInPlace(buf) }) {
		return false
	}
	if c.Logging() {
		c.Logf("  HexDecodeInPlace -> (%d, %v), buffer now %s; hex.Decode -> (%d, %v)", n, err, clip(buf), rn, rerr)
	}
	p, t := sameErr(err, rerr)
	if !p {
		c.Failf("hex-inplace-err", "HexDecodeInPlace(%s) = (%d, %v), hex.Decode gives (%d, %v): error presence differs", clip(src), n, err, rn, rerr)
		return false
	}
	if !t {
		c.Failf("hex-inplace-errtext", "HexDecodeInPlace(%s) error %q, hex.Decode error %q", clip(src), errStr(err), errStr(rerr))
		return false
	}
	if n != rn {
		c.Failf("hex-inplace-n", "HexDecodeInPlace(%s) = (%d, %v), hex.Decode gives (%d, %v)", clip(src), n, err, rn, rerr)
		return false
	}
	if n < 0 || n > len(buf) || !bytes.Equal(buf[:n], ref[:rn]) {
		c.Failf("hex-inplace-prefix", "HexDecodeInPlace(%s) left %s in the first %d bytes, hex.Decode gives %s", clip(src), clip(buf), n, clip(ref[:rn]))
		return false
	}
	// coverage
	c.Add("hex_decode_inputs", 1)
	c.Add("hex_inplace_calls", 1)
	if len(src) == 0 {
		c.Add("hex_decode_empty_inputs", 1)
	}
	switch {
	case werr == nil:
		c.Add("hex_decode_ok", 1)
	case werr == hex.ErrLength:
		c.Add("hex_decode_err_length", 1)
	default:
		c.Add("hex_decode_err_invalid_byte", 1)
		if len(src)%2 == 1 {
			c.Add("hex_decode_odd_len_and_invalid_byte", 1)
			if len(want) == len(src)/2 {
				c.Add("hex_decode_invalid_byte_is_odd_tail", 1)
			}
		}
		if len(want) > 0 {
			c.Add("hex_decode_err_with_nonempty_prefix", 1)
		}
	}
	return true
}

func (k *hexChk) finish(kind string) {
	if k.n > 0 {
		k.c.Distinct(k.hash)
	}
	if k.c.WantSample() {
		k.c.Sample(fmt.Sprintf("%s: %d inputs compared with encoding/hex, first = %s", kind, k.n, k.first))
	}
}

// characters just outside / inside the three accepted ranges, and friends
var hexEdgeChars = []byte{'/', '0', '9', ':', '@', 'A', 'F', 'G', '`', 'a', 'f', 'g', 'x', 'X', ' ', '\n', 0x00, 0x7f, 0x80, 0xff, 'O', 'l', '_', '-'}
var hexBadChars = []byte{'/', ':', '@', 'G', '`', 'g', 'x', 'X', ' ', '\n', 0x00, 0x7f, 0x80, 0xe4, 0xff, 'O', 'l', '_', '-', 'z', 'Z', '.'}

func randHexString(rng *ev.Rand, n int) []byte {
	const up = "0123456789ABCDEF"
	const lo = "0123456789abcdef"
	b := make([]byte, n)
	mode := rng.Intn(3)
	for i := range b {
		d := rng.Intn(16)
		switch {
		case mode == 0, mode == 2 && rng.Bool():
			b[i] = lo[d]
		default:
			b[i] = up[d]
		}
	}
	return b
}

func hexRandomCase(c *ev.Case) {
	rng := c.Rng
	k := &hexChk{c: c}
	for i := 0; i < 60; i++ {
		// encode arbitrary bytes
		n := rng.Pick(0, 1, 2, 3, 7, 16, 31, 32, 33, 64, 100, 255, 300)
		if rng.Bool() {
			n = rng.Range(0, 40)
		}
		var raw []byte
		switch rng.Intn(6) {
		case 0:
			raw = bytes.Repeat([]byte{byte(rng.Pick(0, 0x0f, 0x10, 0x7f, 0x80, 0xf0, 0xff, 0x9a, 0xa9))}, n)
		case 1:
			raw = make([]byte, n)
			for j := range raw {
				raw[j] = byte(i*31 + j) // all byte values over a few inputs
			}
		default:
			raw = rng.Bytes(n)
		}
		if n == 0 && rng.Bool() {
			raw = nil
		}
		if !k.encode(raw) {
			return
		}
		// decode: valid text, then mutated
		m := rng.Range(0, 24)
		if rng.Chance(1, 10) {
			m = rng.Range(25, 600)
		}
		src := randHexString(rng, m)
		switch rng.Intn(8) {
		case 0, 1: // as is (odd or even)
		case 2, 3, 4: // one invalid byte
			if m > 0 {
				src[rng.Intn(m)] = hexBadChars[rng.Intn(len(hexBadChars))]
			}
		case 5: // two invalid bytes
			if m > 0 {
				src[rng.Intn(m)] = hexBadChars[rng.Intn(len(hexBadChars))]
				src[rng.Intn(m)] = hexBadChars[rng.Intn(len(hexBadChars))]
			}
		case 6: // invalid byte exactly at the odd tail / at the last pair
			if m > 0 {
				p := m - 1 - rng.Intn(min(m, 3))
				src[p] = hexBadChars[rng.Intn(len(hexBadChars))]
			}
		default: // edge characters sprinkled
			for j := range src {
				if rng.Chance(1, 6) {
					src[j] = hexEdgeChars[rng.Intn(len(hexEdgeChars))]
				}
			}
		}
		if !k.decode(src) {
			return
		}
	}
	k.finish("hex random")
}

// hexPositionsCase: for one length L (1..32) every position x every byte value,
// and every pair of positions with invalid bytes (error precedence).
func hexPositionsCase(c *ev.Case) {
	rng := c.Rng
	k := &hexChk{c: c}
	L := c.Index%32 + 1
	base := randHexString(rng, L)
	src := make([]byte, L)
	for p := 0; p < L; p++ {
		for v := 0; v < 256; v++ {
			copy(src, base)
			src[p] = byte(v)
			if !k.decode(src) {
				return
			}
		}
	}
	c.Add("hex_positions_x_all_bytes", int64(L*256))
	if L <= 16 {
		for p := 0; p < L; p++ {
			for q := p + 1; q < L; q++ {
				for _, a := range []byte{'g', 'G', '@', 0xff} {
					for _, b := range []byte{'/', ':', '`', 0x00} {
						copy(src, base)
						src[p], src[q] = a, b
						if !k.decode(src) {
							return
						}
					}
				}
			}
		}
		c.Add("hex_invalid_pairs_lengths", 1)
	}
	// all 256 single bytes and all 65536 two-byte strings once (index 0 and 1)
	if c.Index == 0 {
		for v := 0; v < 65536; v++ {
			if !k.decode([]byte{byte(v >> 8), byte(v)}) {
				return
			}
		}
		c.Add("hex_all_two_byte_strings", 1)
	}
	if c.Index == 1 {
		// every byte value through the encoder, singly and in one 256-byte block
		all := make([]byte, 256)
		for v := 0; v < 256; v++ {
			all[v] = byte(v)
			if !k.encode([]byte{byte(v)}) {
				return
			}
		}
		if !k.encode(all) {
			return
		}
		c.Add("hex_all_byte_values_encoded", 1)
	}
	k.finish(fmt.Sprintf("hex positions, length %d", L))
}

// ---------------------------------------------------------------- base64 ----

type b64Enc struct {
	name string
	enc  *base64.Encoding
}

var b64Encs = []b64Enc{
	{"StdEncoding", base64.StdEncoding},
	{"URLEncoding", base64.URLEncoding},
	{"RawStdEncoding", base64.RawStdEncoding},
	{"RawURLEncoding", base64.RawURLEncoding},
	{"StdEncoding.Strict()", base64.StdEncoding.Strict()},
	{"RawURLEncoding.Strict()", base64.RawURLEncoding.Strict()},
	{"StdEncoding.WithPadding('*')", base64.StdEncoding.WithPadding('*')},
}

type b64Chk struct {
	c      *ev.Case
	hash   uint64
	n      int
	ne, nd int // encodes / decodes so far (the named-type turn is every 8th of each)
	first  string
}

func (k *b64Chk) note(kind byte, e int, b []byte) {
	k.hash = ev.Mix(k.hash, uint64(kind), uint64(e), ev.HashBytes(b))
	k.n++
	if k.n == 1 {
		k.first = fmt.Sprintf("%c %s %s", kind, b64Encs[e].name, clip(b))
	}
}

func (k *b64Chk) encode(e int, raw []byte) bool {
	c := k.c
	k.note('E', e, raw)
	enc := b64Encs[e].enc
	want := enc.EncodeToString(raw)
	in := mkInp(raw)
	if c.Logging() {
		c.Logf("call Base64Encode(%s, %s); encoding/base64 -> %s", clip(raw), b64Encs[e].name, clipS(want))
	}
	var gs, gb []byte
	var ss, sb string
	if !c.Guard("Base64Encode[string]", func() { gs = strz.Base64Encode(in.s, enc) }) ||
		!c.Guard("Base64Encode[[]byte]", func() { gb = strz.Base64Encode(in.b, enc) }) ||
		!c.Guard("Base64EncodeToString[string]", func() { ss = strz.Base64EncodeToString(in.s, enc) }) ||
		!c.Guard("Base64EncodeToString[[]byte]", func() { sb = strz.Base64EncodeToString(in.b, enc) }) {
		return false
	}
	for i, g := range []string{string(gs), string(gb), ss, sb} {
		if g != want {
			c.Failf("base64-encode", "%s(%s, %s) = %s, encoding/base64 gives %s",
				[]string{"Base64Encode[string]", "Base64Encode[[]byte]", "Base64EncodeToString[string]", "Base64EncodeToString[[]byte]"}[i], clip(raw), b64Encs[e].name, clipS(g), clipS(want))
			return false
		}
	}
	k.ne++
	if k.ne%8 == 0 {
		var g1, g2 []byte
		var s1, s2 string
		if !c.Guard("Base64Encode[myStr]", func() { g1 = strz.Base64Encode(myStr(in.s), enc) }) ||
			!c.Guard("Base64Encode[myBytes]", func() { g2 = strz.Base64Encode(myBytes(in.b), enc) }) ||
			!c.Guard("Base64EncodeToString[myStr]", func() { s1 = strz.Base64EncodeToString(myStr(in.s), enc) }) ||
			!c.Guard("Base64EncodeToString[myBytes]", func() { s2 = strz.Base64EncodeToString(myBytes(in.b), enc) }) {
			return false
		}
		if string(g1) != want || string(g2) != want || s1 != want || s2 != want {
			c.Failf("base64-encode", "Base64Encode / Base64EncodeToString on named types (%s, %s) = %s / %s / %s / %s, encoding/base64 gives %s", clip(raw), b64Encs[e].name, clip(g1), clip(g2), clipS(s1), clipS(s2), clipS(want))
			return false
		}
		c.Add("b64_named_type_encode_calls", 4)
	}
	c.Add("b64_encode_inputs", 1)
	if len(raw) == 0 {
		c.Add("b64_encode_empty_inputs", 1)
	}
	c.Add("b64_enc/"+b64Encs[e].name, 1)
	return in.intact(c, "Base64Encode/Base64EncodeToString")
}

func (k *b64Chk) decode(e int, src []byte) bool {
	c := k.c
	k.note('D', e, src)
	enc := b64Encs[e].enc
	want, werr := enc.DecodeString(string(src))
	in := mkInp(src)
	if c.Logging() {
		c.Logf("call Base64Decode(%s, %s); encoding/base64 -> (%s, %v)", clip(src), b64Encs[e].name, clip(want), werr)
	}
	type res struct {
		name string
		b    []byte
		err  error
	}
	var rs []res
	call := func(name string, f func() ([]byte, error)) bool {
		r := res{name: name}
		if !c.Guard(name, func() { r.b, r.err = f() }) {
			return false
		}
		rs = append(rs, r)
		return true
	}
	if !call("Base64Decode[string]", func() ([]byte, error) { return strz.Base64Decode(in.s, enc) }) ||
		!call("Base64Decode[[]byte]", func() ([]byte, error) { return strz.Base64Decode(in.b, enc) }) ||
		!call("Base64DecodeToString[string]", func() ([]byte, error) { return strBytes(strz.Base64DecodeToString(in.s, enc)) }) ||
		!call("Base64DecodeToString[[]byte]", func() ([]byte, error) { return strBytes(strz.Base64DecodeToString(in.b, enc)) }) {
		return false
	}
	k.nd++
	if k.nd%8 == 0 {
		if !call("Base64Decode[myStr]", func() ([]byte, error) { return strz.Base64Decode(myStr(in.s), enc) }) ||
			!call("Base64Decode[myBytes]", func() ([]byte, error) { return strz.Base64Decode(myBytes(in.b), enc) }) ||
			!call("Base64DecodeToString[myStr]", func() ([]byte, error) { return strBytes(strz.Base64DecodeToString(myStr(in.s), enc)) }) ||
			!call("Base64DecodeToString[myBytes]", func() ([]byte, error) { return strBytes(strz.Base64DecodeToString(myBytes(in.b), enc)) }) {
			return false
		}
		c.Add("b64_named_type_decode_calls", 4)
	}
	for _, r := range rs {
		if c.Logging() {
			c.Logf("  %s -> (%s, %v)", r.name, clip(r.b), r.err)
		}
		p, t := sameErr(r.err, werr)
		if !p {
			c.Failf("base64-decode-err", "%s(%s, %s) = (%s, %v), encoding/base64 gives (%s, %v): error presence differs", r.name, clip(src), b64Encs[e].name, clip(r.b), r.err, clip(want), werr)
			return false
		}
		if !t {
			c.Failf("base64-decode-errtext", "%s(%s, %s) error %q, encoding/base64 error %q", r.name, clip(src), b64Encs[e].name, errStr(r.err), errStr(werr))
			return false
		}
		if !bytes.Equal(r.b, want) {
			c.Failf("base64-decode-prefix", "%s(%s, %s) = (%s, %v), encoding/base64 gives (%s, %v): decoded bytes differ", r.name, clip(src), b64Encs[e].name, clip(r.b), r.err, clip(want), werr)
			return false
		}
	}
	c.Add("b64_decode_inputs", 1)
	if len(src) == 0 {
		c.Add("b64_decode_empty_inputs", 1)
	}
	if werr == nil {
		c.Add("b64_decode_ok", 1)
	} else {
		c.Add("b64_decode_err", 1)
		if len(want) > 0 {
			c.Add("b64_decode_err_with_nonempty_prefix", 1)
		}
	}
	return in.intact(c, "Base64Decode/Base64DecodeToString")
}

var b64Junk = []byte{'-', '_', '+', '/', '=', '*', '\n', '\r', ' ', 0x00, 0x80, 0xff, '.', 'A', '!'}

func base64Case(c *ev.Case) {
	rng := c.Rng
	k := &b64Chk{c: c}
	for i := 0; i < 40; i++ {
		e := rng.Intn(len(b64Encs))
		if rng.Chance(2, 3) {
			e = rng.Intn(4) // the four standard encodings carry most of the weight
		}
		n := rng.Range(0, 12)
		switch rng.Intn(5) {
		case 0:
			n = rng.Range(0, 300)
		case 1:
			n = rng.Pick(0, 1, 2, 3, 4, 5, 6, 57, 58, 59, 255, 256, 300)
		}
		raw := rng.Bytes(n)
		if rng.Chance(1, 6) {
			for j := range raw {
				raw[j] = byte(rng.Pick(0xfb, 0xff, 0xfe, 0x3e, 0x3f, 0xef, 0xbf)) // produce + / - _ in the text
			}
		}
		if n == 0 && rng.Bool() {
			raw = nil
		}
		if !k.encode(e, raw) {
			return
		}
		txt := []byte(b64Encs[e].enc.EncodeToString(raw))
		// sometimes decode with a different encoding than it was written in
		if rng.Chance(1, 5) {
			e = rng.Intn(len(b64Encs))
		}
		switch rng.Intn(10) {
		case 0, 1, 2: // as is
		case 3: // truncated
			if len(txt) > 0 {
				txt = txt[:len(txt)-rng.Range(1, min(len(txt), 3))]
			}
		case 4: // one byte replaced
			if len(txt) > 0 {
				txt[rng.Intn(len(txt))] = b64Junk[rng.Intn(len(b64Junk))]
			}
		case 5: // byte inserted
			p := rng.Intn(len(txt) + 1)
			txt = append(txt[:p:p], append([]byte{b64Junk[rng.Intn(len(b64Junk))]}, txt[p:]...)...)
		case 6: // padding added / doubled
			txt = append(txt, bytes.Repeat([]byte{'='}, rng.Range(1, 3))...)
		case 7: // newlines inside (ignored by the decoder)
			var o []byte
			for j, ch := range txt {
				o = append(o, ch)
				if j%rng.Range(1, 9) == 0 {
					o = append(o, "\n\r"[rng.Intn(2)])
				}
			}
			txt = o
		case 8: // trailing bits not zero (matters for Strict), or junk after the padding
			if len(txt) > 1 {
				p := len(txt) - 1
				for p > 0 && (txt[p] == '=' || txt[p] == '*') {
					p--
				}
				txt[p] = "BCDFghQRz9"[rng.Intn(10)]
			}
			if rng.Chance(1, 3) {
				txt = append(txt, 'A')
			}
		default: // random junk
			txt = rng.Bytes(rng.Range(0, 9))
		}
		if !k.decode(e, txt) {
			return
		}
	}
	if k.n > 0 {
		c.Distinct(k.hash)
	}
	if c.WantSample() {
		c.Sample(fmt.Sprintf("base64: %d inputs compared with encoding/base64, first = %s", k.n, k.first))
	}
}
