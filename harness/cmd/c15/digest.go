package main

import (
	"bytes"
	"crypto/hmac"
	"crypto/md5"
	"crypto/sha1"
	"crypto/sha256"
	"crypto/sha512"
	"encoding/hex"
	"fmt"
	"hash"
	"io"
	"strings"

	"github.com/welllog/golib/hashz"

	"verif/ev"
)

type digestFn struct {
	name   string
	newH   func() hash.Hash
	s      func(string) []byte
	b      func([]byte) []byte
	ms     func(myStr) []byte
	mb     func(myBytes) []byte
	ss     func(string) string
	bs     func([]byte) string
	mss    func(myStr) string
	mbs    func(myBytes) string
	stream func(io.Reader) ([]byte, error)
}

var digests = []digestFn{
	{"Md5", md5.New, hashz.Md5[string], hashz.Md5[[]byte], hashz.Md5[myStr], hashz.Md5[myBytes], hashz.Md5ToString[string], hashz.Md5ToString[[]byte], hashz.Md5ToString[myStr], hashz.Md5ToString[myBytes], hashz.Md5Stream},
	{"Sha1", sha1.New, hashz.Sha1[string], hashz.Sha1[[]byte], hashz.Sha1[myStr], hashz.Sha1[myBytes], hashz.Sha1ToString[string], hashz.Sha1ToString[[]byte], hashz.Sha1ToString[myStr], hashz.Sha1ToString[myBytes], hashz.Sha1Stream},
	{"Sha224", sha256.New224, hashz.Sha224[string], hashz.Sha224[[]byte], hashz.Sha224[myStr], hashz.Sha224[myBytes], hashz.Sha224ToString[string], hashz.Sha224ToString[[]byte], hashz.Sha224ToString[myStr], hashz.Sha224ToString[myBytes], hashz.Sha224Stream},
	{"Sha256", sha256.New, hashz.Sha256[string], hashz.Sha256[[]byte], hashz.Sha256[myStr], hashz.Sha256[myBytes], hashz.Sha256ToString[string], hashz.Sha256ToString[[]byte], hashz.Sha256ToString[myStr], hashz.Sha256ToString[myBytes], hashz.Sha256Stream},
	{"Sha384", sha512.New384, hashz.Sha384[string], hashz.Sha384[[]byte], hashz.Sha384[myStr], hashz.Sha384[myBytes], hashz.Sha384ToString[string], hashz.Sha384ToString[[]byte], hashz.Sha384ToString[myStr], hashz.Sha384ToString[myBytes], hashz.Sha384Stream},
	{"Sha512", sha512.New, hashz.Sha512[string], hashz.Sha512[[]byte], hashz.Sha512[myStr], hashz.Sha512[myBytes], hashz.Sha512ToString[string], hashz.Sha512ToString[[]byte], hashz.Sha512ToString[myStr], hashz.Sha512ToString[myBytes], hashz.Sha512Stream},
	{"Sha512_224", sha512.New512_224, hashz.Sha512_224[string], hashz.Sha512_224[[]byte], hashz.Sha512_224[myStr], hashz.Sha512_224[myBytes], hashz.Sha512_224ToString[string], hashz.Sha512_224ToString[[]byte], hashz.Sha512_224ToString[myStr], hashz.Sha512_224ToString[myBytes], nil},
	{"Sha512_256", sha512.New512_256, hashz.Sha512_256[string], hashz.Sha512_256[[]byte], hashz.Sha512_256[myStr], hashz.Sha512_256[myBytes], hashz.Sha512_256ToString[string], hashz.Sha512_256ToString[[]byte], hashz.Sha512_256ToString[myStr], hashz.Sha512_256ToString[myBytes], nil},
}

// refDigest is the lower-case hex of the crypto/* digest, computed through
// the hash.Hash interface in two writes.
func refDigest(newH func() hash.Hash, data []byte) string {
	h := newH()
	half := len(data) / 2
	h.Write(data[:half])
	h.Write(data[half:])
	return hex.EncodeToString(h.Sum(nil))
}

// readers for the stream helpers -------------------------------------------

// chunkReader hands out at most k bytes per Read and has no WriteTo, so
// io.Copy really loops; eofWithData returns io.EOF together with the last
// bytes; zeroReads makes every third Read return (0, nil).
type chunkReader struct {
	data        []byte
	k           int
	eofWithData bool
	zeroReads   bool
	calls       int
}

// failingReader delivers its data in chunks of k and then returns a non-EOF error.
type failingReader struct {
	data []byte
	k    int
}

func (r *failingReader) Read(p []byte) (int, error) {
	if len(r.data) == 0 {
		return 0, fmt.Errorf("injected read fault")
	}
	n := r.k
	if n > len(r.data) {
		n = len(r.data)
	}
	if n > len(p) {
		n = len(p)
	}
	copy(p, r.data[:n])
	r.data = r.data[n:]
	return n, nil
}

func (r *chunkReader) Read(p []byte) (int, error) {
	r.calls++
	if r.calls > 1<<22 {
		return 0, fmt.Errorf("harness: reader polled too often")
	}
	if r.zeroReads && r.calls%3 == 0 && len(r.data) > 0 {
		return 0, nil
	}
	if len(r.data) == 0 {
		return 0, io.EOF
	}
	n := r.k
	if n > len(r.data) {
		n = len(r.data)
	}
	if n > len(p) {
		n = len(p)
	}
	copy(p, r.data[:n])
	r.data = r.data[n:]
	if len(r.data) == 0 && r.eofWithData {
		return n, io.EOF
	}
	return n, nil
}

func digestCase(c *ev.Case) {
	rng := c.Rng
	// lengths 0..300 are swept by the index; content is random
	L := c.Index % 301
	data := rng.Bytes(L)
	switch rng.Intn(8) {
	case 0:
		for i := range data {
			data[i] = 0
		}
	case 1:
		for i := range data {
			data[i] = byte('a' + i%26)
		}
	}
	if L == 0 && rng.Bool() {
		data = nil
	}
	h := ev.Mix(ev.HashBytes(data), uint64(L))
	in := mkInp(data)
	checked := 0
	for di, d := range digests {
		want := refDigest(d.newH, data)
		if c.Logging() {
			c.Logf("call %s(%s); crypto -> %s", d.name, clip(data), want)
		}
		var g [8]string
		var gs, gb, gms, gmb []byte
		if !c.Guard(d.name+"[string]", func() { gs = d.s(in.s) }) ||
			!c.Guard(d.name+"[[]byte]", func() { gb = d.b(in.b) }) ||
			!c.Guard(d.name+"[myStr]", func() { gms = d.ms(myStr(in.s)) }) ||
			!c.Guard(d.name+"[myBytes]", func() { gmb = d.mb(myBytes(in.b)) }) ||
			!c.Guard(d.name+"ToString[string]", func() { g[4] = d.ss(in.s) }) ||
			!c.Guard(d.name+"ToString[[]byte]", func() { g[5] = d.bs(in.b) }) ||
			!c.Guard(d.name+"ToString[myStr]", func() { g[6] = d.mss(myStr(in.s)) }) ||
			!c.Guard(d.name+"ToString[myBytes]", func() { g[7] = d.mbs(myBytes(in.b)) }) {
			return
		}
		g[0], g[1], g[2], g[3] = string(gs), string(gb), string(gms), string(gmb)
		names := []string{"[string]", "[[]byte]", "[myStr]", "[myBytes]", "ToString[string]", "ToString[[]byte]", "ToString[myStr]", "ToString[myBytes]"}
		for i := range g {
			if g[i] != want {
				c.Failf("digest/"+d.name, "hashz.%s%s(%s) = %q, hex of crypto digest = %q", d.name, names[i], clip(data), g[i], want)
				return
			}
		}
		checked += 8
		c.Add("digest_oneshot_calls", 8)
		c.Add("digest_named_type_calls", 4)
		c.Add("digest_oneshot/"+d.name, 8)
		if L == 0 {
			c.Add("digest_empty_inputs", 1)
		}
		if !in.intact(c, "hashz."+d.name) {
			return
		}
		// stream form
		if d.stream != nil {
			type rd struct {
				name string
				r    io.Reader
			}
			k := rng.Pick(1, 2, 3, 7, 63, 64, 65, 127, 128, 129, 1000)
			readers := []rd{
				{"bytes.Reader", bytes.NewReader(in.b)},
				{"strings.Reader", strings.NewReader(in.s)},
				{fmt.Sprintf("chunk(%d)", k), &chunkReader{data: in.b, k: k}},
				{fmt.Sprintf("chunk(%d)+EOF-with-data", k), &chunkReader{data: in.b, k: k, eofWithData: true}},
				{"chunk(1)", &chunkReader{data: in.b, k: 1}},
				{fmt.Sprintf("chunk(%d)+zero-reads", k), &chunkReader{data: in.b, k: k, zeroReads: true}},
			}
			// standard readers handed over as they are, part of them already consumed: their
			// Size / Len / Seek / N describe more than (or something else than) what remains
			readers = append(readers, consumedReader(rng, in.b, (c.Index+di)%5))
			c.Add("stream_partly_consumed_standard_reader", 1)
			for ri, r := range readers {
				var got []byte
				var err error
				if (ri+c.Index)%2 == 0 {
					// fault sequence: a stream that fails part-way (its result is not
					// judged) must not influence the digest of the next, healthy stream
					junk := rng.Bytes(rng.Pick(1, 5, 64, 100, 300))
					fr := &failingReader{data: junk, k: rng.Pick(1, 7, 64)}
					if !c.Guard(d.name+"Stream", func() { _, _ = d.stream(fr) }) {
						return
					}
					if c.Logging() {
						c.Logf("  %sStream(reader failing after %d bytes) -> not judged", d.name, len(junk))
					}
					c.Add("digest_stream_after_failed_stream", 1)
				}
				if !c.Guard(d.name+"Stream", func() { got, err = d.stream(r.r) }) {
					return
				}
				if c.Logging() {
					c.Logf("  %sStream(%s) -> (%q, %v)", d.name, r.name, got, err)
				}
				if string(got) != want || err != nil {
					c.Failf("stream/"+d.name, "hashz.%sStream(%s over %s) = (%q, %v), hex of crypto digest = %q", d.name, r.name, clip(data), got, err, want)
					return
				}
				c.Add("digest_stream_calls", 1)
				c.Add("digest_stream/"+d.name, 1)
				checked++
			}
			if !in.intact(c, "hashz."+d.name+"Stream") {
				return
			}
		}
	}
	// HMAC: key lengths around the block sizes (64 / 128), every key/data type combination
	nh := 3
	for t := 0; t < nh; t++ {
		d := digests[(c.Index+t*3+rng.Intn(2))%len(digests)]
		kl := rng.Pick(0, 1, 16, 32, 63, 64, 65, 127, 128, 129, 200)
		if rng.Bool() {
			kl = rng.Range(0, 200)
		}
		key := rng.Bytes(kl)
		if rng.Chance(1, 4) { // a key that reads as hex digits / base64 is used as it is
			alpha := rng.PickStr("0123456789abcdef", "0123456789ABCDEF", "ABCDEFGHIJKLMNOPQRSTUVWXYZabcdefghijklmnopqrstuvwxyz0123456789+/=")
			for i := range key {
				key[i] = alpha[rng.Intn(len(alpha))]
			}
			c.Add("hmac_key_reads_as_an_encoding", 1)
		}
		kin := mkInp(key)
		h = ev.Mix(h, ev.HashBytes(key), ev.HashString(d.name))
		m := hmac.New(d.newH, key)
		m.Write(data)
		want := hex.EncodeToString(m.Sum(nil))
		if c.Logging() {
			c.Logf("call Hmac(key=%s, data=%s, %s); crypto/hmac -> %s", clip(key), clip(data), d.name, want)
		}
		var g [10]string
		var b0, b1, b2, b3, b8 []byte
		if !c.Guard("Hmac[string,string]", func() { b0 = hashz.Hmac(kin.s, in.s, d.newH) }) ||
			!c.Guard("Hmac[string,[]byte]", func() { b1 = hashz.Hmac(kin.s, in.b, d.newH) }) ||
			!c.Guard("Hmac[[]byte,string]", func() { b2 = hashz.Hmac(kin.b, in.s, d.newH) }) ||
			!c.Guard("Hmac[[]byte,[]byte]", func() { b3 = hashz.Hmac(kin.b, in.b, d.newH) }) ||
			!c.Guard("HmacToString[string,string]", func() { g[4] = hashz.HmacToString(kin.s, in.s, d.newH) }) ||
			!c.Guard("HmacToString[string,[]byte]", func() { g[5] = hashz.HmacToString(kin.s, in.b, d.newH) }) ||
			!c.Guard("HmacToString[[]byte,string]", func() { g[6] = hashz.HmacToString(kin.b, in.s, d.newH) }) ||
			!c.Guard("HmacToString[myBytes,myStr]", func() { g[7] = hashz.HmacToString(myBytes(kin.b), myStr(in.s), d.newH) }) ||
			!c.Guard("Hmac[myStr,myBytes]", func() { b8 = hashz.Hmac(myStr(kin.s), myBytes(in.b), d.newH) }) ||
			!c.Guard("HmacToString[[]byte,[]byte]", func() { g[9] = hashz.HmacToString(kin.b, in.b, d.newH) }) {
			return
		}
		g[0], g[1], g[2], g[3], g[8] = string(b0), string(b1), string(b2), string(b3), string(b8)
		names := []string{"Hmac[string,string]", "Hmac[string,[]byte]", "Hmac[[]byte,string]", "Hmac[[]byte,[]byte]",
			"HmacToString[string,string]", "HmacToString[string,[]byte]", "HmacToString[[]byte,string]", "HmacToString[myBytes,myStr]",
			"Hmac[myStr,myBytes]", "HmacToString[[]byte,[]byte]"}
		for i := range g {
			if g[i] != want {
				c.Failf("hmac", "hashz.%s(key=%s, data=%s, %s) = %q, hex of crypto/hmac = %q", names[i], clip(key), clip(data), d.name, g[i], want)
				return
			}
		}
		c.Add("hmac_calls", 10)
		c.Add("hmac_named_type_calls", 2)
		c.Add("hmac_hash/"+d.name, 1)
		if kl == 0 {
			c.Add("hmac_empty_key", 1)
		}
		if kl > d.newH().BlockSize() {
			c.Add("hmac_key_longer_than_block", 1)
		}
		checked += 10
		if !in.intact(c, "hashz.Hmac (data)") || !kin.intact(c, "hashz.Hmac (key)") {
			return
		}
	}
	if L > 0 {
		c.Distinct(h)
	}
	c.Max("digest_max_len", int64(L))
	if c.WantSample() {
		c.Sample(fmt.Sprintf("digest: %d-byte input %s, %d results compared with crypto/* (8 one-shot digests x 8 forms, 6 stream helpers x 6 readers, 3 HMACs x 10 forms)", L, clip(data), checked))
	}
}

// consumedReader: a standard-library reader from which exactly data remains to be read.
func consumedReader(rng *ev.Rand, data []byte, kind int) struct {
	name string
	r    io.Reader
} {
	type rd = struct {
		name string
		r    io.Reader
	}
	pre := rng.Bytes(rng.Pick(1, 7, 64, 300))
	all := append(append([]byte{}, pre...), data...)
	skip := func(r io.Reader) {
		if _, err := io.ReadFull(r, make([]byte, len(pre))); err != nil {
			panic("harness: " + err.Error())
		}
	}
	switch kind {
	case 0:
		r := bytes.NewReader(all)
		skip(r)
		return rd{fmt.Sprintf("*bytes.Reader after %d consumed bytes", len(pre)), r}
	case 1:
		r := strings.NewReader(string(all))
		skip(r)
		return rd{fmt.Sprintf("*strings.Reader after %d consumed bytes", len(pre)), r}
	case 2:
		r := bytes.NewBuffer(all)
		skip(r)
		return rd{fmt.Sprintf("*bytes.Buffer after %d consumed bytes", len(pre)), r}
	case 3:
		back := append(append(rng.Bytes(3), all...), rng.Bytes(11)...)
		r := io.NewSectionReader(bytes.NewReader(back), 3, int64(len(all)))
		if _, err := r.Seek(int64(len(pre)), io.SeekStart); err != nil {
			panic("harness: " + err.Error())
		}
		return rd{fmt.Sprintf("*io.SectionReader positioned %d bytes into its section", len(pre)), r}
	default:
		return rd{fmt.Sprintf("*io.LimitedReader over a reader with %d more bytes", len(pre)), &io.LimitedReader{R: bytes.NewReader(append(append([]byte{}, data...), pre...)), N: int64(len(data))}}
	}
}

// bigStreamCase: inputs around io.Copy's 32 KiB buffer.
func bigStreamCase(c *ev.Case) {
	rng := c.Rng
	L := rng.Pick(32767, 32768, 32769, 65536, 65537, 100000, 4096, 8193)
	data := rng.Bytes(L)
	in := mkInp(data)
	for _, d := range digests {
		if d.stream == nil {
			continue
		}
		want := refDigest(d.newH, data)
		k := rng.Pick(1, 511, 512, 4096, 32768, 32769, 50000)
		for _, r := range []io.Reader{bytes.NewReader(in.b), &chunkReader{data: in.b, k: k}, &chunkReader{data: in.b, k: k, eofWithData: true}} {
			var got []byte
			var err error
			if !c.Guard(d.name+"Stream", func() { got, err = d.stream(r) }) {
				return
			}
			if string(got) != want || err != nil {
				c.Failf("stream/"+d.name, "hashz.%sStream over %d bytes (chunk %d) = (%q, %v), hex of crypto digest = %q", d.name, L, k, got, err, want)
				return
			}
			c.Add("digest_stream_calls", 1)
			c.Add("digest_big_stream_calls", 1)
		}
		var g string
		if !c.Guard(d.name+"ToString", func() { g = d.bs(in.b) }) {
			return
		}
		if g != want {
			c.Failf("digest/"+d.name, "hashz.%sToString over %d bytes = %q, hex of crypto digest = %q", d.name, L, g, want)
			return
		}
	}
	if !in.intact(c, "hashz.*Stream") {
		return
	}
	c.Distinct(ev.Mix(ev.HashBytes(data), 77))
	if c.WantSample() {
		c.Sample(fmt.Sprintf("big stream: %d bytes through the 6 stream helpers with 3 readers each", L))
	}
}
