// C15 — Re-implemented standard routines agree with the Go standard library.
//
// Differential monitor: every generated input is given to the golib routine
// (string form, []byte form - half of them with spare capacity -, every 8th
// time named string/byte-slice types, for every generic routine) and
// to the standard-library routine it re-implements; values, error presence
// and (hex / base64) error texts and decoded prefixes are compared, the inputs
// are compared with a private snapshot afterwards, and IPv4ToLong(LongToIPv4(x))
// is compared with x.
//
//	parseuint.go  ParseUint vs strconv.ParseUint: grammar generator, boundary sweep
//	              over every (base -1..37, bitSize -1..65), exhaustive short strings
//	hexb64.go     Hex* vs encoding/hex, Base64* vs encoding/base64
//	digest.go     hashz digests / HMAC / stream helpers vs crypto/*
//	ipv4.go       IPv4 round trip (grid, stratified, all 2^32 in the thorough tier)
//	strength.go   histories (kept results, reused argument buffers, one-ingredient
//	              pairs, faulty readers), big inputs, cold start
package main

import (
	"verif/ev"
)

// viewsCase is the workload of the checkptr pass: every routine that goes
// through the zero-copy string<->[]byte views, in one case.
func viewsCase(c *ev.Case) {
	base64Case(c)
	if c.Failed() {
		return
	}
	hexRandomCase(c)
	if c.Failed() {
		return
	}
	digestCase(c)
	if c.Failed() {
		return
	}
	k := &puChk{c: c}
	for i := 0; i < 100; i++ {
		s, base, bits := genParse(c.Rng)
		if !k.check(s, base, bits) {
			return
		}
	}
	c.Add("checkptr_cases", 1)
}

func main() {
	r := ev.New("C15")
	r.Rule("one case = a seeded batch of inputs for one routine family (400 ParseUint triples from the grammar generator; all boundary values of one (base, bitSize) pair; all short strings with one two-character head; 60 hex / 40 base64 encode+decode inputs; one data length 0..300 through all digests, stream helpers and 3 HMACs; one block of IPv4 addresses; history: 40-70 calls on one goroutine, each a fresh call or the previous one with exactly one ingredient changed, with all returned slices/strings kept and compared again later; big: one input size 2^k-1/2^k/2^k+1 (1 KiB..1 MiB, 4 MiB thorough) through one routine family; cold-start: one fresh process whose first golib call is one named routine); distinct = distinct hash of the batch's inputs; non-trivial = at least one non-empty input reached golib and was compared with the standard library")
	r.Assume("strconv.ParseUint, encoding/hex, encoding/base64, crypto/{md5,sha1,sha256,sha512,hmac} of the local Go toolchain are the specification; error texts are compared for hex and base64 only (the statement asks ParseUint for value and error presence); strz.ParseUint bitSize 0 means the platform word size, as strconv's IntSize")
	r.Assume("HexDecodeInPlace: only the returned count, the error and the first n bytes of the buffer are compared; what it leaves behind them is not asserted")
	r.Assume("stream helpers: what a call returns for a reader that fails or panics part-way is outside the statement and not judged; the healthy stream made right after it is (chunked, EOF-with-data, zero-length reads, partly consumed bytes/strings readers and buffers, Limit/Multi/Section readers: the expected digest is that of the bytes the reader still delivers)")
	r.Assume("a slice or string returned by a routine belongs to the caller: a later golib call must not change it (it would no longer be what the standard library returned), and the caller writing to it must not influence later results; the same holds for the caller's own buffer, the spare capacity behind a []byte argument included: the caller reusing it must not change a result it was given before (what a routine does to that spare capacity is itself not judged: it is not the routine's input)")
	if r.Thorough() {
		r.Exhaustive() // ipv4/all enumerates all 2^32 addresses in this tier
	}
	hv := ev.Opt{HangViolation: true}

	r.Cases("parseuint/grammar", r.N(12000, 300000), hv, grammarCase)
	r.Cases("parseuint/boundary", r.N(boundaryCombos, 20*boundaryCombos), hv, boundaryCase)
	r.Cases("parseuint/short", len(shortAlpha)*len(shortAlpha)+1, hv, shortCase)
	r.Cases("hex/random", r.N(5000, 150000), hv, hexRandomCase)
	r.Cases("hex/positions", r.N(64, 1280), hv, hexPositionsCase)
	r.Cases("base64", r.N(6000, 200000), hv, base64Case)
	r.Cases("digest", r.N(10*301, 200*301), hv, digestCase)
	// the same workload on parallel workers under the race detector: package-level state shared
	// between instances that no goroutine shares is reported from the happens-before relation,
	// whether or not the accesses collide in this run (and however loaded the machine is)
	r.CasesProc("digest/race-parallel", r.N(301, 3010), ev.Opt{Bin: "race", Procs: 2, Workers: 8, AlwaysLog: true, HangViolation: true, MaxCaseSeconds: 120}, digestCase)
	r.CasesProc("base64/race-parallel", r.N(300, 6000), ev.Opt{Bin: "race", Procs: 2, Workers: 8, AlwaysLog: true, HangViolation: true, MaxCaseSeconds: 120}, base64Case)
	r.Cases("digest/bigstream", r.N(24, 1000), hv, bigStreamCase)
	r.Cases("ipv4/grid", 144, hv, ipv4GridCase)
	r.Cases("ipv4/stratified", 64, hv, ipv4StratifiedCase)
	if r.Thorough() || r.IsReplay() {
		r.Cases("ipv4/all", 1<<(32-chunkBits), hv, ipv4ChunkCase)
	}
	// histories, big inputs, cold start (strength.go)
	r.Cases("history", r.N(2500, 60000), ev.Opt{HangViolation: true, Serial: true}, historyCase)
	r.Cases("big", r.N(4*len(bigSizes(false)), 12*len(bigSizes(true))), hv, bigCase)
	r.CasesProc("cold-start", 2*len(coldFirst), ev.Opt{Procs: 2 * len(coldFirst), HangViolation: true}, coldCase)
	// zero-copy views (UnsafeString, UnsafeStrOrBytesToBytes behind Base64*, the
	// digests, Hex*ToString): one pass under -race, which implies checkptr
	r.CasesProc("views/checkptr", r.N(48, 1500), ev.Opt{Bin: "race", Procs: 4}, viewsCase)

	// anti-vacuity floors (well below what a healthy run observes)
	r.Require("pu_inputs", 2000000)
	r.Require("pu_ok", 200000)
	r.Require("pu_ok_value_eq_max", 5000)
	r.Require("pu_err_range", 100000)
	r.Require("pu_err_syntax", 200000)
	r.Require("pu_err_base", 10000)
	r.Require("pu_err_bitsize", 10000)
	r.Require("pu_base0_prefix_hex", 20000)
	r.Require("pu_base0_prefix_bin", 20000)
	r.Require("pu_base0_prefix_0o", 20000)
	r.Require("pu_base0_prefix_0_octal", 20000)
	r.Require("pu_underscore_accepted", 10000)
	r.Require("pu_underscore_base0_rejected", 10000)
	r.Require("pu_underscore_fixed_base", 5000)
	r.Require("pu_named_type_calls", 100000)
	r.Require("pu_sign_prefixed", 20000)
	r.Require("pu_sign_then_digit", 5000)
	r.Require("pu_empty_inputs", 2000)
	r.Require("pu_boundary_cutoff_values", 20000)
	r.Require("pu_boundary_max_pm1_values", 6000)
	r.Require("pu_boundary_combos", boundaryCombos)
	r.Require("pu_boundary_valid_base_bits_combos", 35*65)
	r.Require("pu_short_heads_enumerated", int64(len(shortAlpha)*len(shortAlpha)))
	r.Require("hex_encode_inputs", 50000)
	r.Require("hex_decode_ok", 20000)
	r.Require("hex_decode_err_length", 10000)
	r.Require("hex_decode_err_invalid_byte", 50000)
	r.Require("hex_decode_invalid_byte_is_odd_tail", 1000)
	r.Require("hex_decode_err_with_nonempty_prefix", 20000)
	r.Require("hex_positions_x_all_bytes", 100000)
	r.Require("hex_all_two_byte_strings", 1)
	r.Require("hex_all_byte_values_encoded", 1)
	r.Require("hex_invalid_pairs_lengths", 16)
	r.Require("hex_decode_odd_len_and_invalid_byte", 10000)
	r.Require("hex_inplace_calls", 100000)
	r.Require("hex_named_type_encode_calls", 10000)
	r.Require("hex_named_type_decode_calls", 20000)
	r.Require("hex_encode_empty_inputs", 1000)
	r.Require("hex_decode_empty_inputs", 1000)
	r.Require("b64_encode_inputs", 50000)
	r.Require("b64_decode_ok", 20000)
	r.Require("b64_decode_err", 20000)
	r.Require("b64_decode_err_with_nonempty_prefix", 5000)
	r.Require("b64_named_type_encode_calls", 10000)
	r.Require("b64_named_type_decode_calls", 10000)
	r.Require("b64_encode_empty_inputs", 1000)
	r.Require("b64_decode_empty_inputs", 1000)
	for _, e := range b64Encs[:4] {
		r.Require("b64_enc/"+e.name, 5000)
	}
	r.Require("digest_oneshot_calls", 40000)
	r.Require("digest_stream_calls", 30000)
	r.Require("digest_big_stream_calls", 200)
	r.Require("hmac_calls", 20000)
	r.Require("hmac_key_longer_than_block", 500)
	r.Require("hmac_named_type_calls", 4000)
	r.Require("hmac_empty_key", 50)
	r.Require("digest_named_type_calls", 20000)
	r.Require("digest_empty_inputs", 40)
	for _, d := range digests {
		r.Require("digest_oneshot/"+d.name, 5000)
		r.Require("hmac_hash/"+d.name, 300)
		if d.stream != nil {
			r.Require("digest_stream/"+d.name, 4000)
		}
	}
	r.Require("ipv4_grid_addresses", 20736)
	r.Require("ipv4_stratified_samples", 1<<22)
	r.Require("checkptr_cases", 40)
	r.Require("stream_partly_consumed_standard_reader", 5000)
	r.Require("digest_stream_after_failed_stream", 10000)
	// strength.go
	r.Require("history_cases", 2500)
	r.Require("history_results_kept", 60000)
	r.Require("history_kept_results_rechecked_after_later_calls", 500000)
	r.Require("history_arg_in_reused_caller_buffer", 20000)
	r.Require("history_arg_buffer_scribbled_after_call", 10000)
	r.Require("history_arg_with_spare_capacity", 5000)
	r.Require("history_hmac_key_in_reused_caller_buffer", 2000)
	r.Require("history_result_scribbled_then_same_call", 5000)
	r.Require("history_step/same-call-after-scribbled-result", 5000)
	for _, rel := range []string{"fresh", "same-call-again", "one-content-byte", "content-length", "form", "algorithm", "reader", "reader-fault", "hmac-hash-same-key", "hmac-key-same-data", "encoding", "base", "bit-size", "argument-buffer", "one-octet"} {
		r.Require("history_step/"+rel, 200)
	}
	for _, f := range famNames {
		r.Require("history_calls/"+f, 3000)
	}
	r.Require("history_calls/HexDecodeInPlace", 500)
	r.Require("history_decode_errors", 3000)
	r.Require("history_hmac_wrapped_hash", 300)
	r.Require("history_hmac_key_and_data_one_slice", 100)
	r.Require("history_stream_reader_delivers_part_of_its_source", 3000)
	r.Require("history_stream_after_error_reader", 1000)
	r.Require("history_stream_after_data_with_error_reader", 1000)
	r.Require("history_stream_after_panicking_reader", 1000)
	r.Require("big_inputs_ge_4096", 300)
	r.Require("big_inputs_ge_65536", 100)
	r.Require("big_inputs_ge_1MiB", 15)
	r.Require("big_hex_invalid_byte_deep", 200)
	r.Require("big_b64_corruption_deep", 100)
	r.Require("big_b64_line_wrapped", 30)
	r.Require("big_digest_calls", 1000)
	r.Require("big_hmac_calls", 100)
	r.Require("big_stream_calls", 100)
	r.Require("big_pu_long_inputs", 800)
	r.Require("big_pu_long_inputs_accepted", 100)
	r.Require("cold_start_cases", int64(2*len(coldFirst)))
	for _, f := range coldFirst {
		r.Require("cold_start_first/"+f.name, 2)
	}
	if r.Thorough() {
		r.Require("ipv4_exhaustive_addresses", 1<<32)
		r.Require("ipv4_chunks_complete", 1<<(32-chunkBits))
	}
	r.Finish()
}
