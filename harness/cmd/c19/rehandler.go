package main

// Engine "rehandler": SetPanicHandler is called again between submissions of one limiter.
// "The panic value reaches the configured handler": a function submitted after
// SetPanicHandler(h) returned, on a limiter whose earlier functions have all finished (Wait
// returned), can only mean h. Without the Wait in between, a function submitted under
// handler p whose panic happens after a later handler q was configured may be reported to
// either (the statement does not say when "configured" is sampled) — any handler from p to
// the newest one is accepted, an older one or none is not.

import (
	"fmt"
	"sync"
	"time"

	"github.com/welllog/golib/goz"

	"verif/ev"
)

func rehandlerCase(c *ev.Case) {
	rng := c.Rng
	limit := rng.Range(1, 4)
	phases := rng.Range(2, 5)
	var l *goz.Limiter
	if !c.Guard("NewLimiter", func() { l = goz.NewLimiter(limit) }) {
		return
	}
	type rec struct {
		phase int
		v     any
	}
	var mu sync.Mutex
	var got []rec
	submittedIn := map[int]int{} // panic value id -> phase of its submission
	waitedAfter := map[int]bool{}
	id := 0
	firstHandlerLate := false
	for p := 0; p < phases; p++ {
		p := p
		set := true
		if p == 0 && rng.Chance(1, 2) {
			set = false // the first functions run without any handler; the first handler arrives after a Go
			firstHandlerLate = true
		}
		if set {
			h := func(v any) {
				mu.Lock()
				got = append(got, rec{p, v})
				mu.Unlock()
			}
			if !c.Guard("SetPanicHandler", func() { l.SetPanicHandler(h) }) {
				return
			}
		}
		m := rng.Range(1, limit+3)
		for i := 0; i < m; i++ {
			var fn func()
			if set && rng.Chance(2, 3) {
				id++
				v := panicVal{id}
				submittedIn[id] = p
				fn = func() { panic(v) }
			} else if !set && rng.Chance(1, 3) {
				fn = func() { panic("reported by the built-in reporter") }
			} else {
				fn = func() {}
			}
			if !c.Guard("Go", func() { l.Go(fn) }) {
				return
			}
		}
		if rng.Chance(2, 3) || p == phases-1 {
			ret := make(chan any, 1)
			go func() {
				defer func() { ret <- recover() }()
				l.Wait()
			}()
			select {
			case pv := <-ret:
				if pv != nil {
					c.Failf("panic/Wait", "Limiter.Wait panicked: %v", pv)
					return
				}
			case <-time.After(30 * time.Second):
				c.Run().Inconclusive(fmt.Sprintf("%s[%d]: Wait() did not return within 30 s", c.Engine, c.Index))
				return
			}
			for k, ph := range submittedIn {
				if ph <= p && !waitedAfter[k] {
					waitedAfter[k] = true
				}
			}
			c.Add("rehandler_waits_between_phases", 1)
		}
	}
	// quiescent: every value must have been reported exactly once, to an acceptable handler
	mu.Lock()
	defer mu.Unlock()
	seen := map[int]int{}
	for _, r := range got {
		pv, ok := r.v.(panicVal)
		if !ok {
			c.Failf("handler-values", "a handler configured in phase %d received %s, which no function submitted under a handler panicked with", r.phase, render(r.v))
			return
		}
		seen[pv.id]++
		ph := submittedIn[pv.id]
		if r.phase < ph {
			c.Failf("handler-stale", "limit %d: a function submitted in phase %d, after SetPanicHandler had configured that phase's handler, panicked with %s; the value was delivered to the handler of phase %d, which had been replaced before the function was submitted", limit, ph, render(r.v), r.phase)
			return
		}
	}
	for k, ph := range submittedIn {
		if seen[k] != 1 {
			late := ""
			if firstHandlerLate {
				late = " (the limiter's first handler was configured after its first Go call)"
			}
			c.Failf("handler-values", "limit %d: the function submitted in phase %d under a configured handler panicked with task-%d; that value reached a configured handler %d times%s", limit, ph, k, seen[k], late)
			return
		}
	}
	// with a Wait between the phases the handler is exactly the one of the phase: checked via
	// r.phase >= ph above plus: a value whose phase was closed by a Wait cannot have gone to a later handler
	c.Add("rehandler_scenarios", 1)
	c.Add("rehandler_values", int64(len(submittedIn)))
	if firstHandlerLate {
		c.Add("rehandler_first_handler_after_first_go", 1)
	}
	c.Distinct(ev.Mix(uint64(limit), uint64(phases), uint64(id), uint64(c.Index)))
	if c.WantSample() {
		c.Sample(fmt.Sprintf("rehandler: limit %d, %d phases each with its own handler (first handler after the first Go: %v), %d panic values each delivered once to the handler of its phase or a newer one", limit, phases, firstHandlerLate, len(submittedIn)))
	}
}
