// C19 — Limiter bounds concurrency, runs every task once and survives panics.
//
// Gated-task scenarios: submitted functions carry monitors (in-flight counter,
// per-task execution counter, finished flag) and block on channels the harness
// controls, so the bound is observed by event order, never by durations.
package main

import (
	"fmt"
	"io/fs"
	"reflect"
	"runtime"
	"sync"
	"sync/atomic"
	"time"

	"github.com/welllog/golib/goz"

	"verif/ev"
)

const (
	kindReturn = iota
	kindBlock
	kindPanic
	kindGoexit // the function ends with runtime.Goexit(): no panic value, but it has ended
)

type scenario struct {
	c        *ev.Case
	limit    int
	N        int // effective bound
	kinds    []int
	l        *goz.Limiter
	inside   atomic.Int64
	maxSeen  atomic.Int64
	over     atomic.Int64 // entries observed with in-flight > N
	exec     []atomic.Int32
	entered  []atomic.Bool
	goCall   []atomic.Bool // Go() has been called for this task
	goRet    []atomic.Bool // Go() has returned for this task
	finished []atomic.Bool
	gates    []chan struct{}
	handled  sync.Mutex
	values   []any // what the configured handler received, as received
	pvals    []any // the value task i panics with (nil for tasks that do not panic)
	handler  bool
	replaced bool         // a first handler was configured and then replaced before any submission
	decoy    atomic.Int64 // calls received by the replaced handler
	stop     bool
}

func newScenario(c *ev.Case, limit int, kinds []int, handler, replaced bool) *scenario {
	s := &scenario{c: c, limit: limit, kinds: kinds, handler: handler, replaced: handler && replaced}
	s.pvals = makePanicValues(kinds)
	s.N = limit
	if limit < 1 {
		s.N = 3
	}
	n := len(kinds)
	s.exec = make([]atomic.Int32, n)
	s.entered = make([]atomic.Bool, n)
	s.goCall = make([]atomic.Bool, n)
	s.goRet = make([]atomic.Bool, n)
	s.finished = make([]atomic.Bool, n)
	s.gates = make([]chan struct{}, n)
	for i := range s.gates {
		s.gates[i] = make(chan struct{})
	}
	s.c.Guard("NewLimiter", func() {
		s.l = goz.NewLimiter(limit)
		if s.replaced {
			// the configured handler is the one set last
			s.l.SetPanicHandler(func(any) { s.decoy.Add(1) })
		}
		if handler {
			s.l.SetPanicHandler(func(v any) {
				s.handled.Lock()
				s.values = append(s.values, v)
				s.handled.Unlock()
			})
		}
	})
	return s
}

type panicVal struct{ id int }

func (p panicVal) String() string { return fmt.Sprintf("task-%d", p.id) }

const panicValueTypes = 6

var panicValueNames = [panicValueTypes]string{"struct", "string", "error", "nil_pointer", "slice", "pointer"}

// makePanicValues draws up, per panicking task, the value it panics with:
// values of several dynamic types, comparable and not, one of them hostile to
// formatting. The handler must receive these very values.
func makePanicValues(kinds []int) []any {
	v := make([]any, len(kinds))
	for i, k := range kinds {
		if k != kindPanic {
			continue
		}
		switch i % panicValueTypes {
		case 0:
			v[i] = panicVal{i}
		case 1:
			v[i] = fmt.Sprintf("task-%d", i)
		case 2:
			v[i] = fmt.Errorf("task-%d", i)
		case 3:
			// an error value whose Error method itself panics (nil receiver)
			var perr *fs.PathError
			v[i] = perr
		case 4:
			v[i] = []int{i, -i} // not comparable
		default:
			v[i] = &panicVal{i}
		}
	}
	return v
}

// sameValue: b is the value a (same dynamic type; equal, for pointers the same pointer).
func sameValue(a, b any) bool {
	ta, tb := reflect.TypeOf(a), reflect.TypeOf(b)
	if ta != tb {
		return false
	}
	if ta == nil {
		return true
	}
	if ta.Comparable() {
		return a == b
	}
	return reflect.DeepEqual(a, b)
}

// render shows a panic value with its dynamic type (fmt survives the hostile one).
func render(v any) string { return fmt.Sprintf("%T(%v)", v, v) }

// task builds the monitored function for task i.
func (s *scenario) task(i int) func() {
	return func() {
		defer s.finished[i].Store(true) // the task's last action
		cur := s.inside.Add(1)
		defer s.inside.Add(-1)
		for {
			m := s.maxSeen.Load()
			if cur <= m || s.maxSeen.CompareAndSwap(m, cur) {
				break
			}
		}
		if cur > int64(s.N) {
			s.over.Add(1)
		}
		s.exec[i].Add(1)
		s.entered[i].Store(true)
		switch s.kinds[i] {
		case kindBlock:
			<-s.gates[i]
		case kindGoexit:
			runtime.Goexit()
		case kindPanic:
			panic(s.pvals[i])
		}
	}
}

// waitFor spins until cond holds. It gives up after a generous wall-clock
// bound; the caller then inspects the state to decide what that means.
// stuckWaits counts waits that gave up in this process; after a few of them the
// remaining cases are skipped (each would cost the full bound again).
var stuckWaits atomic.Int64

func waitFor(cond func() bool) bool {
	if waitUpTo(15*time.Second, cond) {
		return true
	}
	stuckWaits.Add(1)
	return false
}

func waitUpTo(d time.Duration, cond func() bool) bool {
	deadline := time.Now().Add(d)
	for i := 0; ; i++ {
		if cond() {
			return true
		}
		if i%64 == 63 {
			if time.Now().After(deadline) {
				return false
			}
			time.Sleep(50 * time.Microsecond)
		} else {
			runtime.Gosched()
		}
	}
}

func tokens(l *goz.Limiter) (n, c int, ok bool) {
	defer func() {
		if recover() != nil {
			ok = false
		}
	}()
	f := reflect.ValueOf(l).Elem().FieldByName("c")
	if !f.IsValid() || f.Kind() != reflect.Chan {
		return 0, 0, false
	}
	return f.Len(), f.Cap(), true
}

// stuck classifies a wait that did not complete: confirmed slot leak, or inconclusive.
func (s *scenario) stuck(what string, submitted, wantInside int64) {
	if o := s.over.Load(); o > 0 {
		s.c.Failf("bound-exceeded", "%d function entries saw more than %d functions inside (max %d) (%s)", o, s.N, s.maxSeen.Load(), s.describe())
		return
	}
	in1 := s.inside.Load()
	n1, c1, ok := tokens(s.l)
	time.Sleep(300 * time.Millisecond)
	in2 := s.inside.Load()
	n2, _, _ := tokens(s.l)
	// a function whose Go() call returned long ago, that never started, while no
	// function at all is running: nothing can still make it run
	if in1 == 0 && in2 == 0 {
		for i := range s.goRet {
			if i < len(s.entered) && s.goRet[i].Load() && !s.entered[i].Load() {
				s.c.Failf("lost-task", "%s: function %d was submitted (Go returned) but has not been executed, and no submitted function is running any more (tokens %d/%d): it will never run (%s)", what, i, n2, c1, s.describe())
				return
			}
		}
	}
	if ok && n1 == c1 && n2 == c1 && in1 == in2 && in1 < wantInside {
		s.c.Failf("slot-leak", "%s: all %d tokens are taken while only %d functions are inside (expected %d to get in): a slot was not returned", what, c1, in1, wantInside)
		return
	}
	// The same verdict without looking inside the limiter: fewer than N functions are running,
	// all of them gated by the harness, every other function that ever started has finished,
	// a Go call is pending — and for five more seconds nothing moves. A correct limiter is in
	// that state only for the moment a finished function's goroutine needs to return its slot.
	if in2 < int64(s.N) && in2 < wantInside {
		frozen := true
		for k := 0; k < 50 && frozen; k++ {
			time.Sleep(100 * time.Millisecond)
			running, pending := int64(0), 0
			for i := range s.entered {
				if s.entered[i].Load() && !s.finished[i].Load() {
					running++
				}
				if s.goCall[i].Load() && !s.goRet[i].Load() {
					pending++
				}
			}
			if s.inside.Load() != in2 || running != in2 || pending == 0 {
				frozen = false
			}
		}
		if frozen {
			s.c.Failf("slot-unavailable", "%s: for 20 s only %d functions have been running (all of them held by the harness, every other function that started has finished) while a Go call is pending and the limit is %d: the caller does not obtain a free slot (%s)", what, in2, s.N, s.describe())
			return
		}
	}
	s.c.Run().Inconclusive(fmt.Sprintf("%s[%d] %s: wait did not complete (inside=%d want=%d tokens=%d/%d reflect=%v)", s.c.Engine, s.c.Index, what, in2, wantInside, n2, c1, ok))
	s.stop = true // stop the case without a verdict
}

func (s *scenario) describe() string {
	k := make([]byte, len(s.kinds))
	for i, v := range s.kinds {
		k[i] = "rbpg"[v]
	}
	h := fmt.Sprint(s.handler)
	if s.replaced {
		h = "second"
	}
	return fmt.Sprintf("limit=%d(effective %d) handler=%s tasks=%s", s.limit, s.N, h, k)
}

// run executes the scenario: submitters submit all tasks, the releaser lets
// blocked tasks go in a seeded order (waiting, in "fill" rounds, until the bound
// is tight), then Wait() is called and the monitors are read.
func (s *scenario) run(submitters int, fill bool) {
	c := s.c
	rng := c.Rng
	n := len(s.kinds)
	c.Logf("scenario %s submitters=%d fill=%v", s.describe(), submitters, fill)
	if s.l == nil {
		return
	}
	var next atomic.Int64
	var submitted atomic.Int64
	var wg sync.WaitGroup
	submitPanic := make(chan any, submitters)
	for g := 0; g < submitters; g++ {
		wg.Add(1)
		go func() {
			defer wg.Done()
			defer func() {
				if p := recover(); p != nil {
					submitPanic <- p
				}
			}()
			for {
				i := int(next.Add(1)) - 1
				if i >= n {
					return
				}
				s.goCall[i].Store(true)
				s.l.Go(s.task(i))
				s.goRet[i].Store(true)
				submitted.Add(1)
			}
		}()
	}
	// releaser
	blocked := 0
	for _, k := range s.kinds {
		if k == kindBlock {
			blocked++
		}
	}
	released := make([]bool, n)
	remaining := blocked
	for remaining > 0 {
		want := int64(s.N)
		if int64(remaining) < want {
			want = int64(remaining)
		}
		insideBlocked := func() (cnt int64, list []int) {
			for i := 0; i < n; i++ {
				if s.kinds[i] == kindBlock && !released[i] && s.entered[i].Load() {
					cnt++
					list = append(list, i)
				}
			}
			return
		}
		if fill {
			// the bound must become tight: min(N, unreleased blocking tasks) are inside
			if !waitFor(func() bool { k, _ := insideBlocked(); return k >= want }) {
				s.stuck("waiting for the limiter to admit blocking tasks", submitted.Load(), want)
				s.drain(released)
				return
			}
			if k, _ := insideBlocked(); k == want {
				c.Add("bound_tight_observations", 1)
				if s.limit < 1 && want == 3 && remaining > 3 {
					// the default bound, seen tight while further gated functions are waiting for a slot
					c.Add("default_limit_tight", 1)
				}
				if s.N > 8 && want == int64(s.N) {
					c.Add("big_limit_tight", 1)
				}
			}
		} else {
			if !waitFor(func() bool { k, _ := insideBlocked(); return k >= 1 }) {
				s.stuck("waiting for a blocking task to get in", submitted.Load(), 1)
				s.drain(released)
				return
			}
		}
		_, list := insideBlocked()
		i := list[rng.Intn(len(list))]
		released[i] = true
		remaining--
		c.Logf("release task %d (inside=%d)", i, s.inside.Load())
		close(s.gates[i])
	}
	wg.Wait()
	select {
	case p := <-submitPanic:
		c.Failf("panic/Go", "Limiter.Go panicked: %v", p)
		return
	default:
	}
	waitRet := make(chan any, 1)
	go func() {
		defer func() { waitRet <- recover() }()
		s.l.Wait()
	}()
	returned := false
	var waitPanic any
	if !waitFor(func() bool {
		select {
		case waitPanic = <-waitRet:
			returned = true
		default:
		}
		return returned
	}) {
		s.stuck("Wait() does not return although every gated function was released", int64(n), 0)
		if !c.Failed() {
			s.stop = true
		}
		return
	}
	if waitPanic != nil {
		c.Failf("panic/Wait", "Limiter.Wait panicked: %v", waitPanic)
		return
	}
	// after Wait: everything finished, exactly once
	for i := 0; i < n; i++ {
		if !s.finished[i].Load() {
			c.Failf("wait-early", "Wait() returned while task %d had not finished (%s)", i, s.describe())
			return
		}
	}
	for i := 0; i < n; i++ {
		if e := s.exec[i].Load(); e != 1 {
			c.Failf("exec-count", "task %d was executed %d times (%s)", i, e, s.describe())
			return
		}
	}
	if o := s.over.Load(); o > 0 {
		c.Failf("bound-exceeded", "%d function entries saw more than %d functions inside (max %d) (%s)", o, s.N, s.maxSeen.Load(), s.describe())
		return
	}
	if s.inside.Load() != 0 {
		c.Failf("wait-early", "Wait() returned with %d functions still inside", s.inside.Load())
		return
	}
	if s.handler {
		var want []any
		for i, k := range s.kinds {
			if k == kindPanic {
				want = append(want, s.pvals[i])
			}
		}
		// Wait() without timeout returns only after all functions have finished, and a
		// function that panicked has not finished before its panic value has been handed
		// to the handler (a caller that exits after Wait would otherwise lose the report).
		// Returning the *slot* before the handler runs is fine; Wait is what is ordered.
		s.handled.Lock()
		early := len(s.values) < len(want)
		s.handled.Unlock()
		if early {
			late := waitUpTo(4*time.Second, func() bool {
				s.handled.Lock()
				defer s.handled.Unlock()
				return len(s.values) >= len(want)
			})
			c.Failf("wait-before-handler", "Wait() returned while the panic value of a function that had panicked had not reached the configured handler yet (it did %sarrive within 4s afterwards): %d panicking functions (%s)", map[bool]string{true: "", false: "not "}[late], len(want), s.describe())
			return
		}
		s.handled.Lock()
		got := append([]any(nil), s.values...)
		s.handled.Unlock()
		used := make([]bool, len(got))
		for _, w := range want {
			found := false
			for j, g := range got {
				if !used[j] && sameValue(w, g) {
					used[j], found = true, true
					break
				}
			}
			if !found {
				r := make([]string, len(got))
				for j, g := range got {
					r[j] = render(g)
				}
				c.Failf("handler-values", "a function panicked with %s, but that value did not reach the configured handler; the handler received %v (%s)", render(w), r, s.describe())
				return
			}
		}
		for j, g := range got {
			if !used[j] {
				c.Failf("handler-values", "the panic handler received %s, which no submitted function panicked with (%d calls for %d panicking functions; %s)", render(g), len(got), len(want), s.describe())
				return
			}
		}
		if d := s.decoy.Load(); d != 0 {
			c.Failf("handler-values", "a handler that had been replaced by SetPanicHandler before any submission was called %d times (%s)", d, s.describe())
			return
		}
		c.Add("panics_handled", int64(len(want)))
		for i, k := range s.kinds {
			if k == kindPanic {
				c.Add("panic_values_"+panicValueNames[i%panicValueTypes], 1)
			}
		}
	}
	// slots must all be back: N fresh gated tasks must all get inside
	if rng.Chance(1, 2) {
		s.refill()
	}
	c.Add("tasks", int64(n))
	c.Max("max_inside", s.maxSeen.Load())
}

// drain releases everything so goroutines do not pile up after a stuck run.
func (s *scenario) drain(released []bool) {
	for i := range s.gates {
		if s.kinds[i] == kindBlock && !released[i] {
			released[i] = true
			close(s.gates[i])
		}
	}
}

// refill: after the scenario (with its panics) N gated tasks must all be admitted.
func (s *scenario) refill() {
	c := s.c
	var in atomic.Int64
	gate := make(chan struct{})
	var sub sync.WaitGroup
	sub.Add(1)
	go func() {
		defer sub.Done()
		for i := 0; i < s.N; i++ {
			s.l.Go(func() {
				in.Add(1)
				<-gate
				in.Add(-1)
			})
		}
	}()
	if !waitFor(func() bool { return in.Load() == int64(s.N) }) {
		n1, c1, ok := tokens(s.l)
		i1 := in.Load()
		time.Sleep(300 * time.Millisecond)
		n2, _, _ := tokens(s.l)
		if ok && n1 == c1 && n2 == c1 && in.Load() == i1 && i1 < int64(s.N) {
			c.Failf("slot-leak", "after the scenario (%s) only %d of %d fresh blocking functions were admitted while all %d tokens are taken: a slot leaked", s.describe(), i1, s.N, c1)
		} else {
			c.Run().Inconclusive(fmt.Sprintf("%s[%d] refill: wait did not complete", c.Engine, c.Index))
			s.stop = true
		}
		close(gate)
		return
	}
	c.Add("refills_ok", 1)
	close(gate)
	sub.Wait()
	c.Guard("Wait", func() { s.l.Wait() })
	if in.Load() != 0 {
		c.Failf("wait-early", "Wait() returned with %d refill functions still inside", in.Load())
	}
}

func genKinds(rng *ev.Rand, n int, pBlock, pPanic int) []int {
	k := make([]int, n)
	for i := range k {
		p := rng.Intn(100)
		switch {
		case p < pBlock:
			k[i] = kindBlock
		case p < pBlock+pPanic:
			k[i] = kindPanic
		default:
			k[i] = kindReturn
			if rng.Chance(1, 12) {
				k[i] = kindGoexit
			}
		}
	}
	return k
}

func scenarioCase(c *ev.Case) {
	rng := c.Rng
	if stuckWaits.Load() >= 3 {
		c.Add("cases_skipped_after_stuck_waits", 1)
		return
	}
	limit := rng.Pick(1, 1, 2, 2, 3, 4, 5, 6, 7, 8, 0, -1, -7)
	n := rng.Pick(1, 2, 3, 4, 5, 8, 13, 24, 40, 64)
	var kinds []int
	switch rng.Intn(5) {
	case 0:
		kinds = genKinds(rng, n, 100, 0) // all block: tightness
	case 1:
		kinds = genKinds(rng, n, 0, 50) // returns and panics only
	case 2:
		kinds = genKinds(rng, n, 40, 30)
	case 3:
		kinds = genKinds(rng, n, 60, 40)
	default:
		kinds = genKinds(rng, n, 30, 10)
	}
	scenarioBody(c, limit, kinds, rng.Chance(2, 3))
}

// bigLimitCase: limits above 8, up to a few hundred (around 2^7 and 2^8 too),
// with more gated functions than slots, so that the bound becomes tight at n.
func bigLimitCase(c *ev.Case) {
	rng := c.Rng
	if stuckWaits.Load() >= 3 {
		c.Add("cases_skipped_after_stuck_waits", 1)
		return
	}
	limit := rng.Pick(9, 10, 12, 16, 17, 31, 32, 33, 64, 65, 100, 127, 128, 129, 255, 256, 257, 300)
	n := limit + rng.Range(1, 12)
	kinds := genKinds(rng, n, 100-rng.Pick(0, 10, 25), rng.Pick(0, 5, 10))
	// at least limit+1 gated functions: the (limit+1)-th can only get in early if the bound is broken
	nb := 0
	for _, k := range kinds {
		if k == kindBlock {
			nb++
		}
	}
	for i := 0; nb <= limit && i < n; i++ {
		if kinds[i] != kindBlock {
			kinds[i] = kindBlock
			nb++
		}
	}
	if scenarioBody(c, limit, kinds, true) {
		c.Add("big_limit_scenarios", 1)
	}
}

func scenarioBody(c *ev.Case, limit int, kinds []int, fill bool) bool {
	rng := c.Rng
	handler := rng.Chance(3, 4)
	replaced := rng.Chance(1, 3)
	submitters := rng.Range(1, 3)
	s := newScenario(c, limit, kinds, handler, replaced)
	s.run(submitters, fill)
	if c.Failed() || s.stop {
		return false
	}
	c.Add("scenarios", 1)
	if limit < 1 {
		c.Add("scenarios_default_limit", 1)
	}
	if s.replaced {
		c.Add("scenarios_handler_replaced", 1)
	}
	if submitters > 1 {
		c.Add("scenarios_concurrent_submitters", 1)
	}
	np, nb, ng := 0, 0, 0
	for _, k := range kinds {
		switch k {
		case kindPanic:
			np++
		case kindBlock:
			nb++
		case kindGoexit:
			ng++
		}
	}
	if np > 0 && !handler {
		c.Add("scenarios_panic_without_handler", 1)
	}
	if nb > s.N {
		// more gated functions than slots: some Go() call had to wait for a slot
		c.Add("scenarios_more_gated_than_slots", 1)
	}
	c.Add("goexit_functions", int64(ng))
	c.Distinct(ev.HashString(s.describe()))
	if c.WantSample() {
		d := s.describe()
		if len(d) > 120 {
			d = d[:120] + "..."
		}
		c.Sample(fmt.Sprintf("%s: max inside %d, %d panics", d, s.maxSeen.Load(), np))
	}
	return true
}

// leakCase: p panicking tasks one after the other, then N gated tasks must all get in.
func leakCase(c *ev.Case) {
	rng := c.Rng
	if stuckWaits.Load() >= 3 {
		c.Add("cases_skipped_after_stuck_waits", 1)
		return
	}
	limit := rng.Pick(1, 2, 3, 4, 0)
	p := rng.Range(1, 12)
	kinds := make([]int, p)
	for i := range kinds {
		kinds[i] = kindPanic
	}
	s := newScenario(c, limit, kinds, rng.Bool(), rng.Chance(1, 3))
	s.run(1, false)
	if c.Failed() || s.stop {
		return
	}
	s.refill()
	if c.Failed() || s.stop {
		return
	}
	c.Add("leak_scenarios", 1)
	c.Distinct(ev.HashString("leak" + s.describe()))
}

// reuseCase: one limiter is used for several batches. Between batches a timed
// Wait may expire while functions are still gated, a batch may be left to drain
// without any Wait, and the untimed Wait of a batch is started while its
// functions are still gated: it must not return before they have finished.
func reuseCase(c *ev.Case) {
	rng := c.Rng
	if stuckWaits.Load() >= 3 {
		c.Add("cases_skipped_after_stuck_waits", 1)
		return
	}
	limit := rng.Pick(1, 2, 3, 4, 6, 0)
	handler := rng.Chance(3, 4)
	rounds := rng.Range(2, 5)
	// this engine runs one case at a time per process, so the goroutine count
	// tells when every goroutine of a batch (workers, and the helper goroutine a
	// timed-out Wait leaves parked in WaitGroup.Wait) has gone
	baseGoroutines := runtime.NumGoroutine()
	var l *goz.Limiter
	var hmu sync.Mutex
	handled := 0
	if !c.Guard("NewLimiter", func() {
		l = goz.NewLimiter(limit)
		if handler {
			l.SetPanicHandler(func(any) { hmu.Lock(); handled++; hmu.Unlock() })
		}
	}) {
		return
	}
	N := limit
	if N < 1 {
		N = 3
	}
	wantHandled := 0
	desc := fmt.Sprintf("limit=%d handler=%v rounds=", limit, handler)
	for round := 0; round < rounds; round++ {
		nb := rng.Range(1, N) // gated functions: never more than the bound, so every Go() returns
		nother := rng.Intn(4)
		// the returning / panicking functions go first: once the gated ones hold
		// all slots, a further Go() would block until the harness releases them
		sh := make([]int, 0, nb+nother)
		for i := 0; i < nother; i++ {
			sh = append(sh, rng.Pick(kindReturn, kindPanic))
		}
		for i := 0; i < nb; i++ {
			sh = append(sh, kindBlock)
		}
		// surplus: with the bound tight, one or two more gated functions are submitted
		// from a helper goroutine; they must not get in before a slot is free
		timed := rng.Chance(1, 2)
		E := 0
		if nb == N && rng.Chance(2, 3) {
			E = rng.Range(1, 2)
			if E > N {
				E = N // all surplus Go() calls must be able to return once the first batch is released
			}
			if timed {
				// after an expired timed Wait the WaitGroup counter must not touch zero
				// and be raised again at once (see DESIGN 6.3): one surplus function,
				// admitted while the rest of the batch is still gated
				E = 1
				if nb < 2 {
					E = 0
				}
			}
		}
		n := len(sh)
		kinds := append(append([]int(nil), sh...), make([]int, E)...)
		for j := n; j < n+E; j++ {
			kinds[j] = kindBlock
		}
		s := &scenario{c: c, limit: limit, N: N, kinds: kinds, handler: handler, l: l, pvals: makePanicValues(kinds)}
		s.exec = make([]atomic.Int32, n+E)
		s.entered = make([]atomic.Bool, n+E)
		s.goRet = make([]atomic.Bool, n+E)
		s.finished = make([]atomic.Bool, n+E)
		s.gates = make([]chan struct{}, n+E)
		for i := range s.gates {
			s.gates[i] = make(chan struct{})
		}
		untimed := round == rounds-1 || rng.Chance(2, 3)
		desc += fmt.Sprintf("[%d gated+%d other+%d surplus timed=%v wait=%v]", nb, nother, E, timed, untimed)
		c.Logf("round %d: %d gated + %d other + %d surplus, timed Wait: %v, untimed Wait: %v", round, nb, nother, E, timed, untimed)
		okGo := c.Guard("Go", func() {
			for i := 0; i < n; i++ {
				if sh[i] == kindPanic {
					wantHandled++
				}
				l.Go(s.task(i))
				s.goRet[i].Store(true)
			}
		})
		if !okGo {
			return
		}
		allGatedIn := func() bool {
			for i := 0; i < n; i++ {
				if sh[i] == kindBlock && !s.entered[i].Load() {
					return false
				}
			}
			return true
		}
		if !waitFor(allGatedIn) {
			s.stuck("reuse: waiting for the gated functions of a batch to get in", int64(n), int64(nb))
			s.drain(make([]bool, n+E))
			return
		}
		if timed {
			// the gated functions cannot finish, so this Wait can only end by its timeout
			if !c.Guard("Wait(timeout)", func() { l.Wait(time.Duration(rng.Range(200, 2000)) * time.Microsecond) }) {
				return
			}
			c.Add("timed_waits_expired", 1)
		}
		extraDone := make(chan struct{})
		go func() {
			defer close(extraDone)
			defer func() { recover() }()
			for j := n; j < n+E; j++ {
				l.Go(s.task(j))
				s.goRet[j].Store(true)
			}
		}()
		if E > 0 {
			// the bound is tight: give a surplus function that is wrongly admitted the chance to get in
			for k := 0; k < 50; k++ {
				runtime.Gosched()
			}
			if rng.Bool() {
				time.Sleep(150 * time.Microsecond)
			}
			c.Add("reuse_surplus_submissions", int64(E))
			if o := s.over.Load(); o > 0 {
				c.Failf("bound-exceeded", "a surplus function was admitted while %d functions were already inside: %d entries saw more than %d inside (%s)", N, o, N, desc)
				s.drain(make([]bool, n+E))
				return
			}
		}
		var early atomic.Int32
		waitDone := make(chan struct{})
		startWait := func() {
			go func() {
				defer close(waitDone)
				defer func() { recover() }()
				l.Wait()
				for i := 0; i < n+E; i++ {
					if !s.finished[i].Load() {
						early.Store(int32(i) + 1)
						return
					}
				}
			}()
			// functions of the batch are still gated: give a Wait that is going to
			// return early the chance to do so
			for k := 0; k < 50; k++ {
				runtime.Gosched()
			}
			if rng.Bool() {
				time.Sleep(100 * time.Microsecond)
			}
		}
		if E == 0 && untimed {
			startWait()
		}
		// release the first n; surplus functions are then admitted and their Go() calls return
		order := rng.Perm(n)
		released := make([]bool, n+E)
		if timed && E > 0 {
			// one slot first, so that the surplus function is admitted while the others still run
			for _, i := range order {
				if sh[i] == kindBlock {
					close(s.gates[i])
					released[i] = true
					break
				}
			}
			if !waitFor(func() bool {
				select {
				case <-extraDone:
					return true
				default:
					return false
				}
			}) {
				s.stuck("reuse: Go() of a surplus function does not return after a slot became free", int64(n+E), 1)
				s.drain(released)
				return
			}
		}
		for _, i := range order {
			if sh[i] == kindBlock && !released[i] {
				close(s.gates[i])
				released[i] = true
			}
		}
		if !waitFor(func() bool {
			select {
			case <-extraDone:
				return true
			default:
				return false
			}
		}) {
			s.stuck("reuse: Go() of a surplus function does not return after slots became free", int64(n+E), 1)
			s.drain(released)
			return
		}
		if E > 0 && untimed {
			startWait() // every Go() has returned; the surplus functions are still gated
		}
		for j := n; j < n+E; j++ {
			close(s.gates[j])
		}
		n += E
		if untimed {
			done := func() bool {
				select {
				case <-waitDone:
					return true
				default:
					return false
				}
			}
			if !waitFor(done) {
				c.Run().Inconclusive(fmt.Sprintf("%s[%d] reuse: Wait() did not return after all functions were released", c.Engine, c.Index))
				return
			}
			if e := early.Load(); e != 0 {
				c.Failf("wait-early", "Wait() returned while function %d of the batch had not finished (round %d of a reused limiter; %s)", e-1, round, desc)
				return
			}
			c.Add("reuse_untimed_waits", 1)
		} else {
			// let the batch drain with nobody waiting
			allDone := func() bool {
				for i := 0; i < n; i++ {
					if !s.finished[i].Load() {
						return false
					}
				}
				return s.inside.Load() == 0
			}
			if !waitFor(allDone) {
				c.Run().Inconclusive(fmt.Sprintf("%s[%d] reuse: batch did not drain", c.Engine, c.Index))
				return
			}
			for k := 0; k < 20; k++ {
				runtime.Gosched()
			}
			time.Sleep(50 * time.Microsecond)
			c.Add("reuse_drains_without_wait", 1)
		}
		// Reusing the limiter while the helper goroutine of an expired timed Wait is
		// still waking up trips sync.WaitGroup's reuse check (a process-fatal panic
		// on the unchanged tree, outside this property's statement: see DESIGN 6).
		// Wait, by event, until the batch's goroutines are gone.
		if !waitFor(func() bool { return runtime.NumGoroutine() <= baseGoroutines }) {
			buf := make([]byte, 1<<16)
			buf = buf[:runtime.Stack(buf, true)]
			c.Run().Inconclusive(fmt.Sprintf("%s[%d] reuse: goroutines of the batch did not exit (%d > baseline %d; %s)\n%s", c.Engine, c.Index, runtime.NumGoroutine(), baseGoroutines, desc, buf))
			return
		}
		for i := 0; i < n; i++ {
			if untimed {
				if e := s.exec[i].Load(); e != 1 {
					c.Failf("exec-count", "function %d of round %d was executed %d times (%s)", i, round, e, desc)
					return
				}
			}
		}
		if o := s.over.Load(); o > 0 {
			c.Failf("bound-exceeded", "%d function entries saw more than %d functions inside (%s)", o, N, desc)
			return
		}
	}
	if handler {
		// as in the scenario engine: the handler call is not ordered against Wait()
		waitUpTo(4*time.Second, func() bool { hmu.Lock(); defer hmu.Unlock(); return handled >= wantHandled })
		hmu.Lock()
		h := handled
		hmu.Unlock()
		if h != wantHandled {
			c.Failf("handler-values", "panic handler was called %d times for %d panicking functions (%s)", h, wantHandled, desc)
			return
		}
	}
	c.Add("reuse_scenarios", 1)
	c.Distinct(ev.HashString(desc))
	if c.WantSample() {
		c.Sample("reuse: " + desc)
	}
}

// holdCase: functions that run for a while. An untimed Wait() is started while
// every gated function of the batch is inside; the functions are then released
// one at a time, each after a hold of its own (mostly a few hundred
// microseconds to a few milliseconds, in some cases the better part of a
// second). The durations only shape the workload: the verdict is the
// order of events - Wait() has returned although a function's gate has not been
// opened yet, so that function cannot have finished.
func holdCase(c *ev.Case) {
	rng := c.Rng
	if stuckWaits.Load() >= 3 {
		c.Add("cases_skipped_after_stuck_waits", 1)
		return
	}
	limit := rng.Pick(1, 2, 3, 4, 6, 0)
	N := limit
	if N < 1 {
		N = 3
	}
	nb := rng.Range(1, N) // never more gated functions than slots: every Go() returns
	nother := rng.Intn(3)
	kinds := make([]int, 0, nb+nother)
	for i := 0; i < nother; i++ {
		kinds = append(kinds, rng.Pick(kindReturn, kindPanic, kindGoexit))
	}
	for i := 0; i < nb; i++ {
		kinds = append(kinds, kindBlock)
	}
	n := len(kinds)
	long := rng.Chance(1, 12)
	holds := make([]time.Duration, nb)
	for i := range holds {
		holds[i] = time.Duration(rng.Range(100, 3000)) * time.Microsecond
	}
	if long {
		holds[rng.Intn(nb)] = time.Duration(rng.Range(600, 800)) * time.Millisecond
	}
	s := newScenario(c, limit, kinds, rng.Chance(3, 4), false)
	if s.l == nil {
		return
	}
	c.Logf("hold scenario %s holds=%v", s.describe(), holds)
	released := make([]bool, n)
	if !c.Guard("Go", func() {
		for i := 0; i < n; i++ {
			s.goCall[i].Store(true)
			s.l.Go(s.task(i))
			s.goRet[i].Store(true)
		}
	}) {
		return
	}
	if !waitFor(func() bool {
		for i := nother; i < n; i++ {
			if !s.entered[i].Load() {
				return false
			}
		}
		return true
	}) {
		s.stuck("hold: waiting for the gated functions to get in", int64(n), int64(nb))
		s.drain(released)
		return
	}
	var waitReturned atomic.Bool
	waitRet := make(chan any, 1)
	go func() {
		defer func() { waitRet <- recover() }()
		s.l.Wait()
		waitReturned.Store(true)
	}()
	order := rng.Perm(nb)
	for k, o := range order {
		i := nother + o
		time.Sleep(holds[k])
		if waitReturned.Load() {
			c.Failf("wait-early", "Wait() (no timeout) returned while function %d was still running: its gate had not been opened yet, %d of %d gated functions had been released (%s)", i, k, nb, s.describe())
			s.drain(released)
			return
		}
		c.Logf("release function %d after holding it for %v", i, holds[k])
		released[i] = true
		close(s.gates[i])
		if k < nb-1 && !waitFor(func() bool { return s.finished[i].Load() }) {
			c.Run().Inconclusive(fmt.Sprintf("%s[%d] hold: a released function did not finish", c.Engine, c.Index))
			s.drain(released)
			return
		}
	}
	var waitPanic any
	if !waitFor(func() bool {
		select {
		case waitPanic = <-waitRet:
			return true
		default:
			return false
		}
	}) {
		s.stuck("hold: Wait() does not return although every gated function was released", int64(n), 0)
		return
	}
	if waitPanic != nil {
		c.Failf("panic/Wait", "Limiter.Wait panicked: %v", waitPanic)
		return
	}
	for i := 0; i < n; i++ {
		if !s.finished[i].Load() {
			c.Failf("wait-early", "Wait() returned while function %d had not finished (%s)", i, s.describe())
			return
		}
		if e := s.exec[i].Load(); e != 1 {
			c.Failf("exec-count", "function %d was executed %d times (%s)", i, e, s.describe())
			return
		}
	}
	c.Add("hold_scenarios", 1)
	if long {
		c.Add("hold_scenarios_long", 1)
	}
	c.Distinct(ev.HashString(fmt.Sprintf("hold %s %v", s.describe(), holds)))
	if c.WantSample() {
		c.Sample(fmt.Sprintf("hold: %s, Wait() pending while the gated functions are released after %v", s.describe(), holds))
	}
}

// twoLimitersCase: the panic handler of limiter A is kept busy (it blocks on a
// gate of the harness) while a function of an unrelated limiter B panics: B's
// value must still reach B's handler and B's slot must come back, whatever A's
// handler is doing.
func twoLimitersCase(c *ev.Case) {
	rng := c.Rng
	if stuckWaits.Load() >= 3 {
		c.Add("cases_skipped_after_stuck_waits", 1)
		return
	}
	nB := rng.Range(1, 4)
	gateA := make(chan struct{})
	var aIn, bHandled atomic.Int64
	var A, B *goz.Limiter
	if !c.Guard("NewLimiter", func() {
		A = goz.NewLimiter(rng.Range(1, 3)).SetPanicHandler(func(any) { aIn.Add(1); <-gateA })
		B = goz.NewLimiter(nB).SetPanicHandler(func(any) { bHandled.Add(1) })
	}) {
		return
	}
	defer func() {
		select {
		case <-gateA:
		default:
			close(gateA)
		}
	}()
	c.Logf("limiter A: handler blocks; limiter B (limit %d): panicking function, then %d gated functions", nB, nB)
	if !c.Guard("Go", func() { A.Go(func() { panic("a") }) }) {
		return
	}
	if !waitFor(func() bool { return aIn.Load() == 1 }) {
		c.Run().Inconclusive(fmt.Sprintf("%s[%d]: handler of limiter A was not entered", c.Engine, c.Index))
		return
	}
	var bRan atomic.Int64
	np := rng.Range(1, 3)
	for i := 0; i < np; i++ {
		if !c.Guard("Go", func() { B.Go(func() { defer bRan.Add(1); panic("b") }) }) {
			return
		}
	}
	if !waitFor(func() bool { return bHandled.Load() == int64(np) }) {
		if bRan.Load() == int64(np) {
			c.Failf("handler-blocked-by-other-limiter", "%d functions of limiter B panicked and ended, but only %d panic values reached B's handler while the handler of the unrelated limiter A is still running", np, bHandled.Load())
		} else {
			c.Run().Inconclusive(fmt.Sprintf("%s[%d]: functions of limiter B did not run", c.Engine, c.Index))
		}
		return
	}
	// B's slots must all be back
	var in atomic.Int64
	gate := make(chan struct{})
	var sub sync.WaitGroup
	sub.Add(1)
	go func() {
		defer sub.Done()
		for i := 0; i < nB; i++ {
			B.Go(func() { in.Add(1); <-gate; in.Add(-1) })
		}
	}()
	if !waitFor(func() bool { return in.Load() == int64(nB) }) {
		c.Failf("slot-leak", "after %d handled panics only %d of %d gated functions were admitted by limiter B while limiter A's handler is still running", np, in.Load(), nB)
		close(gate)
		return
	}
	close(gate)
	sub.Wait()
	close(gateA)
	done := make(chan struct{})
	go func() { defer close(done); A.Wait(); B.Wait() }()
	if !waitFor(func() bool {
		select {
		case <-done:
			return true
		default:
			return false
		}
	}) {
		c.Run().Inconclusive(fmt.Sprintf("%s[%d]: Wait of A/B did not return", c.Engine, c.Index))
		return
	}
	c.Add("two_limiter_scenarios", 1)
	c.Distinct(ev.Mix(uint64(nB), uint64(np), uint64(c.Index%50)))
	if c.WantSample() {
		c.Sample(fmt.Sprintf("two limiters: A's handler blocked; B (limit %d) handles %d panics and then admits %d gated functions", nB, np, nB))
	}
}

func main() {
	r := ev.New("C19")
	r.Rule("one case = (limit, task kinds return/block/panic, handler on/off, submitter count, release order) drawn from the seed; tasks are gated by channels; distinct = distinct scenario descriptions")
	r.Assume("the in-flight counter is incremented as the first and decremented as the last action of each submitted function; an entry that sees more than n inside is the violation witness")
	r.Assume("Wait() is called after all Go() calls have returned")
	r.Assume("the configured handler is the one passed to the last SetPanicHandler call made before the first submission; the value it receives is the panic value itself (same dynamic type, equal; the same pointer for pointers), at some time after the function panicked - not necessarily before Wait() returns")
	r.Assume("the statement has no data-race clause: the -race builds are used for their different timing and for runtime fatals only; race reports are counted (race_reports_not_judged), not judged (a timed Wait that expires leaves a goroutine parked in WaitGroup.Wait, which the detector reports when the limiter is reused)")
	r.Assume("a wait that does not complete within 15 s is a verdict only when the state seen then says so: the token channel is confirmed full (reflection) while fewer than n functions are inside, or (whatever the representation) a Go call stays pending for 20 s while fewer than n functions are running, all of them held by the harness, and every other function that started has finished; otherwise inconclusive")
	r.CasesProc("scenario", r.N(12000, 300000), ev.Opt{Procs: 8, Workers: 4, AlwaysLog: true, MaxCaseSeconds: 120}, scenarioCase)
	r.CasesProc("leak", r.N(2000, 50000), ev.Opt{Procs: 4, Workers: 4, AlwaysLog: true, MaxCaseSeconds: 120}, leakCase)
	r.CasesProc("two-limiters", r.N(1500, 40000), ev.Opt{Procs: 6, Workers: 4, AlwaysLog: true, MaxCaseSeconds: 120}, twoLimitersCase)
	r.CasesProc("big-limit", r.N(160, 4000), ev.Opt{Procs: 8, Workers: 2, AlwaysLog: true, MaxCaseSeconds: 120}, bigLimitCase)
	r.CasesProc("hold", r.N(480, 8000), ev.Opt{Procs: 8, Workers: 8, AlwaysLog: true, MaxCaseSeconds: 120}, holdCase)
	r.CasesProc("handler-hold", r.N(400, 8000), ev.Opt{Procs: 4, Workers: 8, AlwaysLog: true, MaxCaseSeconds: 120}, handlerHoldCase)
	r.Require("handler_hold_scenarios", 300)
	// park/wake windows: streams of empty functions through 1..3 slots (churn.go)
	r.CasesProc("churn", r.N(64, 640), ev.Opt{Procs: 4, Workers: 4, AlwaysLog: true, MaxCaseSeconds: 300}, churnCase)
	r.Require("churn_streams", 40)
	// the library's own LogPanic as the handler / the built-in reporter, values rendered at awkward sizes (logpanic.go)
	r.CasesProc("logpanic", r.N(3000, 60000), ev.Opt{Procs: 8, Workers: 2, AlwaysLog: true, MaxCaseSeconds: 120}, logPanicCase)
	r.Require("logpanic_scenarios", 2000)
	// SetPanicHandler again between submissions (rehandler.go)
	r.CasesProc("rehandler", r.N(3000, 60000), ev.Opt{Procs: 4, Workers: 2, AlwaysLog: true, MaxCaseSeconds: 120}, rehandlerCase)
	r.Require("rehandler_scenarios", 2000)
	r.Require("rehandler_first_handler_after_first_go", 500)
	r.Require("rehandler_values", 5000)
	r.Require("logpanic_depth_above_32", 500)
	r.Require("logpanic_builtin_reporter", 500)
	r.Require("logpanic_values_1024", 50)
	r.Require("churn_submissions_limit_1", 2000000)
	r.CasesProc("reuse", r.N(4000, 100000), ev.Opt{Procs: 12, Workers: 1, AlwaysLog: true, MaxCaseSeconds: 120}, reuseCase)
	r.CasesProc("reuse/race", r.N(800, 20000), ev.Opt{Bin: "race", Procs: 8, Workers: 1, AlwaysLog: true, MaxCaseSeconds: 120, IgnoreRaces: true}, reuseCase)
	r.CasesProc("scenario/race", r.N(3000, 60000), ev.Opt{Bin: "race", Procs: 8, Workers: 2, AlwaysLog: true, MaxCaseSeconds: 120, IgnoreRaces: true}, scenarioCase)
	r.Require("scenarios", 1000)
	r.Require("bound_tight_observations", 1000)
	r.Require("panics_handled", 500)
	r.Require("refills_ok", 300)
	r.Require("scenarios_default_limit", 50)
	r.Require("reuse_scenarios", 1000)
	r.Require("two_limiter_scenarios", 1000)
	r.Require("timed_waits_expired", 500)
	r.Require("reuse_drains_without_wait", 300)
	r.Require("reuse_untimed_waits", 1000)
	r.Require("reuse_surplus_submissions", 300)
	r.Require("leak_scenarios", 500)
	r.Require("scenarios_panic_without_handler", 300)
	r.Require("scenarios_handler_replaced", 500)
	r.Require("scenarios_concurrent_submitters", 1000)
	r.Require("scenarios_more_gated_than_slots", 1000)
	r.Require("goexit_functions", 200)
	r.Require("default_limit_tight", 50)
	for _, t := range panicValueNames {
		r.Require("panic_values_"+t, 200)
	}
	r.Require("big_limit_scenarios", 100)
	r.Require("big_limit_tight", 100)
	r.Require("hold_scenarios", 300)
	r.Require("hold_scenarios_long", 20)
	r.Finish()
}
