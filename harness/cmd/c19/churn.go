package main

// Engine "churn": one or two submitters hand hundreds of thousands of empty or nearly
// empty functions to a limiter of 1..3 slots, so that "the limiter is full, the caller of
// Go is about to park" and "the last running function gives its slot back" coincide over
// and over — the window in which a hand-rolled park/wake protocol loses a wake-up.
//
// Verdicts. (a) The bound and exactly-once, from counters. (b) slot-unavailable: the
// submission stream stops — a Go call is pending, no submitted function is running, every
// function whose Go call returned has finished — and stays like that for 20 s. On a correct
// limiter that state lasts for the microseconds a finished function's goroutine needs to give
// its slot back; the 20 s are a watchdog around "never", not a performance bound, and the
// verdict is the state seen when it fires, not the time. A stop in any other state is
// inconclusive.

import (
	"fmt"
	"runtime"
	"sync/atomic"
	"time"

	"github.com/welllog/golib/goz"

	"verif/ev"
)

func churnCase(c *ev.Case) {
	rng := c.Rng
	limit := rng.Pick(1, 1, 1, 1, 2, 3, 0)
	N := int64(limit)
	if limit < 1 {
		N = 3
	}
	subs := rng.Pick(1, 1, 1, 2)
	rounds := 120000
	if c.Thorough() {
		rounds = 600000
	}
	yieldIn := rng.Pick(0, 0, 0, 7, 64)  // every k-th function yields once inside
	yieldOut := rng.Pick(0, 0, 0, 5, 61) // every k-th submission is followed by a yield of the submitter
	var l *goz.Limiter
	if !c.Guard("NewLimiter", func() { l = goz.NewLimiter(limit) }) {
		return
	}
	var inside, over, exec, fin, begun, returned atomic.Int64
	fn := func(i int) func() {
		return func() {
			if inside.Add(1) > N {
				over.Add(1)
			}
			exec.Add(1)
			if yieldIn > 0 && i%yieldIn == 0 {
				runtime.Gosched()
			}
			inside.Add(-1)
			fin.Add(1) // the function's last action
		}
	}
	done := make(chan any, subs)
	for g := 0; g < subs; g++ {
		go func(g int) {
			defer func() { done <- recover() }()
			for i := g; i < rounds; i += subs {
				begun.Add(1)
				l.Go(fn(i))
				returned.Add(1)
				if yieldOut > 0 && i%yieldOut == 0 {
					runtime.Gosched()
				}
			}
		}(g)
	}
	// watch the stream
	left := subs
	last, lastAt := int64(-1), time.Now()
	for left > 0 {
		select {
		case p := <-done:
			if p != nil {
				c.Failf("panic/Go", "Limiter.Go panicked: %v", p)
				return
			}
			left--
			continue
		case <-time.After(20 * time.Millisecond):
		}
		if r := returned.Load() + fin.Load(); r != last {
			last, lastAt = r, time.Now()
			continue
		}
		if time.Since(lastAt) < 20*time.Second {
			continue
		}
		b, r, f, in := begun.Load(), returned.Load(), fin.Load(), inside.Load()
		if b > r && in == 0 && f >= r {
			c.Failf("slot-unavailable", "limit %d (effective %d), %d submitter(s): after %d submissions a Go call has been pending for 20 s although no submitted function is running (inside=0) and all %d functions whose Go call returned have finished: the caller never obtains a slot, its function is never executed", limit, N, subs, r, f)
		} else {
			c.Run().Inconclusive(fmt.Sprintf("%s[%d]: submission stream stopped in a state that is no verdict (begun=%d returned=%d finished=%d inside=%d)", c.Engine, c.Index, b, r, f, in))
		}
		return
	}
	waited := make(chan any, 1)
	go func() {
		defer func() { waited <- recover() }()
		l.Wait()
	}()
	select {
	case p := <-waited:
		if p != nil {
			c.Failf("panic/Wait", "Limiter.Wait panicked: %v", p)
			return
		}
	case <-time.After(30 * time.Second):
		c.Run().Inconclusive(fmt.Sprintf("%s[%d]: Wait() did not return within 30 s after the last submission (finished=%d of %d)", c.Engine, c.Index, fin.Load(), rounds))
		return
	}
	if f := fin.Load(); f != int64(rounds) {
		c.Failf("wait-early", "Wait() returned while %d of %d submitted functions had not finished (limit %d)", int64(rounds)-f, rounds, limit)
		return
	}
	if e := exec.Load(); e != int64(rounds) {
		c.Failf("exec-count", "%d functions were submitted, %d executions were counted (limit %d)", rounds, e, limit)
		return
	}
	if o := over.Load(); o > 0 {
		c.Failf("bound-exceeded", "%d function entries saw more than %d functions inside (limit %d)", o, N, limit)
		return
	}
	c.Add("churn_streams", 1)
	c.Add("churn_submissions", int64(rounds))
	if limit == 1 {
		c.Add("churn_submissions_limit_1", int64(rounds))
	}
	c.Distinct(ev.Mix(uint64(limit+1), uint64(subs), uint64(yieldIn), uint64(yieldOut), uint64(c.Index)))
	if c.WantSample() {
		c.Sample(fmt.Sprintf("churn: limit %d, %d submitter(s), %d empty functions (every %d-th yields inside, submitter yields after every %d-th): bound held, each ran once, Wait returned after the last one", limit, subs, rounds, yieldIn, yieldOut))
	}
}
