package main

import (
	"fmt"
	"sync/atomic"
	"time"

	"github.com/welllog/golib/goz"

	"verif/ev"
)

// handlerHoldCase: the panic handler is slow (it blocks on a gate of the harness).
// An untimed Wait() is started while every handler call is still inside the gate.
// Event order decides: Wait() has returned although the value of a function that
// panicked has not been delivered (the handler has not returned) = the function had
// not finished. With an instantaneous handler the same defect is a window of a few
// instructions; with a handler that logs or does I/O it is every run.
func handlerHoldCase(c *ev.Case) {
	rng := c.Rng
	limit := rng.Pick(1, 2, 3, 4, 6)
	k := rng.Range(1, limit) // all panicking functions run at once: every Go() returns
	l := goz.NewLimiter(limit)
	gate := make(chan struct{})
	var inside, delivered atomic.Int64
	if !c.Guard("SetPanicHandler", func() {
		l.SetPanicHandler(func(v any) {
			inside.Add(1)
			<-gate
			delivered.Add(1)
		})
	}) {
		return
	}
	if !c.Guard("Go", func() {
		for i := 0; i < k; i++ {
			v := fmt.Sprintf("boom-%d-%d", c.Index, i)
			l.Go(func() { panic(v) })
		}
	}) {
		close(gate)
		return
	}
	if !waitUpTo(15*time.Second, func() bool { return inside.Load() == int64(k) }) {
		close(gate)
		c.Run().Inconclusive(fmt.Sprintf("%s[%d]: %d of %d handler calls began within 15s", c.Engine, c.Index, inside.Load(), k))
		return
	}
	done := make(chan struct{})
	go func() {
		defer func() { recover(); close(done) }()
		l.Wait()
	}()
	hold := time.Duration(rng.Range(300, 3000)) * time.Microsecond
	select {
	case <-done:
		n := delivered.Load()
		close(gate)
		c.Failf("wait-before-handler", "limit %d, %d functions panicked, every handler call is still running (blocked on a gate): Wait() returned although only %d of the %d panic values had been delivered", limit, k, n, k)
		return
	case <-time.After(hold):
	}
	close(gate)
	select {
	case <-done:
	case <-time.After(20 * time.Second):
		c.Run().Inconclusive(fmt.Sprintf("%s[%d]: Wait() did not return within 20s after the handlers were released", c.Engine, c.Index))
		return
	}
	if delivered.Load() != int64(k) {
		c.Failf("wait-before-handler", "Wait() returned with %d of %d panic values delivered", delivered.Load(), k)
		return
	}
	c.Add("handler_hold_scenarios", 1)
	c.Add("handler_hold_waits_kept_pending", 1)
	c.Distinct(ev.Mix(uint64(limit), uint64(k), uint64(hold), 4242))
	if c.WantSample() {
		c.Sample(fmt.Sprintf("handler-hold: limit %d, %d panicking functions whose handler blocks; Wait() stayed pending for %v and returned after the handlers were released", limit, k, hold))
	}
}
