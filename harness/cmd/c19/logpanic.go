package main

// Engine "logpanic": the configured handler is the library's own LogPanic(logger, depth),
// or no handler at all (the built-in reporter), and the panic values have renderings of
// every awkward size: empty, 1 byte, 199..201 (the reporters' initial buffer), 1023..1025,
// 4095..4097, 65535..65537 bytes, multi-byte text cut at those sizes, values whose
// formatting method panics. Depths from 1 to 5000 frames. What is judged is what the
// statement says: the process survives (a crash of the child process is attributed by the
// parent), every function runs once, the slot comes back, Wait returns after the last one.
// What the reporters write is not judged.

import (
	"fmt"
	"io/fs"
	"strings"
	"sync/atomic"
	"time"

	"github.com/welllog/golib/goz"

	"verif/ev"
)

type countingLogger struct{ calls atomic.Int64 }

func (l *countingLogger) Error(args ...any) { l.calls.Add(1) }

type sizedErr struct{ s string }

func (e sizedErr) Error() string { return e.s }

func sizedText(rng *ev.Rand, n int) string {
	if n <= 0 {
		return ""
	}
	unit := rng.PickStr("x", "é", "世", "😀", "a\n", "%v", "\x00")
	s := strings.Repeat(unit, n/len(unit)+1)[:n]
	return s // may end inside a multi-byte rune: a panic value is any value
}

func logPanicCase(c *ev.Case) {
	rng := c.Rng
	limit := rng.Range(1, 4)
	depth := rng.Pick(1, 2, 5, 6, 10, 16, 31, 32, 33, 48, 63, 64, 65, 100, 128, 256, 1000, 5000)
	withHandler := rng.Chance(2, 3)
	n := rng.Range(limit+1, limit+6)
	sizes := []int{0, 1, 2, 199, 200, 201, 255, 256, 511, 512, 1023, 1024, 1025, 2047, 2048, 4095, 4096, 4097, 8192, 65535, 65536, 65537}
	var l *goz.Limiter
	lg := &countingLogger{}
	if !c.Guard("NewLimiter", func() {
		l = goz.NewLimiter(limit)
		if withHandler {
			l.SetPanicHandler(goz.LogPanic(lg, depth))
		}
	}) {
		return
	}
	var inside, over, fin atomic.Int64
	exec := make([]atomic.Int32, n)
	panics := 0
	for i := 0; i < n; i++ {
		i := i
		var pv any
		if rng.Chance(3, 4) {
			panics++
			sz := sizes[rng.Intn(len(sizes))]
			if rng.Chance(1, 4) {
				sz += rng.Range(-3, 3)
			}
			// "panic: " is 7 bytes and "  Traceback:" 12: sizes of the whole header line, too
			if rng.Chance(1, 3) {
				sz -= rng.Pick(7, 12, 19)
			}
			txt := sizedText(rng, sz)
			switch rng.Intn(5) {
			case 0:
				pv = txt
			case 1:
				pv = sizedErr{txt}
			case 2:
				pv = []byte(txt)
			case 3:
				var perr *fs.PathError // Error() on it panics
				pv = perr
			default:
				pv = fmt.Errorf("%s", txt)
			}
			c.Add(fmt.Sprintf("logpanic_values_%d", len(txt)), 1)
		}
		fn := func() {
			defer fin.Add(1)
			if inside.Add(1) > int64(limit) {
				over.Add(1)
			}
			defer inside.Add(-1)
			exec[i].Add(1)
			if pv != nil {
				panic(pv)
			}
		}
		c.Logf("Go #%d panic value %T of %d bytes, handler=%v depth=%d", i, pv, len(fmt.Sprintf("%.70000s", safeSprint(pv))), withHandler, depth)
		if !c.Guard("Go", func() { l.Go(fn) }) {
			return
		}
	}
	waited := make(chan any, 1)
	go func() {
		defer func() { waited <- recover() }()
		l.Wait()
	}()
	select {
	case p := <-waited:
		if p != nil {
			c.Failf("panic/Wait", "Limiter.Wait panicked: %v", p)
			return
		}
	case <-time.After(30 * time.Second):
		if inside.Load() == 0 && fin.Load() == int64(n) {
			c.Failf("wait-hang", "all %d functions have finished (%d of them panicked, handler LogPanic=%v depth %d) but Wait() has not returned for 30 s: a panicking function's completion was not counted", n, panics, withHandler, depth)
		} else {
			c.Run().Inconclusive(fmt.Sprintf("%s[%d]: Wait() did not return within 30 s (finished=%d of %d)", c.Engine, c.Index, fin.Load(), n))
		}
		return
	}
	for i := range exec {
		if e := exec[i].Load(); e != 1 {
			c.Failf("exec-count", "function %d was executed %d times", i, e)
			return
		}
	}
	if o := over.Load(); o > 0 {
		c.Failf("bound-exceeded", "%d function entries saw more than %d functions inside", o, limit)
		return
	}
	// the slots are all back: limit gated functions get in together
	var in atomic.Int64
	gate := make(chan struct{})
	go func() {
		defer func() { recover() }()
		for i := 0; i < limit; i++ {
			l.Go(func() { in.Add(1); <-gate; in.Add(-1) })
		}
	}()
	ok := waitUpTo(20*time.Second, func() bool { return in.Load() == int64(limit) })
	got := in.Load()
	close(gate)
	if !ok {
		c.Failf("slot-leak", "after %d panics (handler LogPanic=%v depth %d) only %d of %d fresh gated functions were admitted within 20 s while nothing else was running: a slot was not returned", panics, withHandler, depth, got, limit)
		return
	}
	c.Guard("Wait", func() { l.Wait() })
	c.Add("logpanic_scenarios", 1)
	c.Add("logpanic_panics", int64(panics))
	if withHandler {
		c.Add("logpanic_with_LogPanic_handler", 1)
		if depth > 32 {
			c.Add("logpanic_depth_above_32", 1)
		}
		c.Add("logpanic_logger_calls", lg.calls.Load())
	} else {
		c.Add("logpanic_builtin_reporter", 1)
	}
	c.Distinct(ev.Mix(uint64(limit), uint64(depth), uint64(n), uint64(panics), uint64(c.Index)))
	if c.WantSample() {
		c.Sample(fmt.Sprintf("logpanic: limit %d, %d functions, %d panic with values rendered at sizes around 0/200/1024/4096/65536 bytes, handler LogPanic(depth %d)=%v: process alive, each ran once, Wait returned, %d fresh gated functions admitted", limit, n, panics, depth, withHandler, limit))
	}
}

// safeSprint renders a value for the log even if its formatting method panics.
func safeSprint(v any) (s string) {
	defer func() {
		if recover() != nil {
			s = fmt.Sprintf("%T(unprintable)", v)
		}
	}()
	return fmt.Sprint(v)
}
