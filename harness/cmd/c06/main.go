// C06 — Trie Replace / ReplaceWithMask are total and rewrite exactly the matched regions.
//
// Runtime monitor: every case builds a real algz.Trie from a generated pattern
// list; for every text the occurrences are found by brute force (byte-wise
// strings.Index at every offset), turned into a covered-byte mask and into the
// maximal covered regions R1..Rm with their occurrence counts n1..nm, and
//
//   - ReplaceWithMask(text, m) must equal the text in which every decoding unit
//     (rune; an invalid byte is one unit) with a covered byte is replaced by m;
//   - Replace(text, r) must parse as u0 r^k1 u1 … r^km um with 1 <= ki <= ni,
//     u0..um being the uncovered stretches in order (decided by a small DP, so
//     empty replacements and replacements that collide with the text are judged
//     correctly);
//   - neither call may panic.
//
// Signature suffixes name the *input class* (decided from the input alone):
//
//	[needs-lookback]  a single forward merge pass over the occurrences (ordered by end)
//	                  leaves overlapping intervals — the known defect of the pinned tree
//	[fffd-alias]      some pattern contains a real U+FFFD and the text is not valid UTF-8
//	                  (known C05 defect leaking into Replace)
//
// The engine rand/mixed-weak (patterns made of lone bytes of multi-byte runes, which
// may occur inside a valid rune of the text) judges a result under the two readings
// of "occurrence" (byte-wise / unit-aligned); see mixedCase.
//
// strength.go adds histories and sizes (rebuild stages, interleaved tries, kept
// results, reused text buffers, long patterns, big texts, wide nodes, cold start);
// their signature suffixes name the situation in which the call was made.
package main

import (
	"fmt"
	"strings"
	"unicode/utf8"

	"github.com/welllog/golib/algz"

	"verif/ev"
)

type sut struct {
	c       *ev.Case
	t       *algz.Trie
	pats    []string
	dpats   []string
	hasFFFD bool
	hash    uint64
	flip    bool
}

func q(ss []string) string {
	var b strings.Builder
	b.WriteByte('[')
	for i, s := range ss {
		if i > 0 {
			b.WriteByte(' ')
		}
		if i >= 24 {
			fmt.Fprintf(&b, "… +%d", len(ss)-i)
			break
		}
		fmt.Fprintf(&b, "%+q", s)
	}
	b.WriteByte(']')
	return b.String()
}

func build(c *ev.Case, pats []string) *sut {
	s := &sut{c: c, t: &algz.Trie{}, pats: pats, dpats: distinctNonEmpty(pats)}
	s.hasFFFD = hasRune(pats, utf8.RuneError)
	s.hash = hashStrings(uint64(len(pats)), pats)
	s.flip = c.Index%2 == 1
	// 1 trie in 8 is built, used, extended and built again: the second build must
	// give the same contract as a single one
	cut := -1
	if len(pats) > 1 && c.Rng.Chance(1, 8) {
		cut = c.Rng.Range(1, len(pats)-1)
	}
	for i, p := range pats {
		if i == cut {
			if !c.Guard("BuildFailureLinks", func() { s.t.BuildFailureLinks() }) {
				return nil
			}
			c.Logf("BuildFailureLinks() (intermediate)")
			all := distinctNonEmpty(pats)
			for k := 0; k < 2; k++ {
				text := all[c.Rng.Intn(len(all))] + all[c.Rng.Intn(len(all))]
				c.Guard("Replace", func() { _ = s.t.Replace(text, "#") })
				c.Guard("ReplaceWithMask", func() { _ = s.t.ReplaceWithMask(text, '*') })
			}
			if c.Failed() {
				return nil
			}
			c.Add("rebuilds", 1)
		}
		if !c.Guard("Insert", func() { s.t.Insert(p) }) {
			return nil
		}
		c.Logf("Insert(%+q)", p)
	}
	if !c.Guard("BuildFailureLinks", func() { s.t.BuildFailureLinks() }) {
		return nil
	}
	c.Logf("BuildFailureLinks()")
	c.Add("tries_built", 1)
	if len(s.dpats) > 0 {
		nEmpty := 0
		for _, p := range pats {
			if p == "" {
				nEmpty++
			}
		}
		if nEmpty > 0 {
			c.Add("sets_with_an_empty_pattern_among_others", 1)
		}
		if len(pats)-nEmpty > len(s.dpats) {
			c.Add("sets_with_a_pattern_inserted_twice", 1)
		}
	}
	if s.hasFFFD {
		c.Add("sets_with_real_U+FFFD", 1)
	}
	return s
}

type region struct {
	start, stop, n int
}

// analyse returns the covered-byte mask, the maximal covered regions with their
// occurrence counts and the uncovered stretches u0..um.
func analyse(text string, occs []occ) (covered []bool, regs []region, unc []string) {
	covered = make([]bool, len(text))
	for _, o := range occs {
		for i := o.start; i < o.stop; i++ {
			covered[i] = true
		}
	}
	begin := 0
	for i := 0; i < len(text); {
		if !covered[i] {
			i++
			continue
		}
		j := i
		for j < len(text) && covered[j] {
			j++
		}
		regs = append(regs, region{start: i, stop: j})
		unc = append(unc, text[begin:i])
		begin = j
		i = j
	}
	unc = append(unc, text[begin:])
	k := 0 // occurrences are ordered by stop, regions are disjoint and increasing
	for _, o := range occs {
		for k < len(regs) && regs[k].stop < o.stop {
			k++
		}
		if k < len(regs) {
			regs[k].n++
		}
	}
	return
}

// needsLookback says whether one forward pass that merges an interval into its
// predecessor when they overlap (intervals ordered by end, then start) leaves
// intervals that still overlap. Input classification only, never a verdict.
func needsLookback(occs []occ) bool {
	type iv struct{ a, b int }
	sc := make([]iv, len(occs))
	for i, o := range occs {
		sc[i] = iv{o.start, o.stop}
	}
	for i := 0; i < len(sc)-1; {
		if sc[i].b > sc[i+1].a {
			if sc[i].b < sc[i+1].b {
				sc[i].b = sc[i+1].b
			}
			if sc[i].a > sc[i+1].a {
				sc[i].a = sc[i+1].a
			}
			sc = append(sc[:i+1], sc[i+2:]...)
		} else {
			i++
		}
	}
	for i := 0; i+1 < len(sc); i++ {
		if sc[i].b > sc[i+1].a {
			return true
		}
	}
	return false
}

// swallowsSeveral says whether, after that single forward pass, some interval
// overlaps two or more earlier intervals that are disjoint from one another (the
// "long occurrence ending late that starts before several earlier, mutually
// disjoint occurrences" of the quantifier: one step back is not enough, the step
// back has to cascade). Input classification only, never a verdict.
func swallowsSeveral(occs []occ) bool {
	type iv struct{ a, b int }
	sc := make([]iv, len(occs))
	for i, o := range occs {
		sc[i] = iv{o.start, o.stop}
	}
	for i := 0; i < len(sc)-1; {
		if sc[i].b > sc[i+1].a {
			if sc[i].b < sc[i+1].b {
				sc[i].b = sc[i+1].b
			}
			if sc[i].a > sc[i+1].a {
				sc[i].a = sc[i+1].a
			}
			sc = append(sc[:i+1], sc[i+2:]...)
		} else {
			i++
		}
	}
	// the ends are non-decreasing, so the earlier intervals that reach into sc[j] are the ones just before it
	for j := 2; j < len(sc); j++ {
		if sc[j-1].b > sc[j].a && sc[j-2].b > sc[j].a && sc[j-2].b <= sc[j-1].a {
			return true
		}
	}
	return false
}

func expectedMask(text string, covered []bool, mask rune) string {
	var b strings.Builder
	for i := 0; i < len(text); {
		_, size := utf8.DecodeRuneInString(text[i:])
		cov := false
		for k := i; k < i+size; k++ {
			if covered[k] {
				cov = true
			}
		}
		if cov {
			b.WriteRune(mask)
		} else {
			b.WriteString(text[i : i+size])
		}
		i += size
	}
	return b.String()
}

// parses decides whether out == u0 r^k1 u1 ... r^km um with 1 <= ki <= regs[i].n.
func parses(out string, unc []string, regs []region, repl string) bool {
	if !strings.HasPrefix(out, unc[0]) {
		return false
	}
	reach := map[int]bool{len(unc[0]): true}
	for j, rg := range regs {
		u := unc[j+1]
		next := map[int]bool{}
		for p := range reach {
			pos := p
			for k := 1; k <= rg.n; k++ {
				if !strings.HasPrefix(out[pos:], repl) {
					break
				}
				pos += len(repl)
				if strings.HasPrefix(out[pos:], u) {
					next[pos+len(u)] = true
				}
				if repl == "" {
					break
				}
			}
		}
		if len(next) == 0 {
			return false
		}
		reach = next
	}
	return reach[len(out)]
}

func (s *sut) checkText(text string, repls []string, masks []rune) bool {
	c := s.c
	s.hash = ev.Mix(s.hash, ev.HashString(text), 't')
	occs := occurrences(s.dpats, text)
	covered, regs, unc := analyse(text, occs)
	valid := utf8.ValidString(text)
	lookback := needsLookback(occs)
	suffix := ""
	switch {
	case s.hasFFFD && !valid:
		suffix = "[fffd-alias]"
		c.Add("texts_invalid_with_real_U+FFFD_pattern", 1)
	case lookback:
		suffix = "[needs-lookback]"
	}
	c.Add("pattern_text_pairs", 1)
	c.Add("occurrences_expected", int64(len(occs)))
	c.Add("regions_expected", int64(len(regs)))
	if !valid {
		c.Add("texts_not_valid_utf8", 1)
		if len(occs) > 0 {
			c.Add("texts_not_valid_utf8_with_occurrence", 1)
		}
	}
	if len(occs) == 0 {
		c.Add("texts_without_occurrence", 1)
	}
	if lookback {
		c.Add("texts_needing_merge_lookback", 1)
		if swallowsSeveral(occs) {
			c.Add("texts_where_a_late_occurrence_swallows_several_earlier_disjoint_ones", 1)
		}
	}
	if text == "" {
		c.Add("texts_empty", 1)
	}
	if len(regs) > 0 {
		first, last := regs[0], regs[len(regs)-1]
		if first.start == 0 {
			c.Add("texts_with_region_at_text_start", 1)
		}
		if last.stop == len(text) {
			c.Add("texts_with_region_at_text_end", 1)
		}
		if first.start == 0 && first.stop == len(text) {
			c.Add("texts_covered_completely", 1)
		}
	}
	var overlap, nested, touching bool
	for i := range occs {
		for j := i + 1; j < len(occs) && j < i+16; j++ {
			a, b := occs[i], occs[j]
			if a.stop == b.start || b.stop == a.start {
				touching = true
			}
			if b.start < a.stop && a.start < b.stop {
				overlap = true
				if (a.start <= b.start && b.stop <= a.stop) || (b.start <= a.start && a.stop <= b.stop) {
					nested = true
				}
			}
		}
	}
	if overlap {
		c.Add("texts_with_overlapping_occurrences", 1)
	}
	if nested {
		c.Add("texts_with_nested_occurrences", 1)
	}
	if touching {
		c.Add("texts_with_touching_occurrences", 1)
	}
	for _, rg := range regs {
		if rg.n > 1 {
			c.Add("regions_with_several_occurrences", 1)
		}
		c.Max("max_occurrences_in_a_region", int64(rg.n))
	}
	c.Max("max_regions_in_a_text", int64(len(regs)))

	doMask := func(mask rune) bool {
		var out string
		if c.Logging() {
			c.Witness = map[string]string{"patterns": q(s.pats), "text": fmt.Sprintf("%+q", text), "mask": fmt.Sprintf("%+q", mask)}
			c.Logf("calling ReplaceWithMask(%+q, %+q)", text, mask)
		}
		if !c.Guard("ReplaceWithMask"+suffix, func() { out = s.t.ReplaceWithMask(text, mask) }) {
			return false
		}
		want := expectedMask(text, covered, mask)
		c.Logf("ReplaceWithMask(%+q, %+q) -> %+q (expected %+q)", text, mask, out, want)
		c.Add("mask_calls", 1)
		if len(regs) > 0 {
			switch utf8.RuneLen(mask) {
			case 1:
				c.Add("mask_calls_with_occurrence_mask_of_1_byte", 1)
			case 2:
				c.Add("mask_calls_with_occurrence_mask_of_2_bytes", 1)
			case 3:
				c.Add("mask_calls_with_occurrence_mask_of_3_bytes", 1)
			case 4:
				c.Add("mask_calls_with_occurrence_mask_of_4_bytes", 1)
			}
			if len(want) > len(text) {
				c.Add("mask_calls_result_longer_than_text", 1)
			} else if len(want) < len(text) {
				c.Add("mask_calls_result_shorter_than_text", 1)
			}
		}
		if out != want {
			if utf8.RuneCountInString(out) != utf8.RuneCountInString(text) {
				c.Failf("mask-rune-count"+suffix, "patterns %s: ReplaceWithMask(%+q, %+q) = %+q has %d runes, the text has %d (expected %+q)", q(s.pats), text, mask, out, utf8.RuneCountInString(out), utf8.RuneCountInString(text), want)
			} else {
				c.Failf("mask-result"+suffix, "patterns %s: ReplaceWithMask(%+q, %+q) = %+q, expected %+q", q(s.pats), text, mask, out, want)
			}
			return false
		}
		return true
	}
	doRepl := func(repl string) bool {
		var out string
		if c.Logging() {
			c.Witness = map[string]string{"patterns": q(s.pats), "text": fmt.Sprintf("%+q", text), "replacement": fmt.Sprintf("%+q", repl)}
			c.Logf("calling Replace(%+q, %+q)", text, repl)
		}
		if !c.Guard("Replace"+suffix, func() { out = s.t.Replace(text, repl) }) {
			return false
		}
		c.Logf("Replace(%+q, %+q) -> %+q (uncovered stretches %s, %d regions)", text, repl, out, q(unc), len(regs))
		c.Add("replace_calls", 1)
		disjoint := repl != "" && !strings.Contains(text, repl[:1])
		if len(regs) > 0 {
			if repl != "" && !utf8.ValidString(repl) {
				c.Add("replace_calls_with_occurrence_replacement_not_valid_utf8", 1)
			}
			if len(repl) < 64 && len(occurrences(s.dpats, repl)) > 0 {
				// the replacement itself contains a pattern: the result must not be scanned again
				c.Add("replace_calls_with_occurrence_replacement_contains_a_pattern", 1)
			}
			if repl == "" && len(text) <= 64 && len(occurrences(s.dpats, strings.Join(unc, ""))) > 0 {
				// removing the regions brings the pieces of a pattern together
				c.Add("replace_calls_empty_replacement_result_contains_a_pattern", 1)
			}
		}
		switch {
		case repl == "":
			c.Add("replace_calls_empty_replacement", 1)
		case disjoint:
			c.Add("replace_calls_disjoint_replacement", 1)
			c.Add("replace_copies_observed", int64(strings.Count(out, repl)))
		default:
			c.Add("replace_calls_colliding_replacement", 1)
		}
		if !parses(out, unc, regs, repl) {
			sig := "replace-parse"
			if disjoint {
				if strings.ReplaceAll(out, repl, "") != strings.Join(unc, "") {
					sig = "replace-kept-bytes"
				} else {
					sig = "replace-copy-count"
				}
			}
			canon := strings.Join(unc, repl)
			ns := make([]int, len(regs))
			for i, rg := range regs {
				ns[i] = rg.n
			}
			c.Failf(sig+suffix, "patterns %s: Replace(%+q, %+q) = %+q is not u0 r^k1 u1 … with uncovered stretches %s and 1<=ki<=%v (e.g. %+q)", q(s.pats), text, repl, out, q(unc), ns, canon)
			return false
		}
		return true
	}
	if s.flip {
		for _, m := range masks {
			if !doMask(m) {
				return false
			}
		}
	}
	for _, r := range repls {
		if !doRepl(r) {
			return false
		}
	}
	if !s.flip {
		for _, m := range masks {
			if !doMask(m) {
				return false
			}
		}
	}
	return true
}

var maskPool = []rune{'*', 'é', '█', '😀', utf8.RuneError, 'a', 0x7F, 0x10FFFF}

// genRepls: one replacement over a disjoint alphabet plus one of: empty, a pattern,
// runes of the text alphabet, invalid bytes, another disjoint one. For long texts
// the colliding kinds are left out (the parse DP is quadratic for them).
func (s *sut) genRepls(al alphabet, textLen int) []string {
	rng := s.c.Rng
	out := []string{[]string{"#", "<*>", "█", "--", "\x00"}[rng.Intn(5)]}
	kind := rng.Intn(5)
	if textLen > 200 && kind != 0 {
		kind = 4
	}
	switch kind {
	case 0:
		out = append(out, "")
	case 1:
		if len(s.dpats) > 0 {
			out = append(out, s.dpats[rng.Intn(len(s.dpats))])
		}
	case 2:
		out = append(out, randRunes(rng, al, rng.Range(1, 2)))
	case 3:
		out = append(out, []string{"\xff", "\xe4\xb8", "#\x80"}[rng.Intn(3)])
	default:
		out = append(out, []string{"#", "<*>", "█"}[rng.Intn(3)])
	}
	return out
}

func (s *sut) genMasks(al alphabet) []rune {
	rng := s.c.Rng
	m := []rune{maskPool[rng.Intn(len(maskPool))]}
	if rng.Bool() {
		m = append(m, al.runes[rng.Intn(len(al.runes))])
	}
	return m
}

type cfg struct {
	als        []alphabet
	minN, maxN int
	maxLen     int
	textRunes  []int // nil: 6..48
}

func (g cfg) run(c *ev.Case) {
	rng := c.Rng
	al := g.als[rng.Intn(len(g.als))]
	var pats []string
	if rng.Chance(1, 50) && g.minN <= 1 {
		if rng.Bool() {
			pats = []string{""}
		}
		c.Add("empty_pattern_sets", 1)
	} else {
		maxLen := g.maxLen
		if rng.Chance(1, 12) {
			maxLen = rng.Pick(12, 30)
		}
		pats = genPatterns(rng, al, g.minN, g.maxN, maxLen)
	}
	s := build(c, pats)
	if s == nil {
		return
	}
	kinds := []int{textRandom, textOverlap, textOverlap, textBytes}
	var first string
	for i, k := range kinds {
		tr := g.textRunes
		if tr == nil {
			tr = []int{6, 12, 24, 48}
		}
		text := genText(rng, al, s.dpats, k, tr[rng.Intn(len(tr))])
		c.Max("max_text_bytes", int64(len(text)))
		if i == 1 {
			first = text
		}
		if !s.checkText(text, s.genRepls(al, len(text)), s.genMasks(al)) {
			return
		}
	}
	if len(s.dpats) > 0 {
		c.Distinct(s.hash)
	}
	if c.WantSample() {
		c.Sample(fmt.Sprintf("patterns %s; e.g. text %+q (%d occurrences): Replace parsed against the uncovered stretches, ReplaceWithMask equal to the rune-wise expectation; 4 texts", q(pats), first, len(occurrences(s.dpats, first))))
	}
}

var dirAlphabets = []alphabet{alphaAB, alphaABC, alphaMixed, alphaBound, alphaSib, {"abcdef", []rune{'a', 'b', 'c', 'd', 'e', 'f'}}}

func shuffle(rng *ev.Rand, ss []string) []string {
	out := make([]string, len(ss))
	for i, j := range rng.Perm(len(ss)) {
		out[i] = ss[j]
	}
	return out
}

// lookbackCase: a long pattern that ends last (or together with the last short
// one) but starts before several earlier, mutually disjoint short occurrences.
func lookbackCase(c *ev.Case) {
	rng := c.Rng
	al := dirAlphabets[rng.Intn(len(dirAlphabets))]
	k := rng.Range(2, 5)
	var pieces []string
	body := ""
	for i := 0; i < k; i++ {
		p := randRunes(rng, al, rng.Range(1, 2))
		pieces = append(pieces, p)
		body += p
		if i < k-1 {
			body += randRunes(rng, al, rng.Pick(0, 0, 1, 2)) // 0: touching pieces
		}
	}
	long := body
	switch rng.Intn(4) {
	case 0: // starts before the first piece
		long = randRunes(rng, al, rng.Range(1, 2)) + long
	case 1: // starts inside the first piece
		if utf8.RuneCountInString(pieces[0]) == 2 {
			long = runeCut(long, 1, utf8.RuneCountInString(long))
		}
	}
	if rng.Chance(3, 4) {
		long += randRunes(rng, al, rng.Range(1, 2)) // ends strictly last
	}
	pats := append(append([]string{}, pieces...), long)
	for i := rng.Intn(3); i > 0; i-- {
		pats = append(pats, randRunes(rng, al, rng.Range(1, 3)))
	}
	if rng.Chance(1, 4) { // a second long pattern nested around / inside the first
		n := utf8.RuneCountInString(long)
		pats = append(pats, runeCut(long, rng.Intn(2), n-rng.Intn(2)))
	}
	pats = shuffle(rng, pats)
	s := build(c, pats)
	if s == nil {
		return
	}
	texts := []string{
		long,
		randRunes(rng, al, rng.Intn(4)) + long + randRunes(rng, al, rng.Intn(4)),
		long + randRunes(rng, al, rng.Intn(2)) + long,
		randRunes(rng, al, rng.Intn(3)) + body + randRunes(rng, al, rng.Intn(3)),
	}
	if rng.Chance(1, 3) {
		texts = append(texts, corrupt(rng, texts[1]))
	}
	for _, t := range texts {
		if !s.checkText(t, s.genRepls(al, len(t)), s.genMasks(al)) {
			return
		}
	}
	c.Add("lookback_constructions", 1)
	c.Distinct(s.hash)
	if c.WantSample() {
		c.Sample(fmt.Sprintf("lookback: pieces %s inside long pattern %+q; patterns %s; texts %s", q(pieces), long, q(pats), q(texts)))
	}
}

// chainCase: chains of touching occurrences and chains of pairwise overlapping ones.
func chainCase(c *ev.Case) {
	rng := c.Rng
	al := dirAlphabets[rng.Intn(len(dirAlphabets))]
	var pats, texts []string
	if rng.Bool() { // touching: the text is a concatenation of whole patterns
		n := rng.Range(1, 4)
		for i := 0; i < n; i++ {
			pats = append(pats, randRunes(rng, al, rng.Range(1, 3)))
		}
		for t := 0; t < 4; t++ {
			var b strings.Builder
			for i := rng.Range(2, 7); i > 0; i-- {
				b.WriteString(pats[rng.Intn(len(pats))])
				if rng.Chance(1, 5) {
					b.WriteString(randRunes(rng, al, 1))
				}
			}
			texts = append(texts, b.String())
		}
		c.Add("touching_chain_constructions", 1)
	} else { // overlapping windows of one string
		base := randRunes(rng, al, rng.Range(4, 10))
		n := utf8.RuneCountInString(base)
		for i := rng.Range(2, 6); i > 0; i-- {
			a := rng.Intn(n - 1)
			pats = append(pats, runeCut(base, a, a+rng.Range(2, 4)))
		}
		texts = []string{base, base + base, randRunes(rng, al, rng.Intn(3)) + base + randRunes(rng, al, rng.Intn(3)), runeCut(base, 1, n) + base}
		c.Add("overlap_chain_constructions", 1)
	}
	pats = shuffle(rng, pats)
	s := build(c, pats)
	if s == nil {
		return
	}
	for _, t := range texts {
		if !s.checkText(t, s.genRepls(al, len(t)), s.genMasks(al)) {
			return
		}
	}
	c.Distinct(s.hash)
	if c.WantSample() {
		c.Sample(fmt.Sprintf("chain: patterns %s texts %s", q(pats), q(texts)))
	}
}

// nestedCase: A contains B contains C, plus a prefix and a suffix of A.
func nestedCase(c *ev.Case) {
	rng := c.Rng
	al := dirAlphabets[rng.Intn(len(dirAlphabets))]
	a := randRunes(rng, al, rng.Range(4, 8))
	na := utf8.RuneCountInString(a)
	i := rng.Intn(na - 2)
	b := runeCut(a, i, rng.Range(i+2, na))
	nb := utf8.RuneCountInString(b)
	j := rng.Intn(nb)
	cc := runeCut(b, j, rng.Range(j+1, nb))
	pats := []string{a, b, cc}
	if rng.Bool() {
		pats = append(pats, runeCut(a, 0, rng.Range(1, na-1)))
	}
	if rng.Bool() {
		pats = append(pats, runeCut(a, rng.Range(1, na-1), na))
	}
	if rng.Chance(1, 3) {
		pats = append(pats, a) // duplicate
	}
	pats = shuffle(rng, pats)
	s := build(c, pats)
	if s == nil {
		return
	}
	texts := []string{
		a,
		randRunes(rng, al, rng.Intn(3)) + a + randRunes(rng, al, rng.Intn(3)) + b,
		b + cc + a,
		runeCut(a, 0, na-1) + a,
	}
	if rng.Chance(1, 3) {
		texts = append(texts, corrupt(rng, texts[1]))
	}
	for _, t := range texts {
		if !s.checkText(t, s.genRepls(al, len(t)), s.genMasks(al)) {
			return
		}
	}
	c.Add("nested_constructions", 1)
	c.Distinct(s.hash)
	if c.WantSample() {
		c.Sample(fmt.Sprintf("nested: %+q > %+q > %+q; patterns %s texts %s", a, b, cc, q(pats), q(texts)))
	}
}

func scripted(c *ev.Case) {
	type sc struct {
		pats  []string
		texts []string
	}
	list := []sc{
		{[]string{"ab", "cd", "abcde"}, []string{"abcde", "xabcdey", "abcdeabcde"}},
		{[]string{"a", "c", "e", "abcdef"}, []string{"abcdef", "abcdefabcdef"}},
		{[]string{"世", "人", "世界人民"}, []string{"世界人民", "x世界人民\xe4"}},
		{[]string{"ab", "bc", "cd"}, []string{"abcd", "ababcdcd"}},
		{[]string{"ab", "cd"}, []string{"abcd", "abxcd", "cdab"}},
		{[]string{"abcd", "bc", "c"}, []string{"abcd", "abcdbc"}},
		{[]string{"\uFFFD"}, []string{"\xff", "a\xffb", "\uFFFD"}},
		{[]string{"é😀", "😀é", "é"}, []string{"é😀é😀", "\xc3é😀\xa9"}},
	}
	sc0 := list[c.Index%len(list)]
	s := build(c, sc0.pats)
	if s == nil {
		return
	}
	for _, t := range sc0.texts {
		if !s.checkText(t, []string{"#", "", "ab"}, []rune{'*', '█'}) {
			return
		}
	}
	c.Distinct(s.hash)
	c.Add("scripted_cases", 1)
	if c.WantSample() {
		c.Sample(fmt.Sprintf("scripted: patterns %s texts %s", q(sc0.pats), q(sc0.texts)))
	}
}

// invalidCase: patterns and texts made of ASCII and of bytes that can never be
// part of a valid UTF-8 sequence (lone continuation bytes, 0xF8..0xFF), so every
// byte is its own decoding unit and byte-wise occurrences are unit-aligned. The
// statement quantifies over every pattern set, not only over valid UTF-8.
var invalidMap = strings.NewReplacer("x", "\x80", "y", "\xa3", "z", "\xbf", "w", "\xff", "v", "\xf8")
var alphaInvalid = alphabet{"ascii+invalid-bytes", []rune{'a', 'b', 'x', 'y', 'z', 'w', 'v'}}

func invalidCase(c *ev.Case) {
	rng := c.Rng
	raw := genPatterns(rng, alphaInvalid, 1, 8, rng.Pick(3, 5, 9))
	pats := make([]string, len(raw))
	for i, p := range raw {
		pats[i] = invalidMap.Replace(p)
	}
	s := build(c, pats)
	if s == nil {
		return
	}
	rawD := distinctNonEmpty(raw)
	nInvalidOcc := 0
	for _, k := range []int{textRandom, textOverlap, textOverlap, textRandom} {
		text := invalidMap.Replace(genValidText(rng, alphaInvalid, rawD, k, rng.Pick(6, 12, 24, 48)))
		for _, o := range occurrences(s.dpats, text) {
			if !utf8.ValidString(text[o.start:o.stop]) {
				nInvalidOcc++
			}
		}
		if !s.checkText(text, s.genRepls(alphaAB, len(text)), s.genMasks(alphaMixed)) {
			return
		}
	}
	c.Add("occurrences_containing_invalid_bytes", int64(nInvalidOcc))
	c.Distinct(s.hash)
	if c.WantSample() {
		c.Sample(fmt.Sprintf("patterns with invalid bytes %s; 4 texts over ASCII + lone continuation / 0xF8.. bytes", q(pats)))
	}
}

// mixedCase: patterns contain lone bytes taken from the encodings of the runes the
// text is made of (é = c3 a9, 世 = e4 b8 96, U+FFFD = ef bf bd), so a byte-wise
// occurrence may lie INSIDE a valid rune of the text. Whether such an occurrence
// counts is not settled by the statement; there are two readings of "occurrence":
//
//	A  every byte-wise occurrence counts
//	B  only an occurrence whose both ends fall on decoding-unit boundaries of the
//	   text counts (these are exactly the occurrences a unit-wise matcher sees: the
//	   units of text[a:b] between two unit boundaries are the units of the pattern)
//
// First what both readings agree on is demanded unit by unit (no panic;
// ReplaceWithMask preserves the number of decoding units; a unit none of whose bytes
// lies in any byte-wise occurrence is unchanged; a unit completely covered by
// B-occurrences is masked; Replace keeps every byte that lies in no occurrence).
// Then the whole statement is demanded under at least one reading: the result of
// ReplaceWithMask must be the expected text of reading A or of reading B, the
// result of Replace must parse as u0 r^k1 u1 … against the regions of reading A or
// of reading B. A result that is wrong under both readings violates the statement
// whichever reading is meant. Where the readings coincide (every byte-wise
// occurrence is unit-aligned) this is the full oracle, and it is the only place
// where it is applied to patterns that end or start in a truncated multi-byte
// sequence (a lead byte 0xC2..0xF4 without its continuation bytes).
// (© ¿ ï are U+00A9 U+00BF U+00EF: the runes whose code point is the value of one
// of the lone bytes; a lone byte must never be taken for its Latin-1 namesake)
var mixedTextRunes = []string{"a", "b", "é", "世", "\uFFFD", "\xa9", "\xbf", "\xef", "\xc3", "\xe4\xb8", "©", "¿", "ï"}
var mixedPatPieces = []string{"a", "b", "\xc3", "\xa9", "\xe4", "\xb8", "\x96", "\xef", "\xbf", "\xbd", "é", "世", "\uFFFD", "©", "¿", "ï"}
var mixedMasks = []rune{'*', '*', '█', '😀', 0, 'é'}
var mixedRepls = []string{"#", "#", "<*>", "█", "", "\xc3", "a"}

func isTruncatedLead(b byte) bool { return b >= 0xC2 && b <= 0xF4 }

func mixedCase(c *ev.Case) {
	rng := c.Rng
	var pats []string
	for i := 0; i < rng.Range(1, 5); i++ {
		var b strings.Builder
		for j := 0; j < rng.Range(1, 3); j++ {
			b.WriteString(mixedPatPieces[rng.Intn(len(mixedPatPieces))])
		}
		pats = append(pats, b.String())
	}
	s := build(c, pats)
	if s == nil {
		return
	}
	for k := 0; k < 4; k++ {
		var tb strings.Builder
		for j := 0; j < rng.Range(1, 10); j++ {
			tb.WriteString(mixedTextRunes[rng.Intn(len(mixedTextRunes))])
		}
		text := tb.String()
		mask := mixedMasks[rng.Intn(len(mixedMasks))]
		repl := mixedRepls[rng.Intn(len(mixedRepls))]
		s.hash = ev.Mix(s.hash, ev.HashString(text), 't')
		occs := occurrences(s.dpats, text)
		// decoding units
		type unit struct{ a, b int }
		var units []unit
		boundary := map[int]bool{0: true}
		for i := 0; i < len(text); {
			_, sz := utf8.DecodeRuneInString(text[i:])
			units = append(units, unit{i, i + sz})
			i += sz
			boundary[i] = true
		}
		var occsB []occ // reading B: the occurrences that start and end on unit boundaries
		for _, o := range occs {
			if boundary[o.start] && boundary[o.stop] {
				occsB = append(occsB, o)
			}
		}
		covered, regsA, uncA := analyse(text, occs)
		aligned, regsB, uncB := analyse(text, occsB) // byte lies in a B-occurrence
		agree := len(occs) == len(occsB)
		var got string
		if c.Logging() {
			c.Witness = map[string]string{"patterns": q(pats), "text": fmt.Sprintf("%+q", text), "mask": fmt.Sprintf("%+q", mask), "replacement": fmt.Sprintf("%+q", repl)}
			c.Logf("calling ReplaceWithMask(%+q, %+q)", text, mask)
		}
		if !c.Guard("ReplaceWithMask", func() { got = s.t.ReplaceWithMask(text, mask) }) {
			return
		}
		ms := string(mask)
		c.Logf("patterns %s: ReplaceWithMask(%+q, %+q) -> %+q", q(pats), text, mask, got)
		// compare unit by unit
		gi := 0
		for _, u := range units {
			anyCov, allAligned := false, true
			for i := u.a; i < u.b; i++ {
				if covered[i] {
					anyCov = true
				}
				if !aligned[i] {
					allAligned = false
				}
			}
			orig := text[u.a:u.b]
			switch {
			case !anyCov:
				if !strings.HasPrefix(got[gi:], orig) {
					c.Failf("mixed-mask-untouched-unit-changed", "patterns %s: ReplaceWithMask(%+q, %+q) = %+q: the unit %+q at byte %d lies in no occurrence but was changed", q(pats), text, mask, got, orig, u.a)
					return
				}
				gi += len(orig)
			case allAligned:
				if !strings.HasPrefix(got[gi:], ms) {
					c.Failf("mixed-mask-covered-unit-kept", "patterns %s: ReplaceWithMask(%+q, %+q) = %+q: the unit %+q at byte %d is covered by a unit-aligned occurrence but was not masked", q(pats), text, mask, got, orig, u.a)
					return
				}
				gi += len(ms)
			default: // partly covered, or covered only by a misaligned occurrence: either outcome
				if strings.HasPrefix(got[gi:], ms) && orig != ms {
					gi += len(ms)
				} else if strings.HasPrefix(got[gi:], orig) {
					gi += len(orig)
				} else {
					c.Failf("mixed-mask-unit-garbled", "patterns %s: ReplaceWithMask(%+q, %+q) = %+q: at the unit %+q (byte %d) the result is neither the unit nor the mask", q(pats), text, mask, got, orig, u.a)
					return
				}
			}
			if gi > len(got) {
				break
			}
		}
		if gi != len(got) {
			c.Failf("mixed-mask-rune-count", "patterns %s: ReplaceWithMask(%+q, %+q) = %+q does not consist of one unit-or-mask per decoding unit of the text (%d units)", q(pats), text, mask, got, len(units))
			return
		}
		// the whole statement under at least one reading
		wantA, wantB := expectedMask(text, covered, mask), expectedMask(text, aligned, mask)
		if got != wantA && got != wantB {
			if agree {
				c.Failf("mixed-mask-result", "patterns %s: ReplaceWithMask(%+q, %+q) = %+q, expected %+q (every byte-wise occurrence is unit-aligned)", q(pats), text, mask, got, wantB)
			} else {
				c.Failf("mixed-mask-neither-reading", "patterns %s: ReplaceWithMask(%+q, %+q) = %+q is neither %+q (every byte-wise occurrence counts) nor %+q (only unit-aligned occurrences count)", q(pats), text, mask, got, wantA, wantB)
			}
			return
		}
		c.Add("mask_calls", 1)
		var rep string
		c.Logf("calling Replace(%+q, %+q)", text, repl)
		if !c.Guard("Replace", func() { rep = s.t.Replace(text, repl) }) {
			return
		}
		c.Logf("Replace(%+q, %+q) -> %+q", text, repl, rep)
		// every byte outside all occurrences is kept, in order (as a subsequence)
		ri := 0
		for i := 0; i < len(text); i++ {
			if covered[i] {
				continue
			}
			for ri < len(rep) && rep[ri] != text[i] {
				ri++
			}
			if ri >= len(rep) {
				c.Failf("mixed-replace-lost-byte", "patterns %s: Replace(%+q, %+q) = %+q lost byte %d (%+q), which lies in no occurrence", q(pats), text, repl, rep, i, text[i:i+1])
				return
			}
			ri++
		}
		if !parses(rep, uncA, regsA, repl) && !parses(rep, uncB, regsB, repl) {
			if agree {
				c.Failf("mixed-replace-parse", "patterns %s: Replace(%+q, %+q) = %+q is not u0 r^k1 u1 … with uncovered stretches %s (every byte-wise occurrence is unit-aligned; e.g. %+q)", q(pats), text, repl, rep, q(uncB), strings.Join(uncB, repl))
			} else {
				c.Failf("mixed-replace-neither-reading", "patterns %s: Replace(%+q, %+q) = %+q parses neither against the uncovered stretches %s (every byte-wise occurrence counts) nor against %s (only unit-aligned occurrences count)", q(pats), text, repl, rep, q(uncA), q(uncB))
			}
			return
		}
		c.Add("replace_calls", 1)
		c.Add("mixed_texts", 1)
		if len(occs) > 0 {
			c.Add("mixed_texts_with_occurrence", 1)
		}
		if !agree {
			c.Add("mixed_texts_where_the_readings_differ", 1)
			if len(occsB) > 0 {
				c.Add("mixed_texts_where_the_readings_differ_with_aligned_occurrence", 1)
			}
		}
		var broken, leadEnd, leadStart int64 // B-occurrences that are not valid UTF-8 / end / start in a truncated lead byte
		for _, o := range occsB {
			if !utf8.ValidString(o.pat) {
				broken++
			}
			if isTruncatedLead(text[o.stop-1]) {
				leadEnd++
			}
			if isTruncatedLead(text[o.start]) && !utf8.FullRuneInString(o.pat) {
				leadStart++
			}
		}
		// a lone byte of the text (its own decoding unit) whose value is the code point of a rune in some pattern
		namesake := false
		for _, u := range units {
			if u.b-u.a == 1 && text[u.a] >= utf8.RuneSelf && hasRune(s.dpats, rune(text[u.a])) {
				namesake = true
			}
		}
		if namesake {
			c.Add("mixed_texts_with_lone_byte_whose_latin1_rune_is_in_a_pattern", 1)
		}
		if agree && broken > 0 {
			c.Add("mixed_texts_full_oracle_with_occurrence_of_a_pattern_that_is_not_valid_utf8", 1)
		}
		c.Add("mixed_aligned_occurrences_ending_in_a_truncated_lead_byte", leadEnd)
		c.Add("mixed_aligned_occurrences_that_are_a_truncated_sequence_from_the_start", leadStart)
		for _, rg := range regsB {
			if isTruncatedLead(text[rg.stop-1]) {
				c.Add("mixed_regions_ending_in_a_truncated_lead_byte", 1)
				if repl != "" {
					c.Add("mixed_regions_ending_in_a_truncated_lead_byte_nonempty_replacement", 1)
				}
			}
		}
	}
	c.Distinct(s.hash)
	if c.WantSample() {
		c.Sample(fmt.Sprintf("mixed: patterns with lone bytes of multi-byte runes %s against texts of those runes; unit-wise common ground, then the full statement under the byte-wise or the unit-aligned reading of 'occurrence'", q(pats)))
	}
}

func main() {
	r := ev.New("C06")
	r.Rule("one case = one generated pattern list inserted into a real Trie + BuildFailureLinks, then 4-5 texts (random, overlap constructions, arbitrary bytes; or directed constructions: long pattern over earlier disjoint short ones, touching/overlapping chains, nested triples), each with 2 replacements (disjoint alphabet, empty, colliding, invalid bytes) and 1-2 mask runes of 1-4 bytes; distinct = hash of (pattern list, texts); non-trivial = at least one non-empty pattern; " +
		"added histories (strength.go): staged = one trie grown over 2-4 Insert*+Build stages with the same (text, method, argument) calls repeated after every build, stages without a query, Build twice, queries on the never-built empty zero value; interleave = 2-3 tries differing in one pattern used alternately on one goroutine, successive calls differing in one ingredient, texts optionally views of one reused byte buffer; big/* = patterns up to 70001 bytes (262145 thorough), texts up to 512 KiB (3 MiB thorough) with an occurrence across every multiple of 16 KiB, nodes with up to 2049 children (8193 thorough); cold-start = one fresh process per case whose first query uses the never-built zero value, the mask U+0000 or the empty replacement")
	r.Assume("oracle = byte-wise brute-force occurrences over the distinct non-empty inserted patterns -> covered bytes -> maximal covered regions; patterns are valid UTF-8 (so every occurrence is rune-aligned), except in the engine rand/invalid-bytes where patterns and texts consist of ASCII and of bytes that can never belong to a valid sequence, so that every byte is its own decoding unit")
	r.Assume("rand/mixed-weak: patterns made of lone bytes of multi-byte runes may occur byte-wise inside a valid rune of the text; the statement does not say whether such an occurrence counts, so a result is accepted iff the whole statement holds under the byte-wise reading or under the unit-aligned reading of 'occurrence' (the two coincide when every byte-wise occurrence starts and ends on decoding-unit boundaries; then this is the full oracle, also for patterns that start or end in a truncated multi-byte sequence)")
	r.Assume("a returned string is the result only if it keeps the bytes it had when it was returned: results of earlier calls are compared again after later calls (kept-result-changed); a text handed over as a view of a caller buffer is rewritten only between calls and its result is judged before the rewrite; the empty pattern set includes the zero-value Trie on which BuildFailureLinks was never called")
	r.Assume("Replace is accepted iff the result parses as u0 r^k1 u1 … r^km um with 1<=ki<=ni (all parses tried by a DP); mask runes are valid runes")

	hv := ev.Opt{HangViolation: true}
	small := []alphabet{alphaAB, alphaABC}
	utf := []alphabet{alphaMixed, alphaBound, alphaSib}
	fffd := []alphabet{alphaFFFD, alphaFFFDSib}
	wide := []alphabet{alphaWide, alphaWideA}

	r.Cases("scripted", 16, hv, scripted)
	r.Cases("rand/ascii", r.N(40000, 1280000), hv, cfg{als: small, minN: 1, maxN: 8, maxLen: 5}.run)
	r.Cases("rand/utf8", r.N(40000, 1280000), hv, cfg{als: utf, minN: 1, maxN: 8, maxLen: 5}.run)
	// the same workload on parallel workers under the race detector: package-level state shared
	// between instances that no goroutine shares is reported from the happens-before relation,
	// whether or not the accesses collide in this run (and however loaded the machine is)
	r.CasesProc("rand/utf8/race-parallel", r.N(1000, 30000), ev.Opt{Bin: "race", Procs: 2, Workers: 8, AlwaysLog: true, HangViolation: true, MaxCaseSeconds: 120}, cfg{als: utf, minN: 1, maxN: 8, maxLen: 5}.run)
	r.Cases("rand/fffd", r.N(20000, 640000), hv, cfg{als: fffd, minN: 1, maxN: 8, maxLen: 4}.run)
	r.Cases("rand/wide", r.N(5000, 153600), hv, cfg{als: wide, minN: 11, maxN: 40, maxLen: 4}.run)
	r.Cases("rand/big", r.N(60, 3000), hv, cfg{als: []alphabet{alphaABC, alphaMixed, alphaSib, alphaWide, alphaWideA}, minN: 40, maxN: 400, maxLen: 8, textRunes: []int{400, 1500, 4000}}.run)
	r.Cases("rand/invalid-bytes", r.N(20000, 640000), hv, invalidCase)
	r.Cases("rand/mixed-weak", r.N(30000, 900000), hv, mixedCase)
	r.Cases("lookback", r.N(40000, 1280000), hv, lookbackCase)
	r.Cases("chains", r.N(30000, 896000), hv, chainCase)
	r.Cases("nested", r.N(30000, 896000), hv, nestedCase)
	r.Cases("periodic", r.N(160, 4000), hv, periodicCase)
	r.Require("periodic_cases", 120)
	r.Require("periodic_depth_multiple_of_256", 30)

	// histories and sizes (strength.go)
	r.Cases("staged", r.N(20000, 600000), hv, stagedCase)
	r.Cases("interleave", r.N(6000, 200000), ev.Opt{HangViolation: true, Serial: true}, interleaveCase)
	r.Cases("big/long-pattern", r.N(2*len(longLens), 4*(len(longLens)+len(longLensThorough))), hv, longPatternCase)
	r.Cases("big/text", r.N(2*len(bigTextSizes), 3*(len(bigTextSizes)+len(bigTextSizesThorough))), hv, bigTextCase)
	r.Cases("big/fanout", r.N(2*len(fanouts), 3*(len(fanouts)+len(fanoutsThorough))), hv, fanoutCase)
	r.CasesProc("cold-start", 24, ev.Opt{Procs: 24, HangViolation: true}, coldCase)

	r.Require("pattern_text_pairs", 100000)
	r.Require("replace_calls", 100000)
	r.Require("mask_calls", 100000)
	r.Require("texts_needing_merge_lookback", 10000)
	r.Require("texts_with_touching_occurrences", 10000)
	r.Require("texts_with_nested_occurrences", 10000)
	r.Require("texts_with_overlapping_occurrences", 10000)
	r.Require("regions_with_several_occurrences", 10000)
	r.Require("replace_calls_empty_replacement", 2000)
	r.Require("replace_calls_colliding_replacement", 2000)
	r.Require("texts_not_valid_utf8_with_occurrence", 2000)
	r.Require("texts_without_occurrence", 1000)
	r.Require("occurrences_containing_invalid_bytes", 5000)
	r.Require("mixed_texts_with_occurrence", 5000)
	r.Require("mixed_texts_full_oracle_with_occurrence_of_a_pattern_that_is_not_valid_utf8", 2000)
	r.Require("mixed_texts_where_the_readings_differ_with_aligned_occurrence", 1500)
	r.Require("mixed_regions_ending_in_a_truncated_lead_byte_nonempty_replacement", 1500)
	r.Require("mixed_aligned_occurrences_that_are_a_truncated_sequence_from_the_start", 1500)
	r.Require("mixed_texts_with_lone_byte_whose_latin1_rune_is_in_a_pattern", 1500)
	r.Require("rebuilds", 2000)
	// input classes of "every pattern set", "every text", every replacement, every mask
	r.Require("empty_pattern_sets", 300)
	r.Require("sets_with_an_empty_pattern_among_others", 3000)
	r.Require("sets_with_a_pattern_inserted_twice", 20000)
	r.Require("texts_empty", 3000)
	r.Require("texts_with_region_at_text_start", 100000)
	r.Require("texts_with_region_at_text_end", 100000)
	r.Require("texts_covered_completely", 50000)
	r.Require("texts_where_a_late_occurrence_swallows_several_earlier_disjoint_ones", 20000)
	r.Require("mask_calls_with_occurrence_mask_of_1_byte", 100000)
	r.Require("mask_calls_with_occurrence_mask_of_2_bytes", 30000)
	r.Require("mask_calls_with_occurrence_mask_of_3_bytes", 50000)
	r.Require("mask_calls_with_occurrence_mask_of_4_bytes", 50000)
	r.Require("mask_calls_result_longer_than_text", 100000)
	r.Require("mask_calls_result_shorter_than_text", 50000)
	r.Require("replace_calls_with_occurrence_replacement_not_valid_utf8", 30000)
	r.Require("replace_calls_with_occurrence_replacement_contains_a_pattern", 40000)
	r.Require("replace_calls_empty_replacement_result_contains_a_pattern", 400)
	r.Require("staged_same_call_repeated_first_after_rebuild", 10000)
	r.Require("staged_same_call_after_rebuild_with_changed_occurrences", 3000)
	r.Require("staged_observations_of_never_built_empty_trie", 1000)
	r.Require("staged_stages_without_any_query", 1000)
	r.Require("staged_build_twice_in_a_row", 1000)
	r.Require("kept_results_rechecked", 100000)
	r.Require("interleave_other_trie_same_text_with_other_occurrences", 1000)
	r.Require("interleave_same_buffer_other_content_with_other_occurrences", 500)
	r.Require("mask_calls_with_U+0000", 1000)
	r.Require("occurrences_of_256_bytes_or_more", 20)
	r.Require("occurrences_of_64KiB_or_more", 8)
	r.Require("tries_with_more_than_65536_nodes", 3)
	r.Require("texts_of_64KiB_or_more", 10)
	r.Require("texts_of_256KiB_or_more", 4)
	r.Require("occurrences_across_a_multiple_of_64KiB", 20)
	r.Require("fanout_cases_with_more_than_256_children", 4)
	r.Require("fanout_cases_with_more_than_1024_children", 2)
	r.Require("cold_start_cases", 24)
	r.Require("cold_start_first_mask_is_U+0000", 12)
	r.Finish()
}
