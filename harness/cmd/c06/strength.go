// Workloads added after the review against LESSONS.md: histories and sizes the
// single-build / small-input engines never produce. The oracle is the same as in
// main.go (brute-force byte-wise occurrences -> covered bytes -> regions); only
// the situations differ:
//
//	staged            one trie grown over 2-4 Insert*+BuildFailureLinks stages, the SAME
//	                  (text, method, argument) calls repeated after every rebuild with the
//	                  full oracle against the patterns held at that moment; stages without
//	                  any query, Build twice in a row, queries on the never-built empty
//	                  zero value; every result kept and compared again after later calls
//	interleave        2-3 tries with pattern sets that differ in one pattern, used
//	                  alternately on one goroutine (Serial); successive calls differ in
//	                  exactly one ingredient (trie / text / method / argument); texts
//	                  optionally passed as views of one reused byte buffer (same address
//	                  and length, other content); kept results compared later, twice
//	big/long-pattern  patterns of 127..70001 bytes (131073+ thorough): more than 2^16 trie
//	                  nodes, occurrences longer than 2^8 / 2^15 / 2^16 bytes
//	big/text          texts of 64 KiB .. 512 KiB (3 MiB thorough) with an occurrence laid
//	                  across every multiple of 16 KiB
//	big/fanout        nodes with 17 .. 2049 children (8193 thorough) at the root and below
//	cold-start        one fresh process per case: the first query of the process is on a
//	                  never-built zero value, or uses the mask rune U+0000, or the empty
//	                  replacement
package main

import (
	"fmt"
	"sort"
	"strings"
	"unicode/utf8"
	"unsafe"

	"github.com/welllog/golib/algz"

	"verif/ev"
)

func short(s string) string {
	if len(s) <= 120 {
		return fmt.Sprintf("%+q", s)
	}
	return fmt.Sprintf("%+q…(%d bytes)…%+q", s[:60], len(s), s[len(s)-40:])
}

func shortList(ss []string) string {
	var b strings.Builder
	b.WriteByte('[')
	for i, s := range ss {
		if i > 0 {
			b.WriteByte(' ')
		}
		if i >= 16 {
			fmt.Fprintf(&b, "… +%d", len(ss)-i)
			break
		}
		b.WriteString(short(s))
	}
	b.WriteByte(']')
	return b.String()
}

// ex is the oracle's view of one (pattern set, text) pair. text is a private copy.
type ex struct {
	text    string
	occs    []occ
	covered []bool
	regs    []region
	unc     []string
	sig     uint64
}

func mkEx(dpats []string, text string) *ex {
	t := strings.Clone(text)
	e := &ex{text: t, occs: occurrences(dpats, t)}
	e.covered, e.regs, e.unc = analyse(t, e.occs)
	e.sig = uint64(len(e.occs))
	for _, o := range e.occs {
		e.sig = ev.Mix(e.sig, uint64(o.start), uint64(o.stop))
	}
	return e
}

// tri is one trie under test together with the patterns it holds.
type tri struct {
	c    *ev.Case
	name string
	t    *algz.Trie
	pats []string
	d    []string
}

func newTri(c *ev.Case, name string) *tri { return &tri{c: c, name: name, t: &algz.Trie{}} }

func (x *tri) dp() []string {
	if x.d == nil {
		x.d = distinctNonEmpty(x.pats)
		if x.d == nil {
			x.d = []string{}
		}
	}
	return x.d
}

func (x *tri) insert(p string) bool {
	if !x.c.Guard("Insert", func() { x.t.Insert(p) }) {
		return false
	}
	if x.c.Logging() {
		x.c.Logf("%s.Insert(%s)", x.name, short(p))
	}
	x.pats = append(x.pats, p)
	x.d = nil
	return true
}

func (x *tri) build() bool {
	if !x.c.Guard("BuildFailureLinks", func() { x.t.BuildFailureLinks() }) {
		return false
	}
	x.c.Logf("%s.BuildFailureLinks()", x.name)
	return true
}

func (x *tri) insertAll(pats []string) bool {
	for _, p := range pats {
		if !x.insert(p) {
			return false
		}
	}
	return x.build()
}

// mask calls ReplaceWithMask(text, m) and judges the result against e (text may be
// a view of a caller buffer; e.text is the private copy of the same bytes).
func (x *tri) mask(e *ex, text string, m rune, sit string) (string, bool) {
	c := x.c
	var out string
	if c.Logging() {
		c.Witness = map[string]string{"trie": x.name, "patterns": shortList(x.pats), "text": short(e.text), "mask": fmt.Sprintf("%+q", m), "situation": sit}
		c.Logf("calling %s.ReplaceWithMask(%s, %+q) %s", x.name, short(e.text), m, sit)
	}
	if !c.Guard("ReplaceWithMask"+sit, func() { out = x.t.ReplaceWithMask(text, m) }) {
		return "", false
	}
	want := expectedMask(e.text, e.covered, m)
	if c.Logging() {
		c.Logf("%s.ReplaceWithMask(%s, %+q) -> %s (expected %s)", x.name, short(e.text), m, short(out), short(want))
	}
	c.Add("mask_calls", 1)
	if m == 0 {
		c.Add("mask_calls_with_U+0000", 1)
	}
	if out != want {
		if utf8.RuneCountInString(out) != utf8.RuneCountInString(e.text) {
			c.Failf("mask-rune-count"+sit, "%s patterns %s: ReplaceWithMask(%s, %+q) = %s has %d runes, the text has %d (expected %s)", x.name, shortList(x.pats), short(e.text), m, short(out), utf8.RuneCountInString(out), utf8.RuneCountInString(e.text), short(want))
		} else {
			c.Failf("mask-result"+sit, "%s patterns %s: ReplaceWithMask(%s, %+q) = %s, expected %s", x.name, shortList(x.pats), short(e.text), m, short(out), short(want))
		}
		return out, false
	}
	return out, true
}

func (x *tri) repl(e *ex, text, rp string, sit string) (string, bool) {
	c := x.c
	var out string
	if c.Logging() {
		c.Witness = map[string]string{"trie": x.name, "patterns": shortList(x.pats), "text": short(e.text), "replacement": fmt.Sprintf("%+q", rp), "situation": sit}
		c.Logf("calling %s.Replace(%s, %+q) %s", x.name, short(e.text), rp, sit)
	}
	if !c.Guard("Replace"+sit, func() { out = x.t.Replace(text, rp) }) {
		return "", false
	}
	if c.Logging() {
		c.Logf("%s.Replace(%s, %+q) -> %s (%d regions)", x.name, short(e.text), rp, short(out), len(e.regs))
	}
	c.Add("replace_calls", 1)
	if rp == "" {
		c.Add("replace_calls_empty_replacement", 1)
	}
	if !parses(out, e.unc, e.regs, rp) {
		c.Failf("replace-parse"+sit, "%s patterns %s: Replace(%s, %+q) = %s is not u0 r^k1 u1 … r^km um over the %d uncovered stretches %s with 1<=ki<=occurrences in region i (e.g. %s)", x.name, shortList(x.pats), short(e.text), rp, short(out), len(e.unc), shortList(e.unc), short(strings.Join(e.unc, rp)))
		return out, false
	}
	return out, true
}

// kept is a result that stays in the caller's hands while further calls are made.
type kept struct {
	got   string // the value the call returned
	clone string // its bytes at the moment it was returned (already judged)
	desc  string
}

func keep(ks []kept, got, desc string) []kept {
	return append(ks, kept{got: got, clone: strings.Clone(got), desc: desc})
}

func recheck(c *ev.Case, ks []kept, when string) bool {
	for _, k := range ks {
		c.Add("kept_results_rechecked", 1)
		if k.got != k.clone {
			c.Failf("kept-result-changed", "the string returned by %s was %s when it was returned and reads %s %s: a returned result must not be rewritten by later calls", k.desc, short(k.clone), short(k.got), when)
			return false
		}
	}
	return true
}

var strAlphabets = []alphabet{alphaAB, alphaABC, alphaMixed, alphaSib, alphaBound,
	{"abcdef", []rune{'a', 'b', 'c', 'd', 'e', 'f'}},
	{"nul", []rune{0, 'a', 'b', 0x80}}}

var strMasks = []rune{0, '*', 'é', '█', '😀', utf8.RuneError, 'a', 0x10FFFF}

// ---------------------------------------------------------------- staged

func stagedCase(c *ev.Case) {
	rng := c.Rng
	al := strAlphabets[rng.Intn(len(strAlphabets))]
	all := shuffle(rng, genPatterns(rng, al, 2, 10, rng.Pick(3, 5, 5, 9)))
	dall := distinctNonEmpty(all)
	ns := rng.Range(2, 4)
	cuts := make([]int, ns-1)
	for i := range cuts {
		cuts[i] = rng.Intn(len(all) + 1)
	}
	sort.Ints(cuts)
	texts := []string{
		genText(rng, al, dall, textOverlap, rng.Pick(6, 12, 24)),
		genText(rng, al, dall, textOverlap, rng.Pick(6, 12, 24)),
		genText(rng, al, dall, rng.Pick(textRandom, textBytes), rng.Pick(6, 12, 24)),
	}
	rp := rng.PickStr("#", "<*>", "█", "", "\x00")
	m := strMasks[rng.Intn(len(strMasks))]
	type call struct {
		ti     int
		isMask bool
	}
	var seq []call
	for _, ti := range rng.Perm(len(texts)) {
		mf := rng.Bool()
		seq = append(seq, call{ti, mf}, call{ti, !mf})
	}
	x := newTri(c, "t")
	var ks []kept
	prevSig := make([]uint64, len(texts))
	observed, builtSince, forward := false, false, true
	var last call
	observe := func(sit string) bool {
		exs := make([]*ex, len(texts))
		for k := range seq {
			cl := seq[k]
			if !forward {
				cl = seq[len(seq)-1-k]
			}
			if exs[cl.ti] == nil {
				exs[cl.ti] = mkEx(x.dp(), texts[cl.ti])
			}
			e := exs[cl.ti]
			s := sit
			if k == 0 && observed && builtSince {
				// the first query after a rebuild is the very call that was the last one before it
				if cl != last {
					c.Run().HarnessFailure("staged: call order broken")
					return false
				}
				s = "[same-call-after-rebuild]"
				c.Add("staged_same_call_repeated_first_after_rebuild", 1)
				if e.sig != prevSig[cl.ti] {
					c.Add("staged_same_call_after_rebuild_with_changed_occurrences", 1)
				}
			}
			var out string
			var ok bool
			if cl.isMask {
				out, ok = x.mask(e, texts[cl.ti], m, s)
			} else {
				out, ok = x.repl(e, texts[cl.ti], rp, s)
			}
			if !ok {
				return false
			}
			ks = keep(ks, out, fmt.Sprintf("call %d on text %s with %d patterns inserted", k, short(texts[cl.ti]), len(x.pats)))
			last = cl
		}
		for ti, e := range exs {
			if e != nil {
				prevSig[ti] = e.sig
			}
		}
		forward = !forward
		observed, builtSince = true, false
		return recheck(c, ks, "after later calls on the same trie")
	}
	if rng.Chance(1, 5) {
		// zero value, nothing inserted, never built: the empty pattern set
		if !observe("[never-built-empty-trie]") {
			return
		}
		c.Add("staged_observations_of_never_built_empty_trie", 1)
	}
	start := 0
	for st := 0; st < ns; st++ {
		end := len(all)
		if st < ns-1 {
			end = cuts[st]
		}
		for _, p := range all[start:end] {
			if !x.insert(p) {
				return
			}
		}
		if st > 0 && end > start {
			c.Add("staged_rebuilds_after_more_inserts", 1)
		}
		if end == start {
			c.Add("staged_builds_without_new_pattern", 1)
		}
		start = end
		if !x.build() {
			return
		}
		if rng.Chance(1, 4) {
			if !x.build() {
				return
			}
			c.Add("staged_build_twice_in_a_row", 1)
		}
		builtSince = true
		if st == ns-1 || rng.Chance(3, 4) {
			if !observe("") {
				return
			}
		} else {
			c.Add("staged_stages_without_any_query", 1)
		}
	}
	if !recheck(c, ks, "at the end of the case") {
		return
	}
	c.Add("staged_cases", 1)
	h := hashStrings(hashStrings(uint64(ns), all), texts)
	for _, k := range cuts {
		h = ev.Mix(h, uint64(k))
	}
	c.Distinct(h)
	if c.WantSample() {
		c.Sample(fmt.Sprintf("staged: patterns %s inserted in %d stages (cuts %v), texts %s queried with the same calls after every build", q(all), ns, cuts, q(texts)))
	}
}

// ---------------------------------------------------------------- interleave

// rotate moves the first decoding unit to the end: same byte length, other content.
func rotate(s string) string {
	if s == "" {
		return s
	}
	_, sz := utf8.DecodeRuneInString(s)
	return s[sz:] + s[:sz]
}

func interleaveCase(c *ev.Case) {
	rng := c.Rng
	al := strAlphabets[rng.Intn(len(strAlphabets))]
	base := genPatterns(rng, al, 1, 6, rng.Pick(3, 5))
	derive := func() string {
		b := distinctNonEmpty(base)
		p := b[rng.Intn(len(b))]
		n := utf8.RuneCountInString(p)
		switch rng.Intn(4) {
		case 0:
			return runeCut(p, rng.Intn(n), n)
		case 1:
			return runeCut(p, 0, rng.Range(1, n))
		case 2:
			return p + randRunes(rng, al, 1)
		default:
			return randRunes(rng, al, rng.Range(1, 3))
		}
	}
	other := append([]string{}, base...)
	switch k := rng.Intn(3); {
	case k == 0 || len(other) < 2:
		other = append(other, derive())
	case k == 1:
		i := rng.Intn(len(other))
		other = append(other[:i], other[i+1:]...)
	default:
		other[rng.Intn(len(other))] = derive()
	}
	sets := [][]string{base, other}
	if rng.Chance(1, 3) {
		sets = append(sets, genPatterns(rng, al, 1, 4, 3))
	}
	var tries []*tri
	var union []string
	for i, s := range sets {
		x := newTri(c, string(rune('A'+i)))
		if !x.insertAll(s) {
			return
		}
		tries = append(tries, x)
		union = append(union, s...)
	}
	du := distinctNonEmpty(union)
	t0 := genText(rng, al, du, textOverlap, rng.Pick(6, 12, 24))
	if t0 == "" {
		t0 = randRunes(rng, al, 3)
	}
	texts := []string{t0, rotate(t0), genText(rng, al, du, rng.Pick(textRandom, textOverlap, textBytes), rng.Pick(6, 12, 24))}
	maxLen := 1
	for _, t := range texts {
		if len(t) > maxLen {
			maxLen = len(t)
		}
	}
	useArena := rng.Bool()
	arena := make([]byte, maxLen)
	rps := []string{rng.PickStr("#", "<*>", "█"), rng.PickStr("", "--", "\x00", t0)}
	mi := rng.Intn(len(strMasks))
	ms := []rune{strMasks[mi], strMasks[(mi+1+rng.Intn(len(strMasks)-1))%len(strMasks)]}
	exs := make([][]*ex, len(tries))
	for i := range exs {
		exs[i] = make([]*ex, len(texts))
	}
	get := func(tr, tx int) *ex {
		if exs[tr][tx] == nil {
			exs[tr][tx] = mkEx(tries[tr].dp(), texts[tx])
		}
		return exs[tr][tx]
	}
	var ks []kept
	tr, tx, isMask, ai := rng.Intn(len(tries)), rng.Intn(len(texts)), rng.Bool(), rng.Intn(2)
	steps := rng.Range(8, 16)
	for s := 0; s < steps; s++ {
		sit := ""
		if s > 0 {
			switch rng.Intn(4) {
			case 0:
				o := (tr + 1 + rng.Intn(len(tries)-1)) % len(tries)
				sit = "[other-trie-same-text]"
				if get(o, tx).sig != get(tr, tx).sig {
					c.Add("interleave_other_trie_same_text_with_other_occurrences", 1)
				}
				tr = o
			case 1:
				o := (tx + 1 + rng.Intn(len(texts)-1)) % len(texts)
				if tx < 2 && rng.Chance(2, 3) {
					o = 1 - tx // the same-length partner
				}
				sit = "[other-text]"
				if useArena && len(texts[o]) == len(texts[tx]) && texts[o] != texts[tx] {
					sit = "[same-buffer-other-content]"
					if get(tr, o).sig != get(tr, tx).sig {
						c.Add("interleave_same_buffer_other_content_with_other_occurrences", 1)
					}
				}
				tx = o
			case 2:
				isMask = !isMask
				sit = "[other-method]"
			default:
				ai ^= 1
				sit = "[other-argument]"
			}
		}
		e := get(tr, tx)
		passed := texts[tx]
		if useArena && len(passed) > 0 {
			// the caller keeps its text in one reused buffer and hands out a view of it;
			// the view is not used after the call, the buffer is rewritten only between calls
			copy(arena, passed)
			passed = unsafe.String(&arena[0], len(texts[tx]))
		}
		var out string
		var ok bool
		if isMask {
			out, ok = tries[tr].mask(e, passed, ms[ai], sit)
		} else {
			out, ok = tries[tr].repl(e, passed, rps[ai], sit)
		}
		if !ok {
			return
		}
		c.Add("interleave_calls", 1)
		if useArena {
			c.Add("interleave_calls_with_text_in_reused_buffer", 1)
			if string(arena[:len(texts[tx])]) != texts[tx] {
				c.Failf("text-modified", "trie %s patterns %s: the call on text %s left the caller's text buffer as %s", tries[tr].name, shortList(tries[tr].pats), short(texts[tx]), short(string(arena[:len(texts[tx])])))
				return
			}
		} else {
			ks = keep(ks, out, fmt.Sprintf("step %d (trie %s, text %s)", s, tries[tr].name, short(texts[tx])))
		}
		if s == steps/2 && !recheck(c, ks, "after calls on this and on other tries") {
			return
		}
	}
	if !recheck(c, ks, "at the end of the case") {
		return
	}
	c.Add("interleave_cases", 1)
	h := hashStrings(uint64(steps), texts)
	for _, s := range sets {
		h = hashStrings(h, s)
	}
	c.Distinct(h)
	if c.WantSample() {
		c.Sample(fmt.Sprintf("interleave: tries %s / %s used alternately on one goroutine, texts %s, %d calls differing in one ingredient each, text in reused buffer: %v", q(base), q(other), q(texts), steps, useArena))
	}
}

// ---------------------------------------------------------------- big/long-pattern

var longLens = []int{127, 128, 129, 255, 256, 257, 1000, 4096, 32767, 32768, 65535, 65536, 65537, 70001}
var longLensThorough = []int{131071, 131073, 262145}
var longAlphabets = []alphabet{alphaWideA, alphaWide, alphaABC, alphaSib}

// exactly n bytes of valid UTF-8 over al (padded with 'a', which every alphabet has)
func mkLong(rng *ev.Rand, al alphabet, n int) string {
	var b strings.Builder
	b.Grow(n)
	for b.Len()+4 <= n {
		b.WriteRune(al.runes[rng.Intn(len(al.runes))])
	}
	for b.Len() < n {
		b.WriteByte('a')
	}
	return b.String()
}

func longPatternCase(c *ev.Case) {
	rng := c.Rng
	lens := longLens
	if c.Thorough() {
		lens = append(append([]int{}, longLens...), longLensThorough...)
	}
	L := lens[c.Index%len(lens)]
	al := longAlphabets[(c.Index/len(lens))%len(longAlphabets)]
	P := mkLong(rng, al, L)
	rs := []rune(P)
	n := len(rs)
	// short patterns are windows of P long enough to be rare inside P (the real
	// merge is quadratic in the number of occurrences, that is not what is measured here)
	k := 2
	for pw := len(al.runes) * len(al.runes); pw < L/8 && k < 12; pw *= len(al.runes) {
		k++
	}
	pats := []string{P, string(rs[n-k:]), string(rs[:min(n-1, 40)])}
	for i := rng.Range(1, 3); i > 0; i-- {
		a := rng.Intn(n - k)
		pats = append(pats, string(rs[a:a+k]))
	}
	otherRune := func(not rune) rune {
		for {
			r := al.runes[rng.Intn(len(al.runes))]
			if r != not {
				return r
			}
		}
	}
	if rng.Bool() { // sibling that leaves P's path at the last rune
		pats = append(pats, string(rs[:n-1])+string(otherRune(rs[n-1])))
	}
	if L <= 33000 && rng.Chance(1, 3) { // P without its first rune: a second deep path, every fail link of P's path points into it
		pats = append(pats, string(rs[1:]))
	}
	pats = shuffle(rng, pats)
	x := newTri(c, "t")
	if !x.insertAll(pats) {
		return
	}
	fill := func() string { return randRunes(rng, al, rng.Intn(8)) }
	texts := []string{
		fill() + P + fill(),
		string(rs[:n-1]) + string(otherRune(rs[n-1])) + fill() + P + P,
	}
	if L <= 5000 {
		texts = append(texts, string(rs[1:]))
	}
	nodes := 0
	for _, t := range texts {
		e := mkEx(x.dp(), t)
		long := 0
		for _, o := range e.occs {
			if o.stop-o.start == L {
				long++
			}
		}
		c.Add("long_pattern_occurrences_expected", int64(long))
		if L >= 256 {
			c.Add("occurrences_of_256_bytes_or_more", int64(long))
		}
		if L >= 65536 {
			c.Add("occurrences_of_64KiB_or_more", int64(long))
		}
		c.Max("max_occurrences_in_long_pattern_text", int64(len(e.occs)))
		order := rng.Bool()
		for i := 0; i < 2; i++ {
			var ok bool
			if (i == 0) == order {
				_, ok = x.mask(e, t, strMasks[rng.Intn(len(strMasks))], "[long-pattern]")
			} else {
				_, ok = x.repl(e, t, rng.PickStr("#", "<*>", "█", ""), "[long-pattern]")
			}
			if !ok {
				return
			}
		}
	}
	_, _, _, nodes = queueSim(x.dp())
	c.Max("max_trie_nodes", int64(nodes))
	if nodes > 65536 {
		c.Add("tries_with_more_than_65536_nodes", 1)
	}
	c.Max("max_pattern_bytes", int64(L))
	c.Add("long_pattern_cases", 1)
	c.Distinct(ev.Mix(hashStrings(uint64(L), pats), hashStrings(1, texts)))
	if c.WantSample() {
		c.Sample(fmt.Sprintf("long pattern of %d bytes over %s, %d patterns, %d trie nodes, %d texts", L, al.name, len(pats), nodes, len(texts)))
	}
}

// ---------------------------------------------------------------- big/text

var bigTextSizes = []int{65536 - 37, 65536 + 129, 131072 + 11, 262144 - 5, 262144 + 4099, 524288 + 3}
var bigTextSizesThorough = []int{1<<20 + 77, 3<<20 + 1}
var bigTextAlphabets = []alphabet{alphaABC, alphaMixed, alphaSib}
var fillerRunes = []rune{'x', 'y', 'z', 'ж', 'я', '語', ' ', '\n'}

const straddleEvery = 16384

func bigTextCase(c *ev.Case) {
	rng := c.Rng
	sizes := bigTextSizes
	if c.Thorough() {
		sizes = append(append([]int{}, bigTextSizes...), bigTextSizesThorough...)
	}
	size := sizes[c.Index%len(sizes)]
	al := bigTextAlphabets[(c.Index/len(sizes))%len(bigTextAlphabets)]
	S := randRunes(rng, al, 6) // laid across every multiple of 16 KiB
	pats := append(genPatterns(rng, al, 4, 20, 6), S)
	pats = shuffle(rng, pats)
	x := newTri(c, "t")
	if !x.insertAll(pats) {
		return
	}
	d := x.dp()
	maxPat := 0
	for _, p := range d {
		maxPat = max(maxPat, len(p))
	}
	// 6% pattern pieces and 6% stray pattern runes up to 256 KiB, thinner above (the
	// real merge costs occurrences x merges; its speed is not what is measured here)
	dens := 60
	if size > 262144 {
		dens = 60 * 262144 / size
	}
	b := make([]byte, 0, size+maxPat+64)
	next := straddleEvery
	for len(b) < size {
		if len(b) >= next {
			next += straddleEvery
		}
		if len(b) >= next-len(S)+1 {
			b = append(b, S...)
			next += straddleEvery
			continue
		}
		near := len(b)+maxPat+8 >= next-len(S)+1
		switch r := rng.Intn(1000); {
		case r >= 2*dens || (near && r < dens):
			b = utf8.AppendRune(b, fillerRunes[rng.Intn(len(fillerRunes))])
		case r >= dens:
			b = utf8.AppendRune(b, al.runes[rng.Intn(len(al.runes))])
		default:
			p := d[rng.Intn(len(d))]
			switch rng.Intn(3) {
			case 0:
				b = append(b, p[overlapLen(string(b[max(0, len(b)-len(p)):]), p):]...)
			case 1:
				b = append(b, runeCut(p, 0, utf8.RuneCountInString(p)-1)...)
			default:
				b = append(b, p...)
			}
		}
	}
	text := string(b)
	e := mkEx(d, text)
	var s16, s64 int64
	for _, o := range e.occs {
		if o.start/straddleEvery != (o.stop-1)/straddleEvery {
			s16++
		}
		if o.start>>16 != (o.stop-1)>>16 {
			s64++
		}
	}
	c.Add("occurrences_across_a_multiple_of_16KiB", s16)
	c.Add("occurrences_across_a_multiple_of_64KiB", s64)
	c.Add("big_text_occurrences_expected", int64(len(e.occs)))
	c.Add("big_text_regions_with_several_occurrences", func() (n int64) {
		for _, rg := range e.regs {
			if rg.n > 1 {
				n++
			}
		}
		return
	}())
	if len(text) >= 65536 {
		c.Add("texts_of_64KiB_or_more", 1)
	}
	if len(text) >= 262144 {
		c.Add("texts_of_256KiB_or_more", 1)
	}
	c.Max("max_text_bytes", int64(len(text)))
	order := rng.Bool()
	for i := 0; i < 2; i++ {
		var ok bool
		if (i == 0) == order {
			_, ok = x.mask(e, text, strMasks[rng.Intn(len(strMasks))], "[big-text]")
		} else {
			_, ok = x.repl(e, text, rng.PickStr("#", "<*>", "█", ""), "[big-text]")
		}
		if !ok {
			return
		}
	}
	c.Add("big_text_cases", 1)
	c.Distinct(ev.Mix(hashStrings(uint64(size), pats), ev.HashString(text)))
	if c.WantSample() {
		c.Sample(fmt.Sprintf("text of %d bytes, patterns %s, %d occurrences, %d of them across a multiple of 16 KiB", len(text), q(pats), len(e.occs), s16))
	}
}

// ---------------------------------------------------------------- big/fanout

var fanouts = []int{17, 33, 65, 129, 257, 1025, 2049}
var fanoutsThorough = []int{4097, 8193}

func wideRunes(rng *ev.Rand, n int) []rune {
	seen := map[rune]bool{}
	var out []rune
	add := func(r rune) {
		if !seen[r] && r != utf8.RuneError && (r < 0xD800 || r > 0xDFFF) && len(out) < n {
			seen[r] = true
			out = append(out, r)
		}
	}
	if n >= 200 {
		for r := rune(0); r < 128; r++ {
			add(r)
		}
	}
	for len(out) < n {
		switch rng.Intn(5) {
		case 0:
			add(rune(rng.Intn(0x80)))
		case 1:
			add(rune(rng.Range(0x80, 0x7FF)))
		case 2:
			add(rune(rng.Range(0x800, 0xFFFC)))
		case 3:
			add(rune(rng.Range(0x4E00, 0x4E00+3*n)))
		default:
			add(rune(rng.Range(0x10000, 0x10FFFF)))
		}
	}
	return out
}

func fanoutCase(c *ev.Case) {
	rng := c.Rng
	fs := fanouts
	if c.Thorough() {
		fs = append(append([]int{}, fanouts...), fanoutsThorough...)
	}
	F := fs[c.Index%len(fs)]
	al := alphabet{"wide-generated", wideRunes(rng, F)}
	sub := alphabet{"sub", al.runes[:4]}
	hub := string(al.runes[rng.Intn(4)])
	var pats []string
	for _, r := range al.runes {
		pats = append(pats, string(r)+randRunes(rng, sub, rng.Intn(3)))
		pats = append(pats, hub+string(r)+randRunes(rng, sub, rng.Intn(2)))
	}
	// bytes that can never be part of a valid sequence are children of their own
	// (they sort above every rune); they stand alone in the text as well
	pats = append(pats, "\xff", "\xfe"+string(al.runes[0]), hub+"\xf8")
	switch c.Index / len(fs) % 3 {
	case 0:
		pats = shuffle(rng, pats)
	case 1:
		sort.Strings(pats)
		c.Add("fanout_cases_inserted_in_sorted_order", 1)
	default:
		sort.Sort(sort.Reverse(sort.StringSlice(pats)))
		c.Add("fanout_cases_inserted_in_reverse_order", 1)
	}
	x := newTri(c, "t")
	if !x.insertAll(pats) {
		return
	}
	d := x.dp()
	for t := 0; t < 2; t++ {
		var b strings.Builder
		for i := rng.Range(100, 300); i > 0; i-- {
			switch r := rng.Intn(10); {
			case r < 5:
				b.WriteRune(al.runes[rng.Intn(len(al.runes))])
			case r < 6:
				b.WriteString(rng.PickStr("\xff", "\xfe", "\xf8", "\xfe"+string(al.runes[0])))
			case r < 7:
				b.WriteString(hub)
			default:
				b.WriteString(d[rng.Intn(len(d))])
			}
		}
		text := b.String()
		e := mkEx(d, text)
		c.Add("fanout_occurrences_expected", int64(len(e.occs)))
		if _, ok := x.mask(e, text, strMasks[rng.Intn(len(strMasks))], "[fanout]"); !ok {
			return
		}
		if _, ok := x.repl(e, text, rng.PickStr("#", "<*>", "█", ""), "[fanout]"); !ok {
			return
		}
	}
	c.Max("max_children_of_one_node", int64(F+1))
	if F > 256 {
		c.Add("fanout_cases_with_more_than_256_children", 1)
	}
	if F > 1024 {
		c.Add("fanout_cases_with_more_than_1024_children", 1)
	}
	c.Add("fanout_cases", 1)
	c.Distinct(hashStrings(uint64(F), pats))
	if c.WantSample() {
		c.Sample(fmt.Sprintf("fan-out %d at the root and below %+q: %d patterns, 2 texts", F, hub, len(pats)))
	}
}

// ---------------------------------------------------------------- cold-start

// coldCase runs alone in a freshly started process: its first query is the first
// query the process ever makes.
func coldCase(c *ev.Case) {
	rng := c.Rng
	al := strAlphabets[rng.Intn(len(strAlphabets))]
	pats := genPatterns(rng, al, 1, 6, 4)
	d := distinctNonEmpty(pats)
	text := genText(rng, al, d, textOverlap, 12)
	for len(occurrences(d, text)) == 0 {
		text += d[rng.Intn(len(d))]
	}
	x := newTri(c, "t")
	kind := c.Index % 6
	c.Logf("cold start kind %d", kind)
	if kind >= 2 {
		if !x.insertAll(pats) {
			return
		}
	}
	e := mkEx(x.dp(), text)
	var ok bool
	switch kind {
	case 0: // never-built zero value, U+0000 as mask
		_, ok = x.mask(e, text, 0, "[cold][never-built-empty-trie]")
		c.Add("cold_start_first_mask_is_U+0000", 1)
	case 1:
		_, ok = x.repl(e, text, "#", "[cold][never-built-empty-trie]")
	case 2:
		_, ok = x.mask(e, text, 0, "[cold]")
		c.Add("cold_start_first_mask_is_U+0000", 1)
	case 3:
		_, ok = x.repl(e, text, "", "[cold]")
	case 4:
		if _, ok = x.mask(e, text, '😀', "[cold]"); ok {
			_, ok = x.mask(e, text, 0, "[cold]")
		}
	default:
		if _, ok = x.repl(e, text, "#", "[cold]"); ok {
			_, ok = x.mask(e, text, 0, "[cold]")
			c.Add("cold_start_first_mask_is_U+0000", 1)
		}
	}
	if !ok {
		return
	}
	if kind < 2 {
		if !x.insertAll(pats) {
			return
		}
		e = mkEx(x.dp(), text)
	}
	if _, ok = x.mask(e, text, strMasks[rng.Intn(len(strMasks))], "[cold]"); !ok {
		return
	}
	if _, ok = x.repl(e, text, rng.PickStr("#", "", "█"), "[cold]"); !ok {
		return
	}
	c.Add("cold_start_cases", 1)
	c.Distinct(ev.Mix(hashStrings(uint64(kind), pats), ev.HashString(text)))
	if c.WantSample() {
		c.Sample(fmt.Sprintf("cold start kind %d: patterns %s text %+q", kind, q(pats), text))
	}
}

// ---- periodic: one rune covered by hundreds of occurrences ----

// periodicCase: keywords that are runs of one rune (or of a short period) on a longer run
// of it, so that a rune of the text lies inside 255, 256, 257, 512, 1024 ... occurrences at
// once (up to 4096: the brute-force oracle is quadratic in that number) — the sizes at which a per-position counter of a narrow integer type comes back to
// zero. Oracle as everywhere (covered-byte mask from the brute-force occurrences).
func periodicCase(c *ev.Case) {
	rng := c.Rng
	unit := rng.PickStr("a", "a", "é", "世", "😀", "ab", "aé")
	ul := utf8.RuneCountInString(unit)
	depths := []int{127, 128, 129, 255, 256, 257, 300, 511, 512, 513, 768, 1024}
	if c.Index%8 == 0 {
		depths = []int{2047, 2048, 2049, 4096}
	}
	d := depths[rng.Intn(len(depths))] // occurrences that will cover the middle of the run
	var pats []string
	total := 0
	switch rng.Intn(3) {
	case 0: // one keyword of d units: a rune in the middle of a run of >= 2d units lies in d occurrences
		pats = []string{strings.Repeat(unit, d)}
		total = d
	case 1: // two keywords whose lengths add up to d
		k := rng.Range(1, d-1)
		pats = []string{strings.Repeat(unit, k), strings.Repeat(unit, d-k)}
		total = d
	default: // three
		k1 := rng.Range(1, d-2)
		k2 := rng.Range(1, d-k1-1)
		pats = []string{strings.Repeat(unit, k1), strings.Repeat(unit, k2), strings.Repeat(unit, d-k1-k2)}
		total = d
	}
	run := 2*total + rng.Range(20, 200)
	pre, post := rng.PickStr("x", "", "xy", "ж"), rng.PickStr("y", "", "zz", "ж")
	text := pre + strings.Repeat(unit, run) + post
	s := build(c, shuffle(rng, pats))
	if s == nil {
		return
	}
	al := alphabet{"periodic", []rune(unit + "xyz")}
	if !s.checkText(text, s.genRepls(al, 8), s.genMasks(al)) {
		return
	}
	c.Add("periodic_cases", 1)
	c.Add(fmt.Sprintf("periodic_depth_%d", d*1/1), 1)
	if d%256 == 0 {
		c.Add("periodic_depth_multiple_of_256", 1)
	}
	_ = ul
	c.Distinct(s.hash)
	if c.WantSample() {
		c.Sample(fmt.Sprintf("periodic: %d keyword(s) made of %q repeated (lengths adding up to %d units) on a run of %d units: the runes in the middle of the run lie inside %d occurrences each", len(pats), unit, total, run, total))
	}
}
