// C01 — SyncRing is a linearizable bounded MPMC FIFO queue.
//
// Engines:
//
//	ctl/*      controlled schedules of the instrumented ringz copy (shim binary), porcupine
//	round      controlled one-kind rounds (only pushers / only poppers, 2..6 callers): somebody succeeds
//	sweep      bounded-preemption sweep of tiny fixed programs (thorough)
//	free/*     free-running short histories under the race detector, porcupine
//	stress/*   long producer/consumer runs under the race detector, streaming monitors
package main

import (
	"fmt"
	"os"
	"runtime"
	"strings"
	"sync"
	"sync/atomic"
	"time"

	"github.com/welllog/golib/ringz"

	"verif/ev"
	"verif/hist"
	"verif/ringseek"
	"verif/ringtyped"
	"verif/sched"
)

type opSpec struct {
	Kind string
	Val  int64
}

type config struct {
	ReqCap, Cap int
	SeekK       int64 // -1: no seek
	Rot, Fill   int
	ViaInit     bool // built with "var r SyncRing; r.Init(n)" instead of NewSync(n)
	Family      string
	Threads     [][]opSpec
	Strategy    string
	SchedSeed   uint64
	Depth       int
	Sticky      int
}

func (c config) String() string {
	var b strings.Builder
	ctor := "NewSync"
	if c.ViaInit {
		ctor = "Init"
	}
	fmt.Fprintf(&b, "%s reqcap=%d cap=%d seek=%d rot=%d fill=%d family=%s sched=%s/%d/%d;", ctor, c.ReqCap, c.Cap, c.SeekK, c.Rot, c.Fill, c.Family, c.Strategy, c.Depth, c.Sticky)
	for i, t := range c.Threads {
		fmt.Fprintf(&b, " T%d:", i)
		for _, o := range t {
			if o.Kind == "Push" || o.Kind == "PushWait" || o.Kind == "PushWaitInf" {
				fmt.Fprintf(&b, "%s(%d),", o.Kind, o.Val)
			} else {
				fmt.Fprintf(&b, "%s,", o.Kind)
			}
		}
	}
	return b.String()
}

// setup builds the ring in its initial configuration and returns the initial content.
func setup(c *config) (*ringz.SyncRing[int], []int64, bool) {
	r := newRing(c.ReqCap, c.ViaInit)
	c.Cap = r.Cap()
	seeked := false
	if c.SeekK >= 0 {
		if ok, _ := ringseek.Usable(c.ReqCap); ok {
			ringseek.Seek(r, uint32(c.SeekK))
			seeked = true
		} else {
			c.SeekK = -1
		}
	}
	for i := 0; i < c.Rot; i++ {
		r.Push(-1 - i)
		r.Pop()
	}
	var init []int64
	for i := 0; i < c.Fill && i < c.Cap; i++ {
		v := 9000 + i
		if r.Push(v) {
			init = append(init, int64(v))
		}
	}
	return r, init, seeked
}

// newRing: the two ways of constructing a ring, NewSync(n) and Init(n) on a zero value.
func newRing(reqCap int, viaInit bool) *ringz.SyncRing[int] {
	if viaInit {
		r := new(ringz.SyncRing[int])
		r.Init(reqCap)
		return r
	}
	r := ringz.NewSync[int](reqCap)
	return &r
}

// do performs one client operation on the ring and records it.
func do(r *ringz.SyncRing[int], rec *hist.Recorder, client int, o opSpec) {
	switch o.Kind {
	case "Push":
		op := rec.Begin(client, "Push", o.Val, 0)
		ok := r.Push(int(o.Val))
		rec.End(op, 0, ok, "")
	case "PushWait":
		op := rec.Begin(client, "PushWait", o.Val, 0)
		ok := r.PushWait(int(o.Val), 0)
		rec.End(op, 0, ok, "")
	case "PushWaitInf":
		op := rec.Begin(client, "PushWait", o.Val, 0)
		ok := r.PushWait(int(o.Val), -1)
		rec.End(op, 0, ok, "")
	case "PushWaitT":
		op := rec.Begin(client, "PushWait", o.Val, 0)
		ok := r.PushWait(int(o.Val), time.Millisecond)
		rec.End(op, 0, ok, "")
	case "Pop":
		op := rec.Begin(client, "Pop", 0, 0)
		v, ok := r.Pop()
		rec.End(op, int64(v), ok, "")
	case "PopWait":
		op := rec.Begin(client, "PopWait", 0, 0)
		v, ok := r.PopWait(0)
		rec.End(op, int64(v), ok, "")
	case "PopWaitInf":
		op := rec.Begin(client, "PopWait", 0, 0)
		v, ok := r.PopWait(-1)
		rec.End(op, int64(v), ok, "")
	case "PopWaitT":
		op := rec.Begin(client, "PopWait", 0, 0)
		v, ok := r.PopWait(time.Millisecond)
		rec.End(op, int64(v), ok, "")
	case "Len":
		op := rec.Begin(client, "Len", 0, 0)
		n := r.Len()
		rec.End(op, int64(n), true, "")
	case "IsEmpty":
		op := rec.Begin(client, "IsEmpty", 0, 0)
		b := r.IsEmpty()
		rec.End(op, 0, b, "")
	case "IsFull":
		op := rec.Begin(client, "IsFull", 0, 0)
		b := r.IsFull()
		rec.End(op, 0, b, "")
	}
	sched.OpDone()
}

// tail appends quiescent reads and a sequential drain from a fresh client.
func tail(r *ringz.SyncRing[int], rec *hist.Recorder, capacity int) {
	cl := rec.AddClient()
	rec.Quiesce()
	do(r, rec, cl, opSpec{Kind: "Len"})
	do(r, rec, cl, opSpec{Kind: "IsEmpty"})
	do(r, rec, cl, opSpec{Kind: "IsFull"})
	for i := 0; i <= capacity+1; i++ {
		n := len(rec.Client(cl))
		do(r, rec, cl, opSpec{Kind: "Pop"})
		if !rec.Client(cl)[n].OK {
			break
		}
	}
	do(r, rec, cl, opSpec{Kind: "Len"})
	do(r, rec, cl, opSpec{Kind: "IsEmpty"})
	// the drained ring must accept cap pushes again and then be full
	for i := 0; i < capacity; i++ {
		do(r, rec, cl, opSpec{Kind: "Push", Val: int64(8000 + i)})
	}
	do(r, rec, cl, opSpec{Kind: "IsFull"})
	do(r, rec, cl, opSpec{Kind: "Push", Val: 8999})
	do(r, rec, cl, opSpec{Kind: "Len"})
}

var mixKinds = []string{"Push", "Push", "Push", "Pop", "Pop", "Pop", "Len", "IsEmpty", "IsFull", "PushWait", "PopWait"}

func genProgram(rng *ev.Rand, c *config, maxThreads, maxOps, maxTotal int) {
	fam := rng.Intn(10)
	switch {
	case fam < 6:
		c.Family = "mixed"
		nt := rng.Range(2, maxThreads)
		total := 0
		for t := 0; t < nt; t++ {
			n := rng.Range(1, maxOps)
			if total+n > maxTotal {
				n = maxTotal - total
			}
			if n <= 0 {
				n = 1
			}
			total += n
			var ops []opSpec
			for j := 0; j < n; j++ {
				ops = append(ops, opSpec{Kind: mixKinds[rng.Intn(len(mixKinds))], Val: int64(t*100 + j + 1)})
			}
			c.Threads = append(c.Threads, ops)
		}
	case fam < 8:
		// producers/consumers with blocking waits and equal totals
		c.Family = "prodcons"
		np, nc := rng.Range(1, 2), rng.Range(1, 2)
		per := rng.Range(1, 3)
		total := np * per * nc // each producer pushes per*nc, each consumer pops per*np
		_ = total
		for p := 0; p < np; p++ {
			var ops []opSpec
			for j := 0; j < per*nc; j++ {
				ops = append(ops, opSpec{Kind: "PushWaitInf", Val: int64(p*100 + j + 1)})
			}
			c.Threads = append(c.Threads, ops)
		}
		for q := 0; q < nc; q++ {
			var ops []opSpec
			for j := 0; j < per*np; j++ {
				ops = append(ops, opSpec{Kind: "PopWaitInf"})
			}
			c.Threads = append(c.Threads, ops)
		}
	default:
		// rounds: k pushers on >= k free slots, or k poppers on >= k elements
		k := rng.Range(2, maxThreads)
		if c.ReqCap < k {
			c.ReqCap = k
		}
		if rng.Bool() {
			c.Family = "round-push"
			c.Fill = -k // resolved after the capacity is known: cap-k at most
			for t := 0; t < k; t++ {
				c.Threads = append(c.Threads, []opSpec{{Kind: "Push", Val: int64(t*100 + 1)}})
			}
		} else {
			c.Family = "round-pop"
			c.Fill = 1 << 20 // resolved: at least k
			for t := 0; t < k; t++ {
				c.Threads = append(c.Threads, []opSpec{{Kind: "Pop"}})
			}
		}
	}
}

func genConfig(rng *ev.Rand, maxThreads, maxOps, maxTotal int) config {
	c := config{ReqCap: rng.Range(1, 9), SeekK: -1}
	genProgram(rng, &c, maxThreads, maxOps, maxTotal)
	probe := ringz.NewSync[int](c.ReqCap)
	c.Cap = probe.Cap()
	k := len(c.Threads)
	switch c.Family {
	case "round-push":
		c.Fill = rng.Intn(c.Cap - k + 1)
	case "round-pop":
		c.Fill = rng.Range(k, c.Cap)
	default:
		c.Fill = rng.Intn(c.Cap + 1)
	}
	c.Rot = rng.Intn(2*c.Cap + 1)
	if rng.Chance(1, 3) {
		base := int64(1) << 32
		if rng.Chance(1, 3) {
			base = int64(1) << 31
		}
		c.SeekK = (base + int64(rng.Range(-2*c.Cap, 2*c.Cap))) & 0xffffffff
	}
	c.ViaInit = rng.Chance(1, 4)
	return c
}

// judge checks a finished history (with its quiescent tail) and records
// coverage. It returns false if a violation was reported.
func judge(c *ev.Case, cfg config, init []int64, ops []hist.Op, extra string) bool {
	var overl, okPush, okPop, failStrict, failExcused int64
	// what the model decides strictly (operations nothing overlapped), per clause
	var quiet struct {
		pushOK, pushFull, popOK, popEmpty, length, lenBusy int64
		emptyT, emptyF, fullT, fullF                       int64
	}
	for _, o := range ops {
		if o.Overlapped {
			overl++
		}
		switch o.Kind {
		case "Push", "PushWait":
			if o.OK {
				okPush++
				if !o.Overlapped {
					quiet.pushOK++
				}
			} else if o.Overlapped {
				failExcused++
			} else {
				failStrict++
				quiet.pushFull++
			}
		case "Pop", "PopWait":
			if o.OK {
				okPop++
				if !o.Overlapped {
					quiet.popOK++
				}
			} else if o.Overlapped {
				failExcused++
			} else {
				failStrict++
				quiet.popEmpty++
			}
		case "Len":
			if o.Out < 0 || o.Out > int64(cfg.Cap) {
				c.Witness = map[string]any{"config": cfg.String(), "history": hist.Render(ops), "extra": extra}
				c.Failf("len-range", "Len() = %d outside [0, Cap()=%d]", o.Out, cfg.Cap)
				return false
			}
			if o.Overlapped {
				quiet.lenBusy++
			} else {
				quiet.length++
			}
		case "IsEmpty":
			if !o.Overlapped {
				if o.OK {
					quiet.emptyT++
				} else {
					quiet.emptyF++
				}
			}
		case "IsFull":
			if !o.Overlapped {
				if o.OK {
					quiet.fullT++
				} else {
					quiet.fullF++
				}
			}
		}
	}
	c.Add("quiet_push_ok", quiet.pushOK)
	c.Add("quiet_push_refused", quiet.pushFull)
	c.Add("quiet_pop_ok", quiet.popOK)
	c.Add("quiet_pop_refused", quiet.popEmpty)
	c.Add("quiet_len", quiet.length)
	c.Add("busy_len", quiet.lenBusy)
	c.Add("quiet_isempty_true", quiet.emptyT)
	c.Add("quiet_isempty_false", quiet.emptyF)
	c.Add("quiet_isfull_true", quiet.fullT)
	c.Add("quiet_isfull_false", quiet.fullF)
	c.Add("ops", int64(len(ops)))
	c.Add("ops_overlapped", overl)
	c.Add("push_ok", okPush)
	c.Add("pop_ok", okPop)
	c.Add("fail_nonoverlapped", failStrict)
	c.Add("fail_overlapped", failExcused)
	switch hist.Check(hist.BoundedQueueModel(cfg.Cap, init), ops, 20*time.Second) {
	case hist.Illegal:
		c.Witness = map[string]any{"config": cfg.String(), "history": hist.Render(ops), "extra": extra}
		c.Failf("nonlinearizable", "history of %d operations has no linearization as a FIFO queue of capacity %d (config %s)", len(ops), cfg.Cap, cfg.String())
		return false
	case hist.Unknown:
		c.Add("porcupine_timeouts", 1)
		return true
	}
	c.Add("histories_checked", 1)
	return true
}

func roundCheck(c *ev.Case, cfg config, ops []hist.Op, nThreadOps int) bool {
	if cfg.Family != "round-push" && cfg.Family != "round-pop" {
		return true
	}
	succ := 0
	seen := 0
	for _, o := range ops {
		if o.Client < len(cfg.Threads) {
			seen++
			if o.OK {
				succ++
			}
		}
	}
	single := 0 // calls made through the single-try variants PushWait(v, 0) / PopWait(0)
	for _, t := range cfg.Threads {
		for _, o := range t {
			if o.Kind == "PushWait" || o.Kind == "PopWait" {
				single++
			}
		}
	}
	c.Add("rounds", 1)
	if cfg.Family == "round-push" {
		c.Add("rounds_push", 1)
	} else {
		c.Add("rounds_pop", 1)
	}
	c.Add(fmt.Sprintf("rounds/%d-callers", len(cfg.Threads)), 1)
	if single == nThreadOps {
		c.Add("rounds_all_single_try_wait", 1)
	} else if single > 0 {
		c.Add("rounds_mixed_single_try_wait", 1)
	}
	if seen == nThreadOps && succ < seen {
		c.Add("rounds_with_a_refused_call", 1) // the interleaving really made callers collide
	}
	if seen == nThreadOps && succ == 0 {
		c.Witness = map[string]any{"config": cfg.String(), "history": hist.Render(ops)}
		c.Failf("round-nobody-succeeds", "%s: %d concurrent calls on a ring with enough room/elements and none succeeded", cfg.Family, seen)
		return false
	}
	return true
}

func controlled(c *ev.Case, cfg config, sc sched.Config) {
	var r *ringz.SyncRing[int]
	var init []int64
	var seeked bool
	if !c.Guard("setup", func() { r, init, seeked = setup(&cfg) }) {
		return
	}
	if cfg.ViaInit {
		c.Add("runs_via_init", 1)
	}
	rec := hist.NewRecorder(len(cfg.Threads), true)
	bodies := make([]func(), len(cfg.Threads))
	total := 0
	for t := range cfg.Threads {
		t := t
		total += len(cfg.Threads[t])
		bodies[t] = func() {
			for _, o := range cfg.Threads[t] {
				do(r, rec, t, o)
			}
		}
	}
	c.Logf("config: %s", cfg.String())
	res := sched.Run(sc, bodies)
	tr := sched.TraceString(res.Trace)
	c.Logf("trace: %s", tr)
	c.Add("runs", 1)
	c.Add("steps", int64(res.Steps))
	c.Add("switches", int64(res.Switches))
	if seeked {
		c.Add("runs_seeked_near_wrap", 1)
	}
	if res.Panic != nil {
		c.Witness = map[string]any{"config": cfg.String(), "trace": tr}
		c.Failf("panic/ctl", "panic in a SyncRing call under schedule %s: %v\n%s", tr, res.Panic, res.PanicStack)
		return
	}
	if res.Aborted {
		if res.NoProgress {
			c.Witness = map[string]any{"config": cfg.String(), "trace": tr, "history": hist.Render(rec.Ops())}
			c.Failf("no-progress", "all live threads spin without completing an operation (config %s)", cfg.String())
			return
		}
		c.Add("aborted_runs", 1)
		c.Add("aborted/"+cfg.Family+"/"+cfg.Strategy, 1)
		return
	}
	tail(r, rec, cfg.Cap)
	ops := rec.Ops()
	for _, l := range hist.Render(ops) {
		c.Logf("%s", l)
	}
	if !roundCheck(c, cfg, ops, total) {
		return
	}
	if !judge(c, cfg, init, ops, "trace="+tr) {
		return
	}
	if res.Switches > 0 {
		c.Distinct(ev.HashString(cfg.String() + "|" + tr))
	}
	if c.WantSample() {
		c.Sample(map[string]any{"config": cfg.String(), "trace": tr, "history": hist.Render(ops)})
	}
}

func ctlCase(c *ev.Case) {
	rng := c.Rng
	cfg := genConfig(rng, 4, 4, 10)
	sc := pickSched(rng, &cfg)
	controlled(c, cfg, sc)
}

// pickSched draws the scheduling strategy of a controlled run.
func pickSched(rng *ev.Rand, cfg *config) sched.Config {
	sc := sched.Config{Seed: rng.Uint64(), MaxSteps: 6000}
	switch rng.Intn(4) {
	case 0:
		sc.Strategy = sched.RandomWalk
		cfg.Strategy = "walk"
	case 1:
		sc.Strategy = sched.RandomWalk
		sc.Sticky = rng.Pick(128, 200, 240)
		cfg.Strategy = "walk-sticky"
		cfg.Sticky = sc.Sticky
	default:
		sc.Strategy = sched.PCT
		sc.Depth = rng.Range(1, 4)
		n := 0
		for _, t := range cfg.Threads {
			n += len(t)
		}
		sc.EstSteps = n * 9
		cfg.Strategy = "pct"
		cfg.Depth = sc.Depth
	}
	return sc
}

// roundCase: the progress clause on its own. k callers of ONE kind, one call each,
// on a ring with at least k free slots (pushers) or at least k stored values
// (poppers): whatever the interleaving, not all of them may be refused. The callers
// use Push/Pop or the single-try forms PushWait(v, 0)/PopWait(0) (all of them, or
// a mixture), up to 6 of them, on rings built either way, at every fill level
// that leaves enough room/values, rotated and near the counter wrap. The history is
// also checked for linearizability like any other controlled run.
func roundCase(c *ev.Case) {
	rng := c.Rng
	k := rng.Pick(2, 3, 4, 5, 5, 6, 6)
	cfg := config{ReqCap: rng.Range(1, 9), SeekK: -1}
	if cfg.ReqCap < k {
		cfg.ReqCap = k
	}
	push := rng.Bool()
	variant := rng.Intn(3) // 0: Push/Pop, 1: single-try waits, 2: per caller
	for t := 0; t < k; t++ {
		wait := variant == 1 || (variant == 2 && rng.Bool())
		kind := "Pop"
		switch {
		case push && wait:
			kind = "PushWait"
		case push:
			kind = "Push"
		case wait:
			kind = "PopWait"
		}
		cfg.Threads = append(cfg.Threads, []opSpec{{Kind: kind, Val: int64(t*100 + 1)}})
	}
	cfg.ViaInit = rng.Chance(1, 4)
	var capacity int
	if !c.Guard("Cap", func() { capacity = newRing(cfg.ReqCap, cfg.ViaInit).Cap() }) {
		return
	}
	if capacity < k {
		// the statement speaks of rings with enough room only; nothing to judge
		c.Add("rounds_skipped_capacity_below_callers", 1)
		return
	}
	cfg.Cap = capacity
	if push {
		cfg.Family = "round-push"
		cfg.Fill = rng.Pick(0, capacity-k, rng.Intn(capacity-k+1))
	} else {
		cfg.Family = "round-pop"
		cfg.Fill = rng.Pick(k, capacity, rng.Range(k, capacity))
	}
	cfg.Rot = rng.Intn(2*capacity + 1)
	if rng.Chance(1, 3) {
		base := int64(1) << 32
		if rng.Chance(1, 3) {
			base = int64(1) << 31
		}
		cfg.SeekK = (base + int64(rng.Range(-2*capacity, 2*capacity))) & 0xffffffff
	}
	sc := pickSched(rng, &cfg)
	if rng.Chance(1, 3) {
		// lock-step: the callers advance in turn, a few steps each, so that all of them are
		// at the same stage of the call (the interleaving symmetric protocols fear most)
		sc = sched.Config{Strategy: sched.Sweep, MaxSteps: 6000}
		laps := rng.Range(1, 6)
		for l := 0; l < laps; l++ {
			stride := rng.Range(1, 4) // the same for everybody in this lap, now and then off by one
			for _, t := range rng.Perm(k) {
				cut := stride
				if rng.Chance(1, 5) {
					cut += rng.Pick(-1, 1)
				}
				if cut < 1 {
					cut = 1
				}
				sc.Order = append(sc.Order, t)
				sc.Cuts = append(sc.Cuts, cut)
			}
		}
		cfg.Strategy, cfg.Depth, cfg.Sticky = "lockstep", laps, 0
	}
	controlled(c, cfg, sc)
}

// sweepCase enumerates: programs x configs x thread orders x cut positions.
var sweepOps = []string{"Push", "Pop"}

func sweepCase(c *ev.Case) {
	// index decomposition (a fixed list, no randomness)
	i := c.Index
	const S = 26
	cutA := i % S
	i /= S
	cutB := i % S
	i /= S
	order := i % 2
	i /= 2
	prog := i % 16
	i /= 16
	fill := i % 3
	i /= 3
	wrap := i % 2
	cfg := config{ReqCap: 2, Fill: fill, SeekK: -1, Family: "sweep", Strategy: "sweep"}
	if wrap == 1 {
		cfg.SeekK = (int64(1)<<32 - 1) & 0xffffffff
	}
	a := []opSpec{{Kind: sweepOps[prog&1], Val: 1}, {Kind: sweepOps[(prog>>1)&1], Val: 2}}
	b := []opSpec{{Kind: sweepOps[(prog>>2)&1], Val: 101}, {Kind: sweepOps[(prog>>3)&1], Val: 102}}
	cfg.Threads = [][]opSpec{a, b}
	sc := sched.Config{Strategy: sched.Sweep, MaxSteps: 4000}
	if order == 0 {
		sc.Order = []int{0, 1, 0, 1}
	} else {
		sc.Order = []int{1, 0, 1, 0}
	}
	sc.Cuts = []int{cutA, cutB, 1 << 30, 1 << 30}
	controlled(c, cfg, sc)
}

const sweepN = 26 * 26 * 2 * 16 * 3 * 2

// ---- free-running ----

var freeKinds = []string{"Push", "Push", "Push", "Push", "Pop", "Pop", "Pop", "Pop", "Len", "IsEmpty", "IsFull", "PushWait", "PopWait"}

func freeCase(c *ev.Case) {
	rng := c.Rng
	cfg := config{ReqCap: rng.Range(1, 8), SeekK: -1, Family: "free", Strategy: "go-runtime"}
	if rng.Chance(1, 4) {
		base := int64(1) << 32
		cfg.SeekK = (base - int64(rng.Intn(12))) & 0xffffffff
	}
	g := rng.Range(2, 8)
	maxTotal := 22
	total := 0
	for t := 0; t < g; t++ {
		n := rng.Range(1, 6)
		if total+n > maxTotal {
			n = maxTotal - total
		}
		if n <= 0 {
			break
		}
		total += n
		var ops []opSpec
		for j := 0; j < n; j++ {
			k := freeKinds[rng.Intn(len(freeKinds))]
			if rng.Chance(1, 400) {
				if rng.Bool() {
					k = "PushWaitT"
				} else {
					k = "PopWaitT"
				}
			}
			ops = append(ops, opSpec{Kind: k, Val: int64(t*100 + j + 1)})
		}
		cfg.Threads = append(cfg.Threads, ops)
	}
	for _, t := range cfg.Threads {
		for _, o := range t {
			if o.Kind == "PushWaitT" || o.Kind == "PopWaitT" {
				c.Add("free_timed_wait_calls", 1)
			}
		}
	}
	probe := ringz.NewSync[int](cfg.ReqCap)
	cfg.Cap = probe.Cap()
	cfg.Fill = rng.Intn(cfg.Cap + 1)
	cfg.Rot = rng.Intn(2*cfg.Cap + 1)
	cfg.ViaInit = rng.Chance(1, 4)
	var r *ringz.SyncRing[int]
	var init []int64
	if !c.Guard("setup", func() { r, init, _ = setup(&cfg) }) {
		return
	}
	if cfg.ViaInit {
		c.Add("runs_via_init", 1)
	}
	rec := hist.NewRecorder(len(cfg.Threads), false)
	start := make(chan struct{})
	var wg sync.WaitGroup
	for t := range cfg.Threads {
		wg.Add(1)
		go func(t int) {
			defer wg.Done()
			<-start
			for _, o := range cfg.Threads[t] {
				do(r, rec, t, o)
			}
		}(t)
	}
	close(start)
	wg.Wait()
	tail(r, rec, cfg.Cap)
	ops := rec.Ops()
	c.Logf("config: %s", cfg.String())
	for _, l := range hist.Render(ops) {
		c.Logf("%s", l)
	}
	c.Add("runs", 1)
	if !judge(c, cfg, init, ops, "") {
		return
	}
	ov := false
	for _, o := range ops {
		if o.Overlapped {
			ov = true
			break
		}
	}
	if ov {
		c.Distinct(ev.HashString(cfg.String() + "|" + hist.Canon(ops)))
	}
	if c.WantSample() && ov {
		c.Sample(map[string]any{"config": cfg.String(), "history": hist.Render(ops)})
	}
}

// stressCase: P producers, Q consumers on a small ring; streaming monitors.
func stressCase(c *ev.Case) {
	rng := c.Rng
	reqCap := rng.Range(1, 8)
	r := ringz.NewSync[int](reqCap)
	capacity := r.Cap()
	if ok, _ := ringseek.Usable(reqCap); ok && rng.Bool() {
		// start close to the 32-bit wrap so the run crosses it
		ringseek.Seek(&r, uint32((int64(1)<<32-int64(rng.Intn(5000)))&0xffffffff))
		c.Add("stress_runs_crossing_wrap", 1)
	}
	P, Q := rng.Range(1, 6), rng.Range(1, 6)
	per := c.Run().N(6000, 60000)
	mode := rng.Intn(3) // 0: Push/Pop retry loops, 1: PushWait(-1)/PopWait(-1), 2: mixed
	total := P * per
	var popped, prodDone atomic.Int64
	type rec struct {
		vals []int32
	}
	got := make([]rec, Q)
	var lenBad atomic.Int64
	var lenObs atomic.Int64
	stop := make(chan struct{})
	var wg, mon sync.WaitGroup
	mon.Add(1)
	go func() {
		defer mon.Done()
		for {
			select {
			case <-stop:
				return
			default:
			}
			n := r.Len()
			if lenObs.Add(1)&15 == 0 {
				runtime.Gosched()
			}
			if n < 0 || n > capacity {
				lenBad.Store(int64(n)<<8 | 1)
			}
		}
	}()
	for p := 0; p < P; p++ {
		wg.Add(1)
		go func(p int) {
			defer wg.Done()
			defer prodDone.Add(1)
			for j := 0; j < per; j++ {
				v := p*per + j
				switch {
				case mode == 1 || (mode == 2 && j&1 == 0):
					r.PushWait(v, -1)
				default:
					for !r.Push(v) {
						runtime.Gosched()
					}
				}
			}
		}(p)
	}
	for q := 0; q < Q; q++ {
		wg.Add(1)
		go func(q int) {
			defer wg.Done()
			misses := 0
			for popped.Load() < int64(total) {
				var v int
				var ok bool
				if mode == 1 {
					v, ok = r.PopWait(0)
				} else {
					v, ok = r.Pop()
				}
				if ok {
					misses = 0
					popped.Add(1)
					got[q].vals = append(got[q].vals, int32(v))
				} else {
					runtime.Gosched() // keeps restricted GOMAXPROCS settings moving
					if prodDone.Load() == int64(P) {
						// producers are finished: a long run of failures means values were lost
						misses++
						if misses > 2000000 {
							return
						}
					}
				}
			}
		}(q)
	}
	wg.Wait()
	close(stop)
	mon.Wait()
	c.Add("stress_runs", 1)
	c.Add("stress_values", int64(total))
	c.Add("stress_len_observations", lenObs.Load())
	desc := fmt.Sprintf("reqcap=%d P=%d Q=%d per=%d mode=%d", reqCap, P, Q, per, mode)
	c.Logf("stress %s", desc)
	if b := lenBad.Load(); b != 0 {
		c.Failf("len-range", "stress %s: Len() = %d outside [0,%d]", desc, b>>8, capacity)
		return
	}
	seen := make([]uint8, total)
	n := 0
	for q := range got {
		last := make([]int, P)
		for i := range last {
			last[i] = -1
		}
		for _, v32 := range got[q].vals {
			v := int(v32)
			n++
			if v < 0 || v >= total {
				c.Failf("invented", "stress %s: popped value %d was never pushed", desc, v)
				return
			}
			if seen[v] != 0 {
				c.Failf("duplicate", "stress %s: value %d popped twice", desc, v)
				return
			}
			seen[v] = 1
			p, j := v/per, v%per
			if j < last[p] {
				c.Failf("fifo-order", "stress %s: consumer %d saw producer %d's value #%d after #%d", desc, q, p, j, last[p])
				return
			}
			last[p] = j
		}
	}
	if n != total {
		c.Failf("lost", "stress %s: %d values pushed, %d popped", desc, total, n)
		return
	}
	if !r.IsEmpty() || r.Len() != 0 || r.IsFull() {
		c.Failf("quiescent", "stress %s: drained ring reports Len=%d IsEmpty=%v IsFull=%v", desc, r.Len(), r.IsEmpty(), r.IsFull())
		return
	}
	if _, ok := r.Pop(); ok {
		c.Failf("invented", "stress %s: Pop succeeded on a drained ring", desc)
		return
	}
	c.Distinct(ev.HashString(desc))
}

// bigCapCase: one goroutine, large requested capacities around powers of two.
// Nothing is in flight, so the ring must accept exactly Cap() values (whatever
// Cap() is), refuse one more, and return all of them in FIFO order.
var bigCaps = func() []int {
	var out []int
	for k := 4; k <= 18; k++ {
		p := 1 << k
		out = append(out, p-1, p, p+1, p+2, p+p/2+1)
	}
	return append(out, 65537, 98305, 131073, 131074, 196609, 262145)
}()

func bigCapCase(c *ev.Case) {
	req := bigCaps[c.Index%len(bigCaps)]
	// both ways of constructing a ring: NewSync(n), and Init(n) on a zero value
	for _, ctor := range []string{"NewSync", "Init"} {
		var r *ringz.SyncRing[int]
		if !c.Guard(ctor, func() { r = newRing(req, ctor == "Init") }) {
			return
		}
		capacity := r.Cap()
		c.Logf("%s(%d): Cap=%d", ctor, req, capacity)
		if capacity < req {
			// the statement bounds the ring by Cap(), whatever its relation to the request
			c.Add("bigcap_capacity_below_request", 1)
		}
		bad := ""
		c.Guard("fill/drain", func() {
			for i := 0; i < capacity; i++ {
				if !r.Push(i) {
					bad = fmt.Sprintf("Push #%d returned false with nothing in flight on a ring holding %d of Cap()=%d", i, i, capacity)
					return
				}
			}
			if r.Push(-5) {
				bad = fmt.Sprintf("Push succeeded on a ring already holding Cap()=%d values", capacity)
				return
			}
			if r.Len() != capacity || !r.IsFull() || r.IsEmpty() {
				bad = fmt.Sprintf("quiescent full ring: Len=%d IsFull=%v IsEmpty=%v, Cap()=%d", r.Len(), r.IsFull(), r.IsEmpty(), capacity)
				return
			}
			for i := 0; i < capacity; i++ {
				v, ok := r.Pop()
				if !ok || v != i {
					bad = fmt.Sprintf("Pop #%d = (%d,%v) with nothing in flight, FIFO order wants (%d,true)", i, v, ok, i)
					return
				}
			}
			if _, ok := r.Pop(); ok || r.Len() != 0 || !r.IsEmpty() {
				bad = fmt.Sprintf("quiescent drained ring: Len=%d IsEmpty=%v", r.Len(), r.IsEmpty())
			}
		})
		if c.Failed() {
			return
		}
		if bad != "" {
			c.Failf("bigcap", "%s(%d): %s", ctor, req, bad)
			return
		}
		c.Add("bigcap_cases", 1)
		if ctor == "Init" {
			c.Add("bigcap_cases_via_init", 1)
		}
		if c.WantSample() {
			c.Sample(fmt.Sprintf("bigcap: %s(%d), Cap()=%d: filled, overflow refused, drained in FIFO order, one goroutine", ctor, req, capacity))
		}
	}
	c.Distinct(ev.Mix(uint64(req), 777))
}

// honestWrapCase (thorough): one goroutine really performs more than 2^32
// push/pop pairs on a small ring, independent of any private field, so that the
// 32-bit position counters wrap whatever their representation is. Nothing is in
// flight at the probes, so Len/IsEmpty/IsFull must be exact, a full ring must
// refuse a push, an empty one a pop, and values must come back in FIFO order.
func honestWrapCase(c *ev.Case) {
	req := []int{2, 3, 8}[c.Index%3]
	r := ringz.NewSync[int](req)
	capacity := r.Cap()
	fill := c.Index % capacity
	pairs := uint64(1)<<32 + uint64(1)<<18
	for i := 0; i < fill; i++ {
		if !r.Push(i) {
			c.Failf("honest-wrap", "Push failed while filling a fresh ring")
			return
		}
	}
	bad := ""
	c.Guard("honest-wrap loop", func() {
		for i := uint64(0); i < pairs; i++ {
			if !r.Push(int(i) + fill) {
				bad = fmt.Sprintf("Push #%d returned false with nothing in flight on a ring holding %d of %d (Len()=%d)", i, fill, capacity, r.Len())
				return
			}
			got, ok := r.Pop()
			if !ok || got != int(i) {
				bad = fmt.Sprintf("Pop #%d = (%d,%v) with nothing in flight, FIFO order wants (%d,true)", i, got, ok, i)
				return
			}
			if i&0x3FFFFF == 0 || (i >= 1<<32-40 && i <= 1<<32+40) {
				if r.Len() != fill || r.IsEmpty() != (fill == 0) || r.IsFull() {
					bad = fmt.Sprintf("after pair #%d: Len=%d IsEmpty=%v IsFull=%v with %d of %d held and nothing in flight", i, r.Len(), r.IsEmpty(), r.IsFull(), fill, capacity)
					return
				}
				for j := fill; j < capacity; j++ {
					if !r.Push(-1) {
						bad = fmt.Sprintf("after pair #%d: Push returned false at %d of %d", i, j, capacity)
						return
					}
				}
				if r.Push(-2) || !r.IsFull() || r.Len() != capacity {
					bad = fmt.Sprintf("after pair #%d: a full ring accepted a push or misreports (Len=%d IsFull=%v)", i, r.Len(), r.IsFull())
					return
				}
				for j := 0; j < capacity; j++ {
					if _, ok := r.Pop(); !ok {
						bad = fmt.Sprintf("after pair #%d: Pop returned false on a ring holding %d", i, capacity-j)
						return
					}
				}
				if _, ok := r.Pop(); ok || !r.IsEmpty() || r.Len() != 0 {
					bad = fmt.Sprintf("after pair #%d: a drained ring misreports (Len=%d IsEmpty=%v)", i, r.Len(), r.IsEmpty())
					return
				}
				for j := 0; j < fill; j++ {
					r.Push(int(i) + 1 + j)
				}
			}
		}
	})
	if bad != "" {
		c.Failf("honest-wrap", "NewSync(%d) standing fill %d: %s", req, fill, bad)
		return
	}
	c.Add("honest_wraps", 1)
	c.Distinct(ev.Mix(uint64(req), uint64(fill), 31337))
	if c.WantSample() {
		c.Sample(fmt.Sprintf("honest-wrap: NewSync(%d), standing fill %d, %d real push/pop pairs by one goroutine across the 2^32 counter wrap", req, fill, pairs))
	}
}

func main() {
	r := ev.New("C01")
	r.Rule("controlled: one case = (ring configuration, per-thread operation lists, schedule trace) drawn from the seed; distinct = distinct hash of configuration+program+trace among runs with at least one context switch. free-running: distinct = distinct canonical history (operations, results, order of call/return events) with at least one overlapping pair. stress: distinct parameter sets. round: like controlled, programs are k callers of one kind (Push/PushWait(v,0) or Pop/PopWait(0)) with one call each on a ring with at least k free slots / stored values.")
	r.Assume("plain (non-atomic) accesses between two atomic operations run as one indivisible step in the controlled engine; those are covered only by the race detector in the free-running engines")
	r.Assume("controlled programs have at most 4 threads and 10 operations (one-kind rounds: up to 6 callers with one call each); free-running histories at most 8 goroutines and 22 operations")
	r.Assume("a failed Push/Pop is accepted when its recorded interval intersects another operation's interval (the property's own excuse)")
	sched.JitterOn = os.Getenv("VERIF_JITTER") == "1"
	seekOK, why := ringseek.Usable(2)
	if !seekOK && !r.IsChild() {
		r.Add("seek_unusable", 1)
		fmt.Println("note: counter seek unusable (" + why + "); rotations around the 2^32 wrap are reached by honest runs of 2^32 push/pop pairs instead (about two minutes)")
	}

	r.Cases("bigcap", len(bigCaps), ev.Opt{Workers: 4, HangViolation: true}, bigCapCase)
	// the same under processor counts that do not divide a power of two (work split "per CPU")
	for _, p := range []string{"3", "5", "7"} {
		r.CasesProc("bigcap/P"+p, len(bigCaps), ev.Opt{Procs: 2, HangViolation: true, Env: []string{"GOMAXPROCS=" + p}}, bigCapCase)
	}
	// element types other than int (nil interface values, nil pointers, "", zero-size, multi-word)
	r.Cases("typed", r.N(4000, 80000), ev.Opt{HangViolation: true, MaxCaseSeconds: 60}, ringtyped.Case)
	r.Require("typed_nil_elements_popped", 2000)
	r.Require("typed_pipe_elements", 100000)
	nctl := r.N(60000, 3000000)
	r.CasesProc("ctl", nctl, ev.Opt{Bin: "shim", Procs: 14}, ctlCase)
	// the progress clause (not every caller of a one-kind round is refused), 2..6 callers, all call forms
	r.CasesProc("round", r.N(10000, 400000), ev.Opt{Bin: "shim", Procs: 8}, roundCase)
	if r.Thorough() || !seekOK {
		// every case is 2^32 real push/pop pairs: no logging re-run, and only three rings in the quick tier
		r.Cases("honest-wrap", r.N(3, 6), ev.Opt{MaxCaseSeconds: 3000, NoRerun: true, AlwaysLog: true}, honestWrapCase)
	}
	if r.Thorough() {
		r.CasesProc("sweep", sweepN, ev.Opt{Bin: "shim", Procs: 14}, sweepCase)
	}
	r.CasesProc("timed", r.N(160, 3000), ev.Opt{Procs: 4, Workers: 8, AlwaysLog: true, MaxCaseSeconds: 120}, timedCase)
	r.Require("timed_rounds", 2000)
	r.Require("timed_quiet_pushwait_ok", 300)
	r.Require("timed_quiet_popwait_ok", 300)
	nfree := r.N(6000, 120000)
	r.CasesProc("free/race", nfree, ev.Opt{Bin: "race", Procs: 6, AlwaysLog: true}, freeCase)
	r.CasesProc("free/jitter", nfree, ev.Opt{Bin: "shimrace", Procs: 6, AlwaysLog: true, Env: []string{"VERIF_JITTER=1"}}, freeCase)
	if r.HasViolations() {
		// the verdict is decided; long stress runs on a broken ring may spin
		r.Finish()
	}
	r.CasesProc("stress/race", r.N(12, 60), ev.Opt{Bin: "race", Procs: 3, AlwaysLog: true, MaxCaseSeconds: 1500}, stressCase)
	r.CasesProc("stress/jitter", r.N(6, 30), ev.Opt{Bin: "shimrace", Procs: 2, AlwaysLog: true, MaxCaseSeconds: 1500, Env: []string{"VERIF_JITTER=1"}}, stressCase)
	if r.Thorough() {
		for _, p := range []string{"2", "4"} {
			r.CasesProc("free/race/P"+p, nfree/2, ev.Opt{Bin: "race", Procs: 6, AlwaysLog: true, Env: []string{"GOMAXPROCS=" + p}}, freeCase)
			r.CasesProc("stress/race/P"+p, 12, ev.Opt{Bin: "race", Procs: 3, AlwaysLog: true, MaxCaseSeconds: 1500, Env: []string{"GOMAXPROCS=" + p}}, stressCase)
		}
	}
	r.Require("histories_checked", int64(nctl/2))
	// progress clause: both kinds of round, every call form, up to 6 callers
	r.Require("rounds_push", 3000)
	r.Require("rounds_pop", 3000)
	r.Require("rounds_all_single_try_wait", 1000)
	r.Require("rounds_mixed_single_try_wait", 700)
	r.Require("rounds/5-callers", 500)
	r.Require("rounds/6-callers", 500)
	// both constructors
	r.Require("runs_via_init", 6000)
	r.Require("bigcap_cases_via_init", int64(len(bigCaps)))
	// operations nothing overlapped: the model decides them strictly (refusal only when
	// full/empty, observers exact), in both outcomes
	r.Require("quiet_push_ok", 100000)
	r.Require("quiet_pop_ok", 100000)
	r.Require("quiet_push_refused", 30000)
	r.Require("quiet_pop_refused", 30000)
	r.Require("quiet_len", 80000)
	r.Require("quiet_isempty_true", 30000)
	r.Require("quiet_isempty_false", 30000)
	r.Require("quiet_isfull_true", 30000)
	r.Require("quiet_isfull_false", 30000)
	r.Require("busy_len", 5000)
	r.Require("free_timed_wait_calls", 150)
	r.Require("ops_overlapped", 1000)
	r.Require("push_ok", 1000)
	r.Require("pop_ok", 1000)
	r.Finish()
}
