package main

import (
	"fmt"
	"runtime"
	"time"

	"github.com/welllog/golib/ringz"

	"verif/ev"
)

// timedCase: a timed PopWait on an empty ring (or a timed PushWait on a full ring)
// races with the one Push (Pop) that would let it succeed, placed near the deadline.
// Wall-clock time only places that operation; the verdict does not depend on it: the
// value is either handed over or it is not, exactly once, and the ring's content
// afterwards says which. A wait that gives up while a helper of its own keeps going
// loses a value or inserts one after reporting failure.
func timedCase(c *ev.Case) {
	rng := c.Rng
	req := rng.Pick(1, 2, 3, 4)
	r := ringz.NewSync[int](req)
	cp := r.Cap()
	rounds := rng.Range(12, 30)
	next := c.Index*100000 + 1
	for k := 0; k < rounds; k++ {
		d := time.Duration(rng.Pick(30, 100, 300, 1000, 3000)) * time.Microsecond
		var at time.Duration
		switch rng.Intn(4) {
		case 0:
			at = d + time.Duration(rng.Range(-40, 40))*time.Microsecond
		case 1:
			at = 10*time.Millisecond + time.Duration(rng.Range(-60, 60))*time.Microsecond
		case 2:
			at = d / 2
		default:
			at = time.Duration(rng.Range(0, 200)) * time.Microsecond
		}
		if at < 0 {
			at = 0
		}
		pushSide := rng.Bool()
		// bring the ring to full (PushWait must wait) or empty (PopWait must wait)
		var content []int
		refused := -1
		ok := c.Guard("prepare", func() {
			for {
				if _, ok := r.Pop(); !ok {
					break
				}
			}
			if pushSide {
				for i := 0; i < cp; i++ {
					if !r.Push(next) {
						refused = i
						return
					}
					content = append(content, next)
					next++
				}
			}
		})
		if !ok {
			return
		}
		if refused >= 0 {
			c.Failf("timed-prepare", "ring drained by one goroutine (Pop returned false), nothing in flight: Push #%d of %d returned false (Cap()=%d)", refused+1, cp, cp)
			return
		}
		if rng.Bool() {
			// A timed call with nothing else running: it may be refused only by a full (empty)
			// ring, so with one free slot (one stored value) it must succeed, whatever maxWait is.
			x := next
			next++
			var got, head int
			var qok, hok bool
			if !c.Guard("quiet timed call", func() {
				if pushSide {
					head, hok = r.Pop()
					qok = r.PushWait(x, d)
				} else {
					hok = r.Push(x)
					got, qok = r.PopWait(d)
				}
			}) {
				return
			}
			if pushSide {
				c.Logf("round %d: full ring %v, Pop -> (%d,%v), then PushWait(%d,%v) with nothing in flight -> %v", k, content, head, hok, x, d, qok)
				if !hok || head != content[0] || !qok {
					c.Failf("timed-quiet", "full ring %v, nothing in flight: Pop returned (%d,%v), then PushWait(%d, %v) on the ring with one free slot returned %v", content, head, hok, x, d, qok)
					return
				}
				content = append(content[1:], x)
				c.Add("timed_quiet_pushwait_ok", 1)
			} else {
				c.Logf("round %d: empty ring, Push(%d) -> %v, then PopWait(%v) with nothing in flight -> (%d,%v)", k, x, hok, d, got, qok)
				if !hok || !qok || got != x {
					c.Failf("timed-quiet", "empty ring, nothing in flight: Push(%d) returned %v, then PopWait(%v) returned (%d,%v)", x, hok, d, got, qok)
					return
				}
				c.Add("timed_quiet_popwait_ok", 1)
			}
		}
		v := next
		next++
		type res struct {
			v   int
			ok  bool
			pan any
		}
		done := make(chan res, 1)
		ready := make(chan time.Time, 1)
		go func() {
			var p res
			defer func() {
				if x := recover(); x != nil {
					p.pan = x
				}
				done <- p
			}()
			ready <- time.Now()
			if pushSide {
				p.ok = r.PushWait(v, d)
			} else {
				p.v, p.ok = r.PopWait(d)
			}
		}()
		start := <-ready
		for time.Since(start) < at {
			runtime.Gosched()
		}
		var other int
		var otherOK bool
		if !c.Guard("counterpart", func() {
			if pushSide {
				other, otherOK = r.Pop()
			} else {
				otherOK = r.Push(v)
			}
		}) {
			<-done
			return
		}
		p := <-done
		if p.pan != nil {
			c.Failf("panic/timed-wait", "timed wait (%v) panicked: %v", d, p.pan)
			return
		}
		if !otherOK {
			// the single counterpart failed although it was the only other operation: it
			// overlapped the wait, which the statement excuses; nothing to judge this round
			c.Add("timed_counterpart_failed_overlapped", 1)
			continue
		}
		if rng.Chance(1, 4) {
			time.Sleep(200 * time.Microsecond) // a helper left behind by a broken wait gets time to act
		}
		var rest []int
		if !c.Guard("drain", func() {
			for {
				x, ok := r.Pop()
				if !ok {
					break
				}
				rest = append(rest, x)
			}
		}) {
			return
		}
		if pushSide {
			// ring was full with content; one Pop took content[0]; PushWait(v) succeeded or not
			want := append([]int(nil), content[1:]...)
			if p.ok {
				want = append(want, v)
			}
			c.Logf("round %d: PushWait(%d,%v) on a full ring, Pop about %v later took %d -> %v; ring then %v", k, v, d, at, other, p.ok, rest)
			if other != content[0] || !sameInts(rest, want) {
				c.Failf("timed-pushwait", "full ring %v: PushWait(%d, %v) returned %v, the one Pop returned %d; draining afterwards yields %v, FIFO content must be %v", content, v, d, p.ok, other, rest, want)
				return
			}
			if p.ok {
				c.Add("timed_pushwait_succeeded", 1)
			} else {
				c.Add("timed_pushwait_timed_out", 1)
			}
		} else {
			c.Logf("round %d: PopWait(%v) on an empty ring, Push(%d) about %v later -> (%d,%v); ring then %v", k, d, v, at, p.v, p.ok, rest)
			switch {
			case p.ok && (p.v != v || len(rest) != 0):
				c.Failf("timed-popwait", "empty ring: PopWait(%v) returned (%d,true) and the ring then still held %v; exactly one value, %d, was pushed", d, p.v, rest, v)
				return
			case !p.ok && (len(rest) != 1 || rest[0] != v):
				c.Failf("timed-popwait-lost", "empty ring: PopWait(%v) returned false, Push(%d) had succeeded, and draining the ring afterwards yields %v: the value was returned by nobody and is not stored", d, v, rest)
				return
			}
			if p.ok {
				c.Add("timed_popwait_got_value", 1)
			} else {
				c.Add("timed_popwait_timed_out", 1)
			}
		}
	}
	c.Add("timed_rounds", int64(rounds))
	c.Distinct(ev.Mix(uint64(c.Index), uint64(rounds), uint64(cp), 78))
	if c.WantSample() {
		c.Sample(fmt.Sprintf("timed: %d rounds of timed PushWait on a full / PopWait on an empty ring (cap %d) against the one counterpart operation placed near the deadline", rounds, cp))
	}
}

func sameInts(a, b []int) bool {
	if len(a) != len(b) {
		return false
	}
	for i := range a {
		if a[i] != b[i] {
			return false
		}
	}
	return true
}
