// C08 — AES-CBC/GCM helpers and PKCS#7 padding invert exactly and reject bad input.
//
// Differential / round-trip / hostile-input monitor. The real cryptz functions
// run on generated keys, IVs, nonces, additional data, plaintexts, aliasing
// layouts and corrupted inputs; the oracles are
//   - PKCS#7 written from its definition + CBC chaining written by hand over the
//     raw AES block function (crypto/aes), and crypto/cipher GCM Seal/Open;
//   - published NIST / GCM-spec known-answer vectors (engine "kat");
//   - the reference predicate "non-empty, multiple of b, last byte p in 1..b,
//     last p bytes all p" for every byte string offered to un-padding.
//
// Files: main.go (engines, floors, KATs), ref.go (reference + canary buffers),
// cbc.go, gcm.go, pkcs.go.
package main

import (
	"bytes"
	"encoding/hex"
	"fmt"

	"github.com/welllog/golib/cryptz"

	"verif/ev"
)

func unhex(s string) []byte {
	b, err := hex.DecodeString(s)
	if err != nil {
		panic("bad hex in KAT table: " + err.Error())
	}
	return b
}

const nistPT = "6bc1bee22e409f96e93d7e117393172aae2d8a571e03ac9c9eb76fac45af8e5130c81c46a35ce411e5fbc1191a0a52eff69f2445df4f9b17ad2b417be66c3710"
const nistIV = "000102030405060708090a0b0c0d0e0f"

// NIST SP 800-38A F.2.1 / F.2.3 / F.2.5 (CBC-AES128/192/256.Encrypt).
var cbcKATs = []struct{ name, key, ct string }{
	{"SP800-38A F.2.1 CBC-AES128", "2b7e151628aed2a6abf7158809cf4f3c",
		"7649abac8119b246cee98e9b12e9197d5086cb9b507219ee95db113a917678b273bed6b8e3c1743b7116e69e222295163ff1caa1681fac09120eca307586e1a7"},
	{"SP800-38A F.2.3 CBC-AES192", "8e73b0f7da0e6452c810f32b809079e562f8ead2522c6b7b",
		"4f021db243bc633d7178183a9fa071e8b4d9ada9ad7dedf4e5e738763f69145a571b242012fb7ae07fa9baac3df102e008b0e27988598881d920a9e64f5615cd"},
	{"SP800-38A F.2.5 CBC-AES256", "603deb1015ca71be2b73aef0857d77811f352c073b6108d72d9810a30914dff4",
		"f58c4c04d6e5f1ba779eabfb5f7bfbd69cfc4e967edb808d679f777bc6702c7d39f23369a9d9bacfa530e26304231461b2eb05e2c39be9fcda6c19078c6a9d1b"},
}

const gcmP = "d9313225f88406e5a55909c5aff5269a86a7a9531534f7da2e4c303d8a318a721c3c0c95956809532fcf0e2449a6b525b16aedf5aa0de657ba637b391aafd255"
const gcmC = "42831ec2217774244b7221b784d0d49ce3aa212f2c02a4e035c17e2329aca12e21d514b25466931c7d8f6a5aac84aa051ba30b396a0aac973d58e091473f5985"

// McGrew & Viega, "The Galois/Counter Mode of Operation", test cases 1-4.
var gcmKATs = []struct{ name, key, nonce, aad, pt, ct, tag string }{
	{"GCM spec test case 1", "00000000000000000000000000000000", "000000000000000000000000", "", "", "", "58e2fccefa7e3061367f1d57a4e7455a"},
	{"GCM spec test case 2", "00000000000000000000000000000000", "000000000000000000000000", "", "00000000000000000000000000000000", "0388dace60b6a392f328c2b971b2fe78", "ab6e47d42cec13bdf53a67b21257bddf"},
	{"GCM spec test case 3", "feffe9928665731c6d6a8f9467308308", "cafebabefacedbaddecaf888", "", gcmP, gcmC, "4d5c2af327cd64a62cf35abd2ba6fab4"},
	{"GCM spec test case 4", "feffe9928665731c6d6a8f9467308308", "cafebabefacedbaddecaf888", "feedfacedeadbeeffeedfacedeadbeefabaddad2", gcmP[:120], gcmC[:120], "5bc94fbc3221a5db94fae95ae7121a47"},
}

// katCase: golib against published vectors (independent of the Go standard
// library as an oracle). For CBC the vector fixes the first 64 ciphertext
// bytes; golib appends the encrypted padding block.
func katCase(c *ev.Case) {
	nC := len(cbcKATs)
	k := c.Index % (nC + len(gcmKATs))
	inplace := (c.Index/(nC+len(gcmKATs)))%2 == 1
	if k < nC {
		v := cbcKATs[k]
		key, iv, pt, ct := unhex(v.key), unhex(nistIV), unhex(nistPT), unhex(v.ct)
		// use 1..4 blocks of the vector (CBC prefixes are vectors too)
		nb := 1 + (c.Index/(2*(nC+len(gcmKATs))))%4
		pt, ct = pt[:nb*blk], ct[:nb*blk]
		var L int
		if !c.Guard("AESCBCEncryptLen", func() { L = cryptz.AESCBCEncryptLen(pt) }) {
			return
		}
		if L != len(pt)+blk {
			c.Failf("kat-cbc-enclen", "%s: AESCBCEncryptLen(%d bytes) = %d, want %d", v.name, len(pt), L, len(pt)+blk)
			return
		}
		cb := newCbuf(c.Rng, L)
		dst := cb.region(false)
		src := clone(pt)
		if inplace {
			copy(dst, pt)
			src = dst[:len(pt)]
		}
		var err error
		if !c.Guard("AESCBCEncrypt", func() { err = cryptz.AESCBCEncrypt(dst, src, key, iv) }) {
			return
		}
		c.Logf("%s (%d blocks, inplace=%v): AESCBCEncrypt -> err=%v dst=%s", v.name, nb, inplace, err, hx(dst))
		if err != nil {
			c.Failf("kat-cbc-err", "%s: AESCBCEncrypt returned %v", v.name, err)
			return
		}
		if !bytes.Equal(dst[:len(ct)], ct) {
			c.Failf("kat-cbc-encrypt", "%s (%d blocks, inplace=%v): AESCBCEncrypt gives %s, published ciphertext is %s", v.name, nb, inplace, hx(dst[:len(ct)]), hx(ct))
			return
		}
		if d := cb.damaged(); d != "" {
			c.Failf("kat-cbc-overrun", "%s: %s", v.name, d)
			return
		}
		full := clone(dst)
		out := make([]byte, len(full))
		in := full
		if inplace {
			out = full
		}
		var n int
		if !c.Guard("AESCBCDecrypt", func() { n, err = cryptz.AESCBCDecrypt(out, in, key, iv) }) {
			return
		}
		c.Logf("AESCBCDecrypt -> n=%d err=%v", n, err)
		if err != nil || n != len(pt) || n > len(out) || !bytes.Equal(out[:n], pt) {
			c.Failf("kat-cbc-decrypt", "%s (%d blocks, inplace=%v): AESCBCDecrypt of golib's own output gives n=%d err=%v, want the %d-byte published plaintext", v.name, nb, inplace, n, err, len(pt))
			return
		}
		c.Add("kat_cbc_vectors", 1)
		if wantSample(c, 5) {
			c.Sample(fmt.Sprintf("kat: %s, first %d block(s), inplace=%v: ciphertext == published vector, decrypts to published plaintext", v.name, nb, inplace))
		}
		return
	}
	v := gcmKATs[k-nC]
	key, nonce, aad, pt := unhex(v.key), unhex(v.nonce), unhex(v.aad), unhex(v.pt)
	want := append(unhex(v.ct), unhex(v.tag)...)
	var L int
	if !c.Guard("AESGCMEncryptLen", func() { L = cryptz.AESGCMEncryptLen(pt) }) {
		return
	}
	if L != len(want) {
		c.Failf("kat-gcm-enclen", "%s: AESGCMEncryptLen(%d bytes) = %d, want %d", v.name, len(pt), L, len(want))
		return
	}
	cb := newCbuf(c.Rng, L)
	dst := cb.region(false)
	src := clone(pt)
	if inplace {
		copy(dst, pt)
		src = dst[:len(pt)]
	}
	var err error
	if !c.Guard("AESGCMEncrypt", func() { err = cryptz.AESGCMEncrypt(dst, src, key, nonce, aad) }) {
		return
	}
	c.Logf("%s (inplace=%v): AESGCMEncrypt -> err=%v dst=%s", v.name, inplace, err, hx(dst))
	if err != nil {
		c.Failf("kat-gcm-err", "%s: AESGCMEncrypt returned %v", v.name, err)
		return
	}
	if !bytes.Equal(dst, want) {
		c.Failf("kat-gcm-encrypt", "%s (inplace=%v): AESGCMEncrypt gives %s, published ciphertext||tag is %s", v.name, inplace, hx(dst), hx(want))
		return
	}
	if d := cb.damaged(); d != "" {
		c.Failf("kat-gcm-overrun", "%s: %s", v.name, d)
		return
	}
	var dl int
	if !c.Guard("AESGCMDecryptLen", func() { dl = cryptz.AESGCMDecryptLen(want) }) {
		return
	}
	if dl != len(pt) {
		c.Failf("kat-gcm-declen", "%s: AESGCMDecryptLen(%d bytes) = %d, want %d", v.name, len(want), dl, len(pt))
		return
	}
	in := clone(want)
	out := make([]byte, dl)
	if inplace {
		out = in[:dl]
	}
	if !c.Guard("AESGCMDecrypt", func() { err = cryptz.AESGCMDecrypt(out, in, key, nonce, aad) }) {
		return
	}
	c.Logf("AESGCMDecrypt -> err=%v out=%s", err, hx(out))
	if err != nil || !bytes.Equal(out, pt) {
		c.Failf("kat-gcm-decrypt", "%s (inplace=%v): AESGCMDecrypt of the published ciphertext||tag gives err=%v out=%s, want %s", v.name, inplace, err, hx(out), hx(pt))
		return
	}
	c.Add("kat_gcm_vectors", 1)
	if wantSample(c, 5) {
		c.Sample(fmt.Sprintf("kat: %s, inplace=%v: ciphertext||tag == published vector, decrypts to published plaintext", v.name, inplace))
	}
}

func main() {
	r := ev.New("C08")
	r.Rule("one case = one generated input tuple: (key 16/24/32, iv, plaintext 0..80 by index plus larger sizes, layout) for cbc/gcm; one GCM message with every single-bit flip of ciphertext, tag, nonce and aad for gcm-tamper; one ciphertext (illegal length, random, or reference-CBC of a crafted padded tail) for cbc-hostile; one (byte string, block size) for unpad; one (d, b) for pad-roundtrip (the first 16320 indices enumerate every b in 1..255 x |d| in 1..64); one key size (0..40 and a dozen larger ones up to 1024) for bad-key; one size from 8 KiB to 3 MiB for big. distinct = distinct hash of the full input tuple; non-trivial = the golib call sequence ran to the end and every result was compared with the reference (empty un-padding inputs and valid-key controls are not counted)")
	r.Assume("crypto/aes block Encrypt/Decrypt and crypto/cipher GCM Seal/Open are the standard AES and AES-GCM (cross-checked in engine kat against published SP 800-38A and GCM-spec vectors); CBC chaining and PKCS#7 are re-implemented in the harness from their definitions")
	r.Assume("destinations are exactly AESCBCEncryptLen / AESCBCDecryptLen / AESGCMEncryptLen / AESGCMDecryptLen bytes long; aliasing is limited to the layouts the doc comments describe (pre-grown plaintext buffer, dst = ciphertext, dst = ct[:len-16]) plus non-overlapping regions of one backing array (engine arena), which is separate memory; key/iv/nonce/aad buffers may be overwritten by the caller between calls (engine buffer-reuse); IVs are 16 bytes; nothing is asserted about dst content after a failed decryption or about the error text")
	opt := ev.Opt{HangViolation: true, MaxCaseSeconds: 60}
	r.Cases("kat", r.N(56, 560), opt, katCase)
	r.Cases("cbc", r.N(120000, 4000000), opt, cbcCase)
	// the same workload on parallel workers under the race detector: package-level state shared
	// between instances that no goroutine shares is reported from the happens-before relation,
	// whether or not the accesses collide in this run (and however loaded the machine is)
	r.CasesProc("cbc/race-parallel", r.N(1500, 40000), ev.Opt{Bin: "race", Procs: 2, Workers: 8, AlwaysLog: true, HangViolation: true, MaxCaseSeconds: 120}, cbcCase)
	r.CasesProc("gcm/race-parallel", r.N(1200, 30000), ev.Opt{Bin: "race", Procs: 2, Workers: 8, AlwaysLog: true, HangViolation: true, MaxCaseSeconds: 120}, gcmCase)
	r.Cases("cbc-hostile", r.N(200000, 8000000), opt, cbcHostileCase)
	r.Cases("gcm", r.N(100000, 3000000), opt, gcmCase)
	r.Cases("gcm-tamper", r.N(2646, 132300), opt, gcmTamperCase)
	r.Cases("unpad", r.N(400000, 16000000), opt, unpadCase)
	r.Cases("pad-roundtrip", r.N(rtCombos+40000, rtCombos+3000000), opt, padRoundTripCase)
	r.Cases("bad-key", r.N(20*len(badKeySizes), 1000*len(badKeySizes)), opt, badKeyCase)
	r.CasesProc("cold-start", 16, ev.Opt{Procs: 16}, coldCase)
	r.Cases("big", r.N(len(bigOffsets)*len(bigSizes), 6*len(bigOffsets)*len(bigSizes)), ev.Opt{Workers: 8, MaxCaseSeconds: 300}, bigCase)
	r.Cases("arena", r.N(30000, 1000000), opt, arenaCase)
	r.Cases("buffer-reuse", r.N(20000, 600000), opt, reuseCase)

	// anti-vacuity floors (well below what a healthy quick run observes)
	for k, v := range map[string]int64{
		"kat_cbc_vectors":                                20,
		"kat_gcm_vectors":                                20,
		"cbc_roundtrips":                                 50000,
		"cbc_key128":                                     10000,
		"cbc_key192":                                     10000,
		"cbc_key256":                                     10000,
		"cbc_plaintext_empty":                            300,
		"cbc_plaintext_block_aligned":                    2000,
		"cbc_encrypt_inplace":                            50000,
		"cbc_decrypt_inplace":                            50000,
		"cbc_hostile/illegal-ciphertext-length":          10000,
		"cbc_hostile/valid":                              5000,
		"cbc_hostile/valid-full-block":                   1000,
		"cbc_hostile/pad-zero":                           2000,
		"cbc_hostile/pad-gt-block":                       5000,
		"cbc_hostile/pad-bytes":                          5000,
		"gcm_roundtrips":                                 40000,
		"gcm_encrypt_inplace":                            40000,
		"gcm_decrypt_inplace":                            40000,
		"gcm_plaintext_empty":                            200,
		"gcm_aad_nonempty":                               20000,
		"gcm_flips_ciphertext":                           100000,
		"gcm_flips_tag":                                  100000,
		"gcm_flips_nonce":                                100000,
		"gcm_flips_aad":                                  30000,
		"gcm_tamper_messages":                            1000,
		"unpad/valid":                                    20000,
		"unpad/valid-full-block":                         5000,
		"unpad/empty":                                    5000,
		"unpad/not-multiple":                             10000,
		"unpad/pad-zero":                                 5000,
		"unpad/pad-gt-block":                             10000,
		"unpad/pad-bytes":                                10000,
		"unpad/blocksize-nonpositive":                    1000,
		"unpad_pkcs5_calls":                              3000,
		"pad_roundtrip_enumerated_pairs":                 rtCombos,
		"pad_roundtrips":                                 30000,
		"pad_block_aligned_input":                        500,
		"key_size_invalid_rejected":                      2000,
		"key_size_valid_control":                         30,
		"arena_cases":                                    10000,
		"cold_start_cases":                               16,
		"big_cases":                                      30,
		"key_class/hex-lower":                            5000,
		"key_class/hex-upper":                            5000,
		"key_class/hex-mixed":                            5000,
		"key_class/base64":                               5000,
		"key_class/printable":                            5000,
		"key_class/zero":                                 5000,
		"badkey_class/hex-lower":                         80,
		"badkey_class/hex-upper":                         80,
		"badkey_class/base64":                            80,
		"big_offset/-16":                                 10,
		"big_offset/-1":                                  10,
		"big_offset/+0":                                  10,
		"big_offset/+17":                                 10,
		"big_cbc_damaged_padding_rejected":               15,
		"big_cbc_illegal_length_rejected":                30,
		"big_gcm_roundtrips":                             30,
		"big_gcm_tampers_rejected":                       120,
		"big_pkcs7_roundtrips":                           30,
		"big_pkcs7_damaged_padding_rejected":             15,
		"key_size_invalid_above_40_rejected":             400,
		"cbc_encrypt_separate":                           50000,
		"cbc_decrypt_separate":                           50000,
		"cbc_len_helper_checks":                          100000,
		"cbc_hostile_rejected_inplace":                   30000,
		"cbc_hostile_rejected_separate":                  30000,
		"cbc_hostile_valid_recovered_inplace":            3000,
		"cbc_hostile_valid_recovered_separate":           3000,
		"cbc_hostile_empty_ciphertext_rejected":          100,
		"cbc_hostile_many_blocks":                        500,
		"cbc_hostile_key128":                             20000,
		"cbc_hostile_key192":                             20000,
		"cbc_hostile_key256":                             20000,
		"gcm_key128":                                     10000,
		"gcm_key192":                                     10000,
		"gcm_key256":                                     10000,
		"gcm_encrypt_separate":                           40000,
		"gcm_decrypt_separate":                           40000,
		"gcm_len_helper_checks":                          100000,
		"gcm_aad_empty":                                  2000,
		"gcm_nonce_nonstandard_len":                      3000,
		"gcm_spot_tampers_rejected":                      100000,
		"gcm_spot_tampers_rejected_nonstandard_nonce":    10000,
		"gcm_length_and_byte_changes":                    8000,
		"pad_roundtrip_pkcs5":                            100,
		"pad_input_with_spare_capacity":                  10000,
		"unpad_pkcs7_calls":                              100000,
		"unpad_block_1..16":                              50000,
		"unpad_block_17..255":                            50000,
		"unpad_block_17..255_long_pad_corrupted":         1000,
		"unpad/valid/nonempty-d-block-1..255":            10000,
		"unpad/valid-full-block/nonempty-d-block-1..255": 1000,
		"reuse_steps":                                    30000,
		"reuse_stale_messages_rejected":                  10000,
	} {
		r.Require(k, v)
	}
	r.Finish()
}
