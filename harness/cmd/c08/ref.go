package main

// Reference side of the C08 monitor: PKCS#7 written from its definition, CBC
// chaining written by hand on top of the raw AES block function, and the
// canary buffers the golib functions write into.

import (
	"bytes"
	"crypto/cipher"
	"fmt"

	"verif/ev"
)

const blk = 16

// refPad is PKCS#7 from the definition: p = b - len%b bytes of value p.
func refPad(d []byte, b int) []byte {
	p := b - len(d)%b
	out := make([]byte, 0, len(d)+p)
	out = append(out, d...)
	for i := 0; i < p; i++ {
		out = append(out, byte(p))
	}
	return out
}

// unpadRef is the reference predicate of the property statement:
// "non-empty, multiple of b, last byte p in 1..b, last p bytes all p".
type unpadRef struct {
	ok    bool
	n     int    // length of the un-padded prefix when ok
	class string // why it is (in)valid, for the coverage counters
}

func refUnpad(data []byte, b int) unpadRef {
	if b <= 0 {
		return unpadRef{class: "blocksize-nonpositive"}
	}
	if len(data) == 0 {
		return unpadRef{class: "empty"}
	}
	if len(data)%b != 0 {
		return unpadRef{class: "not-multiple"}
	}
	p := int(data[len(data)-1])
	if p == 0 {
		return unpadRef{class: "pad-zero"}
	}
	if p > b {
		return unpadRef{class: "pad-gt-block"}
	}
	for i := len(data) - p; i < len(data); i++ {
		if int(data[i]) != p {
			return unpadRef{class: "pad-bytes"}
		}
	}
	if p == b {
		return unpadRef{ok: true, n: len(data) - p, class: "valid-full-block"}
	}
	return unpadRef{ok: true, n: len(data) - p, class: "valid"}
}

// cbcEncRaw: C_i = E(P_i xor C_{i-1}), C_0 = IV. len(p) must be a multiple of 16.
func cbcEncRaw(b cipher.Block, iv, p []byte) []byte {
	out := make([]byte, len(p))
	prev := append([]byte(nil), iv...)
	var x [blk]byte
	for o := 0; o+blk <= len(p); o += blk {
		for i := 0; i < blk; i++ {
			x[i] = p[o+i] ^ prev[i]
		}
		b.Encrypt(out[o:o+blk], x[:])
		prev = out[o : o+blk]
	}
	return out
}

// cbcDecRaw: P_i = D(C_i) xor C_{i-1}.
func cbcDecRaw(b cipher.Block, iv, ct []byte) []byte {
	out := make([]byte, len(ct))
	prev := append([]byte(nil), iv...)
	var x [blk]byte
	for o := 0; o+blk <= len(ct); o += blk {
		b.Decrypt(x[:], ct[o:o+blk])
		for i := 0; i < blk; i++ {
			out[o+i] = x[i] ^ prev[i]
		}
		prev = ct[o : o+blk]
	}
	return out
}

// ---- canary buffers ----

const canLen = 32

func canByte(i int) byte { return byte(0xC3 ^ (i * 29)) }

// cbuf is a region of n bytes inside a larger allocation with known canary
// bytes on both sides; the region itself starts filled with junk.
type cbuf struct {
	all    []byte
	off, n int
}

func newCbuf(rng *ev.Rand, n int) *cbuf {
	if n < 0 {
		n = 0
	}
	pre := 16 + rng.Intn(17)
	b := &cbuf{all: make([]byte, pre+n+canLen), off: pre, n: n}
	for i := 0; i < pre; i++ {
		b.all[i] = canByte(i)
	}
	copy(b.all[pre:pre+n], rng.Bytes(n))
	for i := pre + n; i < len(b.all); i++ {
		b.all[i] = canByte(i)
	}
	return b
}

// region returns the n-byte window; with capLimited its capacity ends at the
// window, otherwise it extends over the trailing canary (so that an append or
// re-slice past the window damages the canary instead of re-allocating).
func (b *cbuf) region(capLimited bool) []byte {
	if capLimited {
		return b.all[b.off : b.off+b.n : b.off+b.n]
	}
	return b.all[b.off : b.off+b.n]
}

// damaged returns "" if both canaries are intact.
func (b *cbuf) damaged() string {
	for i := 0; i < b.off; i++ {
		if b.all[i] != canByte(i) {
			return fmt.Sprintf("byte %d before the destination was overwritten", b.off-i)
		}
	}
	for i := b.off + b.n; i < len(b.all); i++ {
		if b.all[i] != canByte(i) {
			return fmt.Sprintf("byte %d past the end of the destination was overwritten", i-(b.off+b.n))
		}
	}
	return ""
}

func firstDiff(a, b []byte) int {
	n := len(a)
	if len(b) < n {
		n = len(b)
	}
	for i := 0; i < n; i++ {
		if a[i] != b[i] {
			return i
		}
	}
	if len(a) != len(b) {
		return n
	}
	return -1
}

func clone(b []byte) []byte {
	if b == nil {
		return nil
	}
	return append([]byte{}, b...)
}

var keySizes = []int{16, 24, 32}

// keyClasses: what the bytes of a key look like. A key is an arbitrary byte
// string of a legal size; keys that happen to read as text, as hex digits or as
// base64 (passwords, hex-encoded secrets used verbatim) are legal keys too and
// must be used as they are.
var keyClasses = []string{"random", "random", "random", "hex-lower", "hex-upper", "hex-mixed", "digits", "base64", "printable", "zero", "ones", "repeat"}

func genKeyClass(rng *ev.Rand, klen int, class string) []byte {
	var alpha string
	switch class {
	case "hex-lower":
		alpha = "0123456789abcdef"
	case "hex-upper":
		alpha = "0123456789ABCDEF"
	case "hex-mixed":
		alpha = "0123456789abcdefABCDEF"
	case "digits":
		alpha = "0123456789"
	case "base64":
		alpha = "ABCDEFGHIJKLMNOPQRSTUVWXYZabcdefghijklmnopqrstuvwxyz0123456789+/"
	case "printable":
		alpha = " !#$%&()*+,-./0123456789:;<=>?@ABCXYZ[]^_abcxyz{|}~"
	case "zero":
		return make([]byte, klen)
	case "ones":
		return bytes.Repeat([]byte{0xff}, klen)
	case "repeat":
		return bytes.Repeat([]byte{byte(rng.Intn(256))}, klen)
	default:
		return rng.Bytes(klen)
	}
	k := make([]byte, klen)
	for i := range k {
		k[i] = alpha[rng.Intn(len(alpha))]
	}
	return k
}

// genKey draws a key of klen bytes of a random content class and counts the class.
func genKey(c *ev.Case, rng *ev.Rand, klen int) []byte {
	class := keyClasses[rng.Intn(len(keyClasses))]
	c.Add("key_class/"+class, 1)
	return genKeyClass(rng, klen, class)
}

// genText produces plaintext-like content of length n; the structured kinds
// imitate padding so that a sloppy un-padding check is confused by the data.
func genText(rng *ev.Rand, n int) ([]byte, string) {
	d := rng.Bytes(n)
	kind := "random"
	switch rng.Intn(7) {
	case 0:
		for i := range d {
			d[i] = 16
		}
		kind = "all-0x10"
	case 1:
		for i := range d {
			d[i] = 0
		}
		kind = "all-zero"
	case 2:
		if n > 0 {
			k := 1 + rng.Intn(min(n, 17))
			for i := n - k; i < n; i++ {
				d[i] = byte(k)
			}
			kind = "tail-like-padding"
		}
	case 3:
		if n > 0 {
			d[n-1] = byte(rng.Pick(0, 1, 15, 16, 17, 255))
			kind = "last-byte-boundary"
		}
	}
	return d, kind
}

func hx(b []byte) string {
	if b == nil {
		return "nil"
	}
	if len(b) > 96 {
		return fmt.Sprintf("%x…(%d bytes)", b[:96], len(b))
	}
	return fmt.Sprintf("%x", b)
}

// wantSample spreads the three literal samples per engine over the index
// range (and keeps the evidence mutex out of the common path).
func wantSample(c *ev.Case, stride int) bool {
	return c.Index%stride == stride-1 && c.WantSample()
}
