package main

import (
	"bytes"
	"crypto/aes"
	"fmt"

	"github.com/welllog/golib/cryptz"

	"verif/ev"
)

// arenaCase: dst and src are DISJOINT regions of one backing array (either
// order, with a gap), which is just "separate memory" as far as the documented
// contract goes. reuseCase: the caller keeps ONE key / iv / nonce / aad buffer
// and overwrites it between calls; every call must use the bytes the buffer holds
// at the time of the call. Both engines compare with crypto/cipher.

func arenaCase(c *ev.Case) {
	rng := c.Rng
	klen := keySizes[c.Index%3]
	n := pickLen(c, c.Index/3)
	key, iv := genKey(c, rng, klen), rng.Bytes(blk)
	pt, _ := genText(rng, n)
	b, err := aes.NewCipher(key)
	if err != nil {
		c.Run().HarnessFailure("reference NewCipher: " + err.Error())
		return
	}
	want := cbcEncRaw(b, iv, refPad(pt, blk))
	L := len(want)
	gap := rng.Pick(0, 1, 4, 8, 16, 33)
	arena := make([]byte, L+gap+n+16)
	for i := range arena {
		arena[i] = canByte(i)
	}
	var dst, src []byte
	order := "dst|gap|src"
	if rng.Bool() {
		dst = arena[:L:L]
		src = arena[L+gap : L+gap+n]
		if rng.Bool() { // capacities reaching to the end of the arena, as sub-slicing usually leaves them
			dst = arena[:L]
		}
	} else {
		order = "src|gap|dst"
		src = arena[:n:n]
		dst = arena[n+gap : n+gap+L]
		if rng.Bool() {
			src = arena[:n]
		}
	}
	copy(src, pt)
	// stale content in dst that is NOT the plaintext
	for i := range dst {
		dst[i] ^= 0x5A
	}
	var e error
	if !c.Guard("AESCBCEncrypt", func() { e = cryptz.AESCBCEncrypt(dst, src, clone(key), clone(iv)) }) {
		return
	}
	c.Logf("AESCBCEncrypt[arena %s gap=%d] key=%s iv=%s pt(%d)=%s -> err=%v dst=%s", order, gap, hx(key), hx(iv), n, hx(pt), e, hx(dst))
	if e != nil {
		c.Failf("cbc-encrypt-err", "AESCBCEncrypt[dst and plaintext in disjoint regions of one array, %s] returned %v", order, e)
		return
	}
	if i := firstDiff(dst, want); i >= 0 {
		c.Failf("cbc-encrypt-diff/arena", "AESCBCEncrypt with dst and plaintext in disjoint regions of one backing array (%s, gap %d) differs from AES-CBC over PKCS#7(plaintext) at byte %d: plaintext %d bytes key=%s iv=%s pt=%s got=%s want=%s", order, gap, i, n, hx(key), hx(iv), hx(pt), hx(dst), hx(want))
		return
	}
	// decrypt within one array as well
	arena2 := make([]byte, 2*L+gap)
	ct := arena2[:L]
	copy(ct, want)
	out := arena2[L+gap:]
	var m int
	if !c.Guard("AESCBCDecrypt", func() { m, e = cryptz.AESCBCDecrypt(out[:L], ct, clone(key), clone(iv)) }) {
		return
	}
	c.Logf("AESCBCDecrypt[arena] -> n=%d err=%v", m, e)
	if e != nil || m != n || !bytes.Equal(out[:min(m, L)], pt) {
		c.Failf("cbc-decrypt-diff/arena", "AESCBCDecrypt with dst and ciphertext in disjoint regions of one array: n=%d err=%v, want the %d-byte plaintext", m, e, n)
		return
	}
	// GCM in the same arrangement
	nonce, aad := rng.Bytes(12), rng.Bytes(rng.Intn(9))
	g, err := refGCM(key, 12)
	if err != nil {
		c.Run().HarnessFailure("reference GCM: " + err.Error())
		return
	}
	sealed := g.Seal(nil, nonce, pt, aad)
	arena3 := make([]byte, len(sealed)+gap+n)
	var gd, gs []byte
	if rng.Bool() {
		gd, gs = arena3[:len(sealed)], arena3[len(sealed)+gap:]
	} else {
		gs, gd = arena3[:n], arena3[n+gap:]
	}
	copy(gs, pt)
	if !c.Guard("AESGCMEncrypt", func() { e = cryptz.AESGCMEncrypt(gd, gs[:n], clone(key), clone(nonce), clone(aad)) }) {
		return
	}
	c.Logf("AESGCMEncrypt[arena] -> err=%v dst=%s", e, hx(gd))
	if e != nil || !bytes.Equal(gd[:len(sealed)], sealed) {
		c.Failf("gcm-encrypt-diff/arena", "AESGCMEncrypt with dst and plaintext in disjoint regions of one array: err=%v, differs from Seal (pt %d bytes)", e, n)
		return
	}
	c.Add("arena_cases", 1)
	c.Distinct(ev.Mix(7, uint64(klen), uint64(n), uint64(gap), ev.HashBytes(key), ev.HashBytes(pt)))
	if wantSample(c, 997) {
		c.Sample(fmt.Sprintf("arena: AES-%d, %d-byte plaintext, dst and src disjoint regions of one array (%s, gap %d): CBC encrypt/decrypt and GCM encrypt == reference", klen*8, n, order, gap))
	}
}

func reuseCase(c *ev.Case) {
	rng := c.Rng
	klen := keySizes[c.Index%3]
	// the caller's long-lived buffers
	keyBuf := make([]byte, klen)
	ivBuf := make([]byte, blk)
	nonceBuf := make([]byte, 12)
	aadBuf := make([]byte, 8)
	steps := rng.Range(3, 6)
	var prevSealed []byte
	var prevKey, prevNonce, prevAAD []byte
	for s := 0; s < steps; s++ {
		// overwrite in place; sometimes only one byte changes, sometimes nothing
		switch rng.Intn(5) {
		case 0:
			keyBuf[rng.Intn(klen)] ^= byte(1 << rng.Intn(8))
		case 1: // unchanged key
		default:
			copy(keyBuf, rng.Bytes(klen))
		}
		copy(ivBuf, rng.Bytes(blk))
		if rng.Chance(2, 3) {
			copy(nonceBuf, rng.Bytes(12))
		}
		aadLen := rng.Intn(9)
		copy(aadBuf, rng.Bytes(8))
		n := rng.Pick(0, 1, 15, 16, 17, 31, 32, 40)
		pt, _ := genText(rng, n)
		key, iv, nonce, aad := clone(keyBuf), clone(ivBuf), clone(nonceBuf), clone(aadBuf[:aadLen])
		b, err := aes.NewCipher(key)
		if err != nil {
			c.Run().HarnessFailure("reference NewCipher: " + err.Error())
			return
		}
		want := cbcEncRaw(b, iv, refPad(pt, blk))
		dst := make([]byte, len(want))
		var e error
		if !c.Guard("AESCBCEncrypt", func() { e = cryptz.AESCBCEncrypt(dst, clone(pt), keyBuf, ivBuf) }) {
			return
		}
		c.Logf("step %d: AESCBCEncrypt(key buffer now %s, iv %s, pt %s) -> err=%v %s", s, hx(key), hx(iv), hx(pt), e, hx(dst))
		if e != nil || !bytes.Equal(dst, want) {
			c.Failf("cbc-encrypt-diff/buffer-reuse", "step %d: AESCBCEncrypt called with a key/iv buffer that the caller overwrote since the previous call does not equal AES-CBC under the buffer's current content (err=%v key=%s)", s, e, hx(key))
			return
		}
		out := make([]byte, len(want))
		var m int
		if !c.Guard("AESCBCDecrypt", func() { m, e = cryptz.AESCBCDecrypt(out, clone(want), keyBuf, ivBuf) }) {
			return
		}
		if e != nil || m != n || !bytes.Equal(out[:min(m, len(out))], pt) {
			c.Failf("cbc-decrypt-diff/buffer-reuse", "step %d: AESCBCDecrypt with a reused key/iv buffer: n=%d err=%v, want %d-byte plaintext", s, m, e, n)
			return
		}
		g, err := refGCM(key, 12)
		if err != nil {
			c.Run().HarnessFailure("reference GCM: " + err.Error())
			return
		}
		sealed := g.Seal(nil, nonce, pt, aad)
		gd := make([]byte, len(sealed))
		if !c.Guard("AESGCMEncrypt", func() { e = cryptz.AESGCMEncrypt(gd, clone(pt), keyBuf, nonceBuf, aadBuf[:aadLen]) }) {
			return
		}
		c.Logf("step %d: AESGCMEncrypt(key buffer now %s nonce %s aad %s) -> err=%v %s", s, hx(key), hx(nonce), hx(aad), e, hx(gd))
		if e != nil || !bytes.Equal(gd, sealed) {
			c.Failf("gcm-encrypt-diff/buffer-reuse", "step %d: AESGCMEncrypt called with a key buffer the caller overwrote since the previous call does not equal Seal under the buffer's current content (err=%v key=%s)", s, e, hx(key))
			return
		}
		po := make([]byte, n)
		if !c.Guard("AESGCMDecrypt", func() { e = cryptz.AESGCMDecrypt(po, clone(sealed), keyBuf, nonceBuf, aadBuf[:aadLen]) }) {
			return
		}
		if e != nil || !bytes.Equal(po, pt) {
			c.Failf("gcm-decrypt-diff/buffer-reuse", "step %d: AESGCMDecrypt of a genuine message under the key buffer's current content failed: err=%v", s, e)
			return
		}
		// the previous step's message must be rejected now if anything it depends on changed
		if prevSealed != nil && (!bytes.Equal(prevKey, key) || !bytes.Equal(prevNonce, nonce) || !bytes.Equal(prevAAD, aad)) {
			po2 := make([]byte, len(prevSealed)-16)
			if !c.Guard("AESGCMDecrypt", func() { e = cryptz.AESGCMDecrypt(po2, clone(prevSealed), keyBuf, nonceBuf, aadBuf[:aadLen]) }) {
				return
			}
			if e == nil {
				c.Failf("gcm-accepts-stale/buffer-reuse", "step %d: AESGCMDecrypt accepted a message sealed under the PREVIOUS content of the key/nonce/aad buffers", s)
				return
			}
			c.Add("reuse_stale_messages_rejected", 1)
		}
		prevSealed, prevKey, prevNonce, prevAAD = sealed, key, nonce, aad
		c.Add("reuse_steps", 1)
	}
	c.Add("reuse_cases", 1)
	c.Distinct(ev.Mix(8, uint64(klen), uint64(steps), ev.HashBytes(keyBuf), ev.HashBytes(prevSealed)))
	if wantSample(c, 991) {
		c.Sample(fmt.Sprintf("buffer reuse: AES-%d, %d consecutive CBC+GCM encrypt/decrypt calls through one key/iv/nonce/aad buffer overwritten in between, each compared with crypto/cipher under the buffer's current content", klen*8, steps))
	}
}

// coldCase: each case runs alone in a freshly started process, so its first
// golib call is the very first use of the package in that process (tables that
// are filled lazily, or only by another entry point, would still be empty).
func coldCase(c *ev.Case) {
	rng := c.Rng
	klen := keySizes[c.Index%3]
	key, iv, nonce := genKey(c, rng, klen), rng.Bytes(blk), rng.Bytes(12)
	n := []int{0, 5, 16, 31}[(c.Index/4)%4]
	pt := rng.Bytes(n)
	b, err := aes.NewCipher(key)
	if err != nil {
		c.Run().HarnessFailure("reference NewCipher: " + err.Error())
		return
	}
	first := []string{"AESCBCDecrypt", "PKCS7UnPadding", "AESGCMDecrypt", "AESCBCEncrypt"}[c.Index%4]
	c.Logf("first cryptz call in this process: %s (plaintext %d bytes, AES-%d)", first, n, klen*8)
	switch first {
	case "AESCBCDecrypt":
		ct := cbcEncRaw(b, iv, refPad(pt, blk))
		out := make([]byte, len(ct))
		var m int
		var e error
		if !c.Guard("AESCBCDecrypt", func() { m, e = cryptz.AESCBCDecrypt(out, ct, key, iv) }) {
			return
		}
		if e != nil || m != n || !bytes.Equal(out[:min(m, len(out))], pt) {
			c.Failf("cold-start/AESCBCDecrypt", "AESCBCDecrypt as the first call of the process on a valid standard ciphertext: n=%d err=%v, want the %d-byte plaintext", m, e, n)
			return
		}
	case "PKCS7UnPadding":
		bs := rng.Range(1, 32)
		d := rng.Bytes(rng.Range(1, 40))
		padded := refPad(d, bs)
		var got []byte
		var e error
		if !c.Guard("PKCS7UnPadding", func() { got, e = cryptz.PKCS7UnPadding(clone(padded), bs) }) {
			return
		}
		if e != nil || !bytes.Equal(got, d) {
			c.Failf("cold-start/PKCS7UnPadding", "PKCS7UnPadding as the first call of the process: err=%v got %s want %s (block size %d)", e, hx(got), hx(d), bs)
			return
		}
	case "AESGCMDecrypt":
		g, err := refGCM(key, 12)
		if err != nil {
			c.Run().HarnessFailure("reference GCM: " + err.Error())
			return
		}
		sealed := g.Seal(nil, nonce, pt, nil)
		out := make([]byte, n)
		var e error
		if !c.Guard("AESGCMDecrypt", func() { e = cryptz.AESGCMDecrypt(out, sealed, key, nonce, nil) }) {
			return
		}
		if e != nil || !bytes.Equal(out, pt) {
			c.Failf("cold-start/AESGCMDecrypt", "AESGCMDecrypt as the first call of the process: err=%v", e)
			return
		}
	default:
		want := cbcEncRaw(b, iv, refPad(pt, blk))
		dst := make([]byte, len(want))
		var e error
		if !c.Guard("AESCBCEncrypt", func() { e = cryptz.AESCBCEncrypt(dst, pt, key, iv) }) {
			return
		}
		if e != nil || !bytes.Equal(dst, want) {
			c.Failf("cold-start/AESCBCEncrypt", "AESCBCEncrypt as the first call of the process differs from the reference: err=%v", e)
			return
		}
	}
	c.Add("cold_start_cases", 1)
	c.Distinct(ev.Mix(uint64(c.Index), 55))
	if c.WantSample() {
		c.Sample(fmt.Sprintf("cold start: fresh process, first cryptz call %s", first))
	}
}

// bigSizes: from a few KiB (where an implementation may start to work in
// chunks, in parallel or through pooled buffers) to megabytes; visited by index.
var bigSizes = []int{4 << 10, 8 << 10, 16 << 10, 20000, 32 << 10, 40000, 64 << 10, 100001, 128 << 10, 256 << 10, 512 << 10, 768 << 10, 1 << 20, 2 << 20, 3 << 20}

// bigOffsets: every size is met just below (the padded length is then exactly
// the size: a chunked implementation's last chunk ends where the padding does),
// at and just above it.
var bigOffsets = []int{0, 1, 15, 16, 17, -1, -15, -16, -17}

// bigCase: large inputs (implementations may switch strategy with size). CBC
// encrypt/decrypt in both layouts, AESCBCDecrypt on a large ciphertext whose
// padding was damaged or whose length is illegal, GCM Seal/Open equality with
// tampering, and the standalone PKCS#7 pair on a large d.
func bigCase(c *ev.Case) {
	rng := c.Rng
	off := bigOffsets[(c.Index/len(bigSizes))%len(bigOffsets)]
	n := bigSizes[c.Index%len(bigSizes)] + off
	klen := keySizes[(c.Index/len(bigSizes)+c.Index)%3]
	c.Add(fmt.Sprintf("big_offset/%+d", off), 1)
	key, iv := genKey(c, rng, klen), rng.Bytes(blk)
	pt := rng.Bytes(n)
	b, err := aes.NewCipher(key)
	if err != nil {
		c.Run().HarnessFailure("reference NewCipher: " + err.Error())
		return
	}
	want := cbcEncRaw(b, iv, refPad(pt, blk))
	c.Logf("AES-%d CBC on %d bytes", klen*8, n)
	for _, inplace := range []bool{false, true} {
		dst := make([]byte, len(want))
		src := pt
		if inplace {
			copy(dst, pt)
			src = dst[:n]
		}
		var e error
		if !c.Guard("AESCBCEncrypt", func() { e = cryptz.AESCBCEncrypt(dst, src, key, iv) }) {
			return
		}
		if e != nil || !bytes.Equal(dst, want) {
			c.Failf("cbc-encrypt-diff/big", "AESCBCEncrypt (in place: %v) of %d bytes differs from the reference at byte %d (err=%v)", inplace, n, firstDiff(dst, want), e)
			return
		}
		ct := clone(want)
		out := make([]byte, len(ct))
		if inplace {
			out = ct
		}
		var m int
		if !c.Guard("AESCBCDecrypt", func() { m, e = cryptz.AESCBCDecrypt(out, ct, key, iv) }) {
			return
		}
		if e != nil || m != n || !bytes.Equal(out[:min(m, len(out))], pt) {
			c.Failf("cbc-decrypt-diff/big", "AESCBCDecrypt (in place: %v) of a %d-byte message: n=%d err=%v, first difference at byte %d", inplace, n, m, e, firstDiff(out[:min(m, len(out))], pt))
			return
		}
	}

	// a large ciphertext that is not (necessarily) a correctly padded message:
	// one bit of the last byte of the next-to-last cipher block is flipped, which
	// flips the same bit of the final pad byte; the reference decides the outcome
	{
		bad := clone(want)
		bit := byte(1) << uint(rng.Intn(5))
		bad[len(bad)-blk-1] ^= bit
		plain := cbcDecRaw(b, iv, bad)
		ref := refUnpad(plain, blk)
		var w []byte
		if ref.ok {
			w = plain[:ref.n]
		}
		why := fmt.Sprintf("%d-byte ciphertext of a %d-byte plaintext with bit mask %#02x applied to byte %d; reference-decrypted last block %s; reference un-padding: %s", len(bad), n, bit, len(bad)-blk-1, hx(plain[len(plain)-blk:]), ref.class)
		if !cbcDecryptCheck(c, rng.Bool(), bad, key, iv, ref.ok, w, why) {
			return
		}
		if ref.ok {
			c.Add("big_cbc_damaged_still_valid_recovered", 1)
		} else {
			c.Add("big_cbc_damaged_padding_rejected", 1)
		}
		// illegal length: one byte missing / one byte too many
		short := clone(want[:len(want)-1])
		if rng.Bool() {
			short = append(clone(want), 0)
		}
		if !cbcDecryptCheck(c, rng.Bool(), short, key, iv, false, nil, fmt.Sprintf("%d-byte ciphertext, not a multiple of 16", len(short))) {
			return
		}
		c.Add("big_cbc_illegal_length_rejected", 1)
	}

	// GCM on the same plaintext
	{
		nonceLen := 12
		if c.Index%4 == 3 {
			nonceLen = rng.Pick(8, 13, 16)
		}
		aadLen := rng.Pick(1, 7, 16, 33)
		if c.Index%5 == 4 {
			aadLen = 0
		}
		m := &gcmMsg{key: key, nonce: rng.Bytes(nonceLen), aad: rng.Bytes(aadLen), pt: pt}
		g, err := refGCM(key, nonceLen)
		if err != nil {
			c.Run().HarnessFailure("reference GCM: " + err.Error())
			return
		}
		m.sealed = g.Seal(nil, m.nonce, pt, m.aad)
		var l int
		if !c.Guard("AESGCMEncryptLen", func() { l = cryptz.AESGCMEncryptLen(pt) }) {
			return
		}
		if l != len(m.sealed) {
			c.Failf("gcm-enclen", "AESGCMEncryptLen(%d-byte plaintext) = %d, Seal produces %d bytes", n, l, len(m.sealed))
			return
		}
		inplace := c.Index%2 == 0
		if !gcmEncryptCheck(c, inplace, m) || !gcmDecryptCheck(c, !inplace, m) {
			return
		}
		c.Add("big_gcm_roundtrips", 1)
		for t := 0; t < 4; t++ {
			ct, nonce, aad := m.sealed, m.nonce, m.aad
			var what string
			switch {
			case t == 0:
				ct = clone(m.sealed)
				i := rng.Intn(n)
				if rng.Chance(1, 3) {
					i = n - 1 - rng.Intn(blk)
				}
				ct[i] ^= 1 << uint(rng.Intn(8))
				what = fmt.Sprintf("flipping one bit of ciphertext byte %d of %d", i, n)
			case t == 1:
				ct = clone(m.sealed)
				i := rng.Intn(tagLen)
				ct[n+i] ^= 1 << uint(rng.Intn(8))
				what = fmt.Sprintf("flipping one bit of tag byte %d", i)
			case t == 2:
				nonce = clone(m.nonce)
				i := rng.Intn(len(nonce))
				nonce[i] ^= 1 << uint(rng.Intn(8))
				what = fmt.Sprintf("flipping one bit of nonce byte %d", i)
			case len(aad) > 0:
				aad = clone(m.aad)
				i := rng.Intn(len(aad))
				aad[i] ^= 1 << uint(rng.Intn(8))
				what = fmt.Sprintf("flipping one bit of additional-data byte %d", i)
			default:
				aad = []byte{0}
				what = "adding one byte of additional data"
			}
			if !mustReject(c, rng.Bool(), m, ct, nonce, aad, what+fmt.Sprintf(" (%d-byte message)", n)) {
				return
			}
			c.Add("big_gcm_tampers_rejected", 1)
		}
	}

	// standalone PKCS#7 on a large d: round trip, then one damaged pad byte
	{
		bs := 1 + rng.Intn(255)
		if rng.Chance(1, 3) {
			bs = rng.Pick(8, 16, 255, 17)
		}
		d := pt[:n-rng.Intn(min(n, 300))]
		padded0 := refPad(d, bs)
		in := make([]byte, len(d), len(d)+rng.Pick(0, 0, 400))
		copy(in, d)
		var padded, back []byte
		var e error
		if !c.Guard("PKCS7Padding", func() { padded, e = cryptz.PKCS7Padding(in, bs) }) {
			return
		}
		if e != nil || !bytes.Equal(padded, padded0) {
			c.Failf("pad-output/big", "PKCS7Padding(%d-byte d, %d): err=%v, result (%d bytes) is not d plus %d bytes of value %d (first difference at byte %d)", len(d), bs, e, len(padded), len(padded0)-len(d), len(padded0)-len(d), firstDiff(padded, padded0))
			return
		}
		if !c.Guard("PKCS7UnPadding", func() { back, e = cryptz.PKCS7UnPadding(clone(padded0), bs) }) {
			return
		}
		if e != nil || !bytes.Equal(back, d) {
			c.Failf("pad-roundtrip-diff/big", "PKCS7UnPadding(PKCS7Padding(d, %d), %d) for a %d-byte d: err=%v, %d bytes returned, first difference at byte %d", bs, bs, len(d), e, len(back), firstDiff(back, d))
			return
		}
		c.Add("big_pkcs7_roundtrips", 1)
		p := len(padded0) - len(d)
		if p >= 2 {
			bad := clone(padded0)
			pos := len(d) + rng.Intn(p-1)
			bad[pos] ^= 1 << uint(rng.Intn(8))
			if !c.Guard("PKCS7UnPadding", func() { back, e = cryptz.PKCS7UnPadding(bad, bs) }) {
				return
			}
			c.Logf("PKCS7UnPadding(%d bytes with pad %d, pad byte %d damaged, b=%d) -> %d bytes, err=%v", len(bad), p, pos-len(d), bs, len(back), e)
			if e == nil {
				c.Failf("unpad-accepts-bad/big", "PKCS7UnPadding(data, %d) returned %d bytes and nil error for %d bytes of data whose %d-byte padding has a damaged byte at pad offset %d (tail %s)", bs, len(back), len(bad), p, pos-len(d), hx(bad[len(bad)-p:]))
				return
			}
			c.Add("big_pkcs7_damaged_padding_rejected", 1)
		}
	}
	c.Add("big_cases", 1)
	c.Distinct(ev.Mix(uint64(n), uint64(klen), ev.HashBytes(key)))
	if c.WantSample() {
		c.Sample(fmt.Sprintf("big: AES-%d, %d bytes: CBC encrypt/decrypt separate and in place == reference, damaged-padding and illegal-length ciphertexts judged like the reference, GCM == Seal/Open with 4 tampers rejected, PKCS#7 round trip + damaged pad rejected", klen*8, n))
	}
}
