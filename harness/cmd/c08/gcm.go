package main

import (
	"bytes"
	"crypto/aes"
	"crypto/cipher"
	"fmt"

	"github.com/welllog/golib/cryptz"

	"verif/ev"
)

const tagLen = 16

func refGCM(key []byte, nonceLen int) (cipher.AEAD, error) {
	b, err := aes.NewCipher(key)
	if err != nil {
		return nil, err
	}
	if nonceLen == 12 {
		return cipher.NewGCM(b)
	}
	return cipher.NewGCMWithNonceSize(b, nonceLen)
}

type gcmMsg struct {
	key, nonce, aad, pt, sealed []byte
}

func (m *gcmMsg) String() string {
	return fmt.Sprintf("key=%s nonce=%s aad=%s pt(%d)=%s", hx(m.key), hx(m.nonce), hx(m.aad), len(m.pt), hx(m.pt))
}

// gcmEncryptCheck: AESGCMEncrypt in one layout == Seal.
func gcmEncryptCheck(c *ev.Case, inplace bool, m *gcmMsg) bool {
	rng := c.Rng
	L := len(m.sealed)
	cb := newCbuf(rng, L)
	capLim := rng.Bool()
	dst := cb.region(capLim)
	var src []byte
	layout := "separate"
	if inplace {
		layout = "in-place(dst = buf[:n+16], plaintext = buf[:n])"
		copy(dst, m.pt)
		src = dst[:len(m.pt)]
		c.Add("gcm_encrypt_inplace", 1)
	} else {
		src = clone(m.pt)
		c.Add("gcm_encrypt_separate", 1)
	}
	k, nn, ad := clone(m.key), clone(m.nonce), clone(m.aad)
	var err error
	if !c.Guard("AESGCMEncrypt", func() { err = cryptz.AESGCMEncrypt(dst, src, k, nn, ad) }) {
		c.Logf("AESGCMEncrypt[%s] %s -> PANIC", layout, m)
		return false
	}
	c.Logf("AESGCMEncrypt[%s, capLimited=%v] %s -> err=%v dst=%s", layout, capLim, m, err, hx(dst))
	if err != nil {
		c.Failf("gcm-encrypt-err", "AESGCMEncrypt[%s] returned error %v: %s", layout, err, m)
		return false
	}
	if d := cb.damaged(); d != "" {
		c.Failf("gcm-encrypt-overrun", "AESGCMEncrypt[%s] wrote outside dst[:AESGCMEncryptLen]: %s (%s)", layout, d, m)
		return false
	}
	if i := firstDiff(dst, m.sealed); i >= 0 {
		part := "ciphertext"
		if i >= len(m.pt) {
			part = "tag"
		}
		c.Failf("gcm-encrypt-diff", "AESGCMEncrypt[%s] differs from AES-GCM Seal at byte %d (%s): %s got=%s want=%s", layout, i, part, m, hx(dst), hx(m.sealed))
		return false
	}
	return true
}

// gcmDecrypt runs AESGCMDecrypt; dstLen is the plaintext length to provide.
// It returns the destination content, the error and whether the call returned.
func gcmDecrypt(c *ev.Case, inplace bool, ct, key, nonce, aad []byte, dstLen int) (dst []byte, cb *cbuf, err error, ok bool) {
	rng := c.Rng
	if dstLen < 0 {
		dstLen = 0
	}
	var src []byte
	if inplace && dstLen <= len(ct) {
		cb = newCbuf(rng, len(ct))
		whole := cb.region(rng.Bool())
		copy(whole, ct)
		src = whole
		dst = whole[:dstLen]
	} else {
		cb = newCbuf(rng, dstLen)
		dst = cb.region(rng.Bool())
		src = clone(ct)
	}
	k, nn, ad := clone(key), clone(nonce), clone(aad)
	ok = c.Guard("AESGCMDecrypt", func() { err = cryptz.AESGCMDecrypt(dst, src, k, nn, ad) })
	return
}

func gcmDecryptCheck(c *ev.Case, inplace bool, m *gcmMsg) bool {
	layout := "separate"
	if inplace {
		layout = "in-place(dst = ct[:len-16])"
		c.Add("gcm_decrypt_inplace", 1)
	} else {
		c.Add("gcm_decrypt_separate", 1)
	}
	var d1, d2 int
	if !c.Guard("AESGCMDecryptLen", func() {
		d1 = cryptz.AESGCMDecryptLen(m.sealed)
		d2 = cryptz.AESGCMDecryptLen(string(m.sealed))
	}) {
		return false
	}
	if d1 != len(m.pt) || d2 != len(m.pt) {
		c.Failf("gcm-declen", "AESGCMDecryptLen(%d-byte sealed message) = %d ([]byte) / %d (string), Open yields %d bytes", len(m.sealed), d1, d2, len(m.pt))
		return false
	}
	dst, cb, err, ok := gcmDecrypt(c, inplace, m.sealed, m.key, m.nonce, m.aad, d1)
	if !ok {
		c.Logf("AESGCMDecrypt[%s] %s ct=%s -> PANIC", layout, m, hx(m.sealed))
		return false
	}
	c.Logf("AESGCMDecrypt[%s] key=%s nonce=%s aad=%s ct=%s -> err=%v dst=%s", layout, hx(m.key), hx(m.nonce), hx(m.aad), hx(m.sealed), err, hx(dst))
	if err != nil {
		c.Failf("gcm-decrypt-err", "AESGCMDecrypt[%s] rejected an untouched Seal output: %v (%s)", layout, err, m)
		return false
	}
	if d := cb.damaged(); d != "" {
		c.Failf("gcm-decrypt-overrun", "AESGCMDecrypt[%s] wrote outside its buffers: %s (%s)", layout, d, m)
		return false
	}
	if !bytes.Equal(dst, m.pt) {
		c.Failf("gcm-decrypt-diff", "AESGCMDecrypt[%s] produced %s, Open produces %s (%s)", layout, hx(dst), hx(m.pt), m)
		return false
	}
	return true
}

// mustReject feeds a changed (ct, nonce, aad) to AESGCMDecrypt.
func mustReject(c *ev.Case, inplace bool, m *gcmMsg, ct, nonce, aad []byte, what string) bool {
	_, _, err, ok := gcmDecrypt(c, inplace, ct, m.key, nonce, aad, len(ct)-tagLen)
	if !ok {
		c.Logf("AESGCMDecrypt after %s -> PANIC", what)
		return false
	}
	c.Logf("AESGCMDecrypt after %s -> err=%v", what, err)
	if err == nil {
		c.Failf("gcm-tamper-accepted", "AESGCMDecrypt returned nil error after %s (original: %s sealed=%s; offered ct=%s nonce=%s aad=%s)", what, m, hx(m.sealed), hx(ct), hx(nonce), hx(aad))
		return false
	}
	return true
}

func newGCMMsg(c *ev.Case, klen, n, nonceLen, aadLen int, nilAAD bool) (*gcmMsg, string) {
	rng := c.Rng
	m := &gcmMsg{key: genKey(c, rng, klen), nonce: rng.Bytes(nonceLen)}
	var kind string
	m.pt, kind = genText(rng, n)
	if aadLen == 0 && nilAAD {
		m.aad = nil
	} else {
		m.aad = rng.Bytes(aadLen)
	}
	g, err := refGCM(m.key, nonceLen)
	if err != nil {
		c.Run().HarnessFailure("reference GCM: " + err.Error())
		return nil, ""
	}
	m.sealed = g.Seal(nil, m.nonce, m.pt, m.aad)
	// sanity of the reference itself
	back, err := g.Open(nil, m.nonce, m.sealed, m.aad)
	if err != nil || !bytes.Equal(back, m.pt) {
		c.Run().HarnessFailure("reference GCM does not round-trip")
		return nil, ""
	}
	return m, kind
}

// gcmCase: Seal/Open differential in all layouts plus a few random tampers.
func gcmCase(c *ev.Case) {
	rng := c.Rng
	klen := keySizes[c.Index%3]
	n := pickLen(c, c.Index/3)
	aadLen := (c.Index / 243) % 9
	if rng.Chance(1, 10) {
		aadLen = rng.Pick(9, 15, 16, 17, 31, 32, 33, 100)
	}
	nonceLen := 12
	if rng.Chance(1, 8) {
		nonceLen = rng.Pick(1, 3, 8, 11, 13, 16, 24, 32)
		c.Add("gcm_nonce_nonstandard_len", 1)
	} else {
		c.Add("gcm_nonce_12", 1)
	}
	m, kind := newGCMMsg(c, klen, n, nonceLen, aadLen, rng.Bool())
	if m == nil {
		return
	}
	c.Add(fmt.Sprintf("gcm_key%d", klen*8), 1)
	if n == 0 {
		c.Add("gcm_plaintext_empty", 1)
	}
	if aadLen == 0 {
		c.Add("gcm_aad_empty", 1)
	} else {
		c.Add("gcm_aad_nonempty", 1)
	}
	var l1, l2 int
	if !c.Guard("AESGCMEncryptLen", func() {
		l1 = cryptz.AESGCMEncryptLen(m.pt)
		l2 = cryptz.AESGCMEncryptLen(string(m.pt))
	}) {
		return
	}
	c.Logf("AESGCMEncryptLen(len %d) -> %d / %d (string); Seal output has %d bytes", n, l1, l2, len(m.sealed))
	if l1 != len(m.sealed) || l2 != len(m.sealed) {
		c.Failf("gcm-enclen", "AESGCMEncryptLen(%d-byte plaintext) = %d ([]byte) / %d (string), Seal produces %d bytes", n, l1, l2, len(m.sealed))
		return
	}
	c.Add("gcm_len_helper_checks", 4)
	if !gcmEncryptCheck(c, false, m) || !gcmEncryptCheck(c, true, m) {
		return
	}
	if !gcmDecryptCheck(c, false, m) || !gcmDecryptCheck(c, true, m) {
		return
	}
	c.Add("gcm_roundtrips", 1)
	// a few random single-bit corruptions (the full sweep is the gcm-tamper engine)
	for t := 0; t < 4; t++ {
		ct, nonce, aad := clone(m.sealed), clone(m.nonce), clone(m.aad)
		var what string
		switch r := rng.Intn(4); {
		case r == 0 && n > 0:
			i := rng.Intn(n)
			bit := rng.Intn(8)
			ct[i] ^= 1 << uint(bit)
			what = fmt.Sprintf("flipping bit %d of ciphertext byte %d", bit, i)
		case r == 1 && len(aad) > 0:
			i := rng.Intn(len(aad))
			bit := rng.Intn(8)
			aad[i] ^= 1 << uint(bit)
			what = fmt.Sprintf("flipping bit %d of additional-data byte %d", bit, i)
		case r == 2:
			i := rng.Intn(len(nonce))
			bit := rng.Intn(8)
			nonce[i] ^= 1 << uint(bit)
			what = fmt.Sprintf("flipping bit %d of nonce byte %d", bit, i)
		default:
			i := rng.Intn(tagLen)
			bit := rng.Intn(8)
			ct[n+i] ^= 1 << uint(bit)
			what = fmt.Sprintf("flipping bit %d of tag byte %d", bit, i)
		}
		if !mustReject(c, rng.Bool(), m, ct, nonce, aad, what) {
			return
		}
		c.Add("gcm_spot_tampers_rejected", 1)
		if nonceLen != 12 {
			c.Add("gcm_spot_tampers_rejected_nonstandard_nonce", 1)
		}
	}
	c.Distinct(ev.Mix(4, uint64(klen), uint64(n), ev.HashBytes(m.key), ev.HashBytes(m.nonce), ev.HashBytes(m.aad), ev.HashBytes(m.pt)))
	if wantSample(c, 1511) {
		c.Sample(fmt.Sprintf("gcm: AES-%d, %d-byte nonce, %d-byte aad, %d-byte %s plaintext; encrypt separate+in-place == Seal, decrypt separate+in-place == Open, 4 random bit flips rejected", klen*8, nonceLen, aadLen, n, kind))
	}
}

// gcmTamperCase: every single-bit flip of ciphertext, tag, nonce and
// additional data, plus truncations / extensions, must make decryption fail.
func gcmTamperCase(c *ev.Case) {
	rng := c.Rng
	n := c.Index % 49
	aadLen := (c.Index / 49) % 9
	klen := keySizes[(c.Index/441)%3]
	m, _ := newGCMMsg(c, klen, n, 12, aadLen, rng.Bool())
	if m == nil {
		return
	}
	// control: the untouched message decrypts
	if !gcmDecryptCheck(c, rng.Bool(), m) {
		return
	}
	flips := 0
	ct := clone(m.sealed)
	for i := 0; i < len(ct); i++ {
		for bit := 0; bit < 8; bit++ {
			ct[i] ^= 1 << uint(bit)
			part, idx := "ciphertext", i
			if i >= n {
				part, idx = "tag", i-n
			}
			if !mustReject(c, (i+bit)%2 == 0, m, ct, m.nonce, m.aad, fmt.Sprintf("flipping bit %d of %s byte %d", bit, part, idx)) {
				return
			}
			ct[i] ^= 1 << uint(bit)
			flips++
		}
	}
	c.Add("gcm_flips_ciphertext", int64(8*n))
	c.Add("gcm_flips_tag", 8*tagLen)
	nonce := clone(m.nonce)
	for i := 0; i < len(nonce); i++ {
		for bit := 0; bit < 8; bit++ {
			nonce[i] ^= 1 << uint(bit)
			if !mustReject(c, (i+bit)%2 == 1, m, m.sealed, nonce, m.aad, fmt.Sprintf("flipping bit %d of nonce byte %d", bit, i)) {
				return
			}
			nonce[i] ^= 1 << uint(bit)
			flips++
		}
	}
	c.Add("gcm_flips_nonce", int64(8*len(nonce)))
	aad := clone(m.aad)
	for i := 0; i < len(aad); i++ {
		for bit := 0; bit < 8; bit++ {
			aad[i] ^= 1 << uint(bit)
			if !mustReject(c, (i+bit)%2 == 0, m, m.sealed, m.nonce, aad, fmt.Sprintf("flipping bit %d of additional-data byte %d", bit, i)) {
				return
			}
			aad[i] ^= 1 << uint(bit)
			flips++
		}
	}
	c.Add("gcm_flips_aad", int64(8*len(aad)))
	c.Add("gcm_flips_total", int64(flips))
	// changes of length / whole bytes
	type chg struct {
		what           string
		ct, nonce, aad []byte
	}
	var cs []chg
	s := m.sealed
	cs = append(cs, chg{"dropping the last tag byte", clone(s[:len(s)-1]), m.nonce, m.aad})
	cs = append(cs, chg{"appending a zero byte after the tag", append(clone(s), 0), m.nonce, m.aad})
	cs = append(cs, chg{"dropping the first byte of ciphertext||tag", clone(s[1:]), m.nonce, m.aad})
	cs = append(cs, chg{"prepending a zero byte to the ciphertext", append([]byte{0}, s...), m.nonce, m.aad})
	cs = append(cs, chg{"appending a zero byte to the additional data", s, m.nonce, append(clone(m.aad), 0)})
	if len(m.aad) > 0 {
		cs = append(cs, chg{"dropping the last additional-data byte", s, m.nonce, clone(m.aad[:len(m.aad)-1])})
		cs = append(cs, chg{"dropping all additional data", s, m.nonce, nil})
	}
	{
		t := clone(s)
		i := rng.Intn(len(t))
		t[i] = byte(int(t[i]) + 1 + rng.Intn(255))
		cs = append(cs, chg{fmt.Sprintf("replacing byte %d of ciphertext||tag", i), t, m.nonce, m.aad})
		z := clone(s)
		for j := n; j < len(z); j++ {
			z[j] = 0
		}
		if !bytes.Equal(z, s) {
			cs = append(cs, chg{"zeroing the tag", z, m.nonce, m.aad})
		}
		nn := clone(m.nonce)
		j := rng.Intn(len(nn))
		nn[j] = byte(int(nn[j]) + 1 + rng.Intn(255))
		cs = append(cs, chg{fmt.Sprintf("replacing nonce byte %d", j), s, nn, m.aad})
	}
	for k, x := range cs {
		if !mustReject(c, k%2 == 0, m, x.ct, x.nonce, x.aad, x.what) {
			return
		}
	}
	c.Add("gcm_length_and_byte_changes", int64(len(cs)))
	// the untouched message still decrypts (the sweep restored every bit)
	if !gcmDecryptCheck(c, rng.Bool(), m) {
		return
	}
	c.Add("gcm_tamper_messages", 1)
	c.Distinct(ev.Mix(5, ev.HashBytes(m.key), ev.HashBytes(m.nonce), ev.HashBytes(m.aad), ev.HashBytes(m.pt)))
	if wantSample(c, 431) {
		c.Sample(fmt.Sprintf("gcm-tamper: AES-%d, %d-byte plaintext, %d-byte aad: %d single-bit flips (ciphertext, tag, nonce, aad) and %d length/byte changes all rejected", klen*8, n, aadLen, flips, len(cs)))
	}
}
