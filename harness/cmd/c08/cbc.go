package main

import (
	"bytes"
	"crypto/aes"
	"fmt"

	"github.com/welllog/golib/cryptz"

	"verif/ev"
)

var bigLens = []int{95, 96, 97, 111, 112, 113, 127, 128, 129, 255, 256, 257, 1023, 1024, 1025, 4096}

// pickLen: every length 0..80 is visited by the index; a few cases go larger.
func pickLen(c *ev.Case, slot int) int {
	if c.Rng.Chance(1, 12) {
		return bigLens[c.Rng.Intn(len(bigLens))]
	}
	return slot % 81
}

// cbcEncryptCheck runs AESCBCEncrypt in one layout and compares with want.
func cbcEncryptCheck(c *ev.Case, inplace bool, pt, key, iv, want []byte) bool {
	rng := c.Rng
	L := len(want)
	cb := newCbuf(rng, L)
	capLim := rng.Bool()
	dst := cb.region(capLim)
	var src []byte
	layout := "separate"
	if inplace {
		layout = "in-place(pre-grown plaintext buffer)"
		copy(dst, pt)
		src = dst[:len(pt)]
		c.Add("cbc_encrypt_inplace", 1)
	} else {
		src = clone(pt)
		if src == nil {
			src = []byte{}
		}
		if len(pt) == 0 && rng.Bool() {
			src = nil
		}
		c.Add("cbc_encrypt_separate", 1)
	}
	k, v := clone(key), clone(iv)
	var err error
	if !c.Guard("AESCBCEncrypt", func() { err = cryptz.AESCBCEncrypt(dst, src, k, v) }) {
		c.Logf("AESCBCEncrypt[%s] key=%s iv=%s pt=%s -> PANIC", layout, hx(key), hx(iv), hx(pt))
		return false
	}
	c.Logf("AESCBCEncrypt[%s, capLimited=%v] key=%s iv=%s pt(%d)=%s -> err=%v dst=%s", layout, capLim, hx(key), hx(iv), len(pt), hx(pt), err, hx(dst))
	if err != nil {
		c.Failf("cbc-encrypt-err", "AESCBCEncrypt[%s] with a %d-byte key, 16-byte iv, %d-byte plaintext returned error %v (key=%s iv=%s pt=%s)", layout, len(key), len(pt), err, hx(key), hx(iv), hx(pt))
		return false
	}
	if d := cb.damaged(); d != "" {
		c.Failf("cbc-encrypt-overrun", "AESCBCEncrypt[%s] wrote outside dst[:AESCBCEncryptLen]: %s (plaintext %d bytes, dst %d bytes)", layout, d, len(pt), L)
		return false
	}
	if i := firstDiff(dst, want); i >= 0 {
		c.Failf("cbc-encrypt-diff", "AESCBCEncrypt[%s] differs from AES-CBC over PKCS#7(plaintext) at byte %d (block %d of %d): plaintext %d bytes key=%s iv=%s pt=%s got=%s want=%s", layout, i, i/blk, L/blk, len(pt), hx(key), hx(iv), hx(pt), hx(dst), hx(want))
		return false
	}
	return true
}

// cbcDecryptCheck runs AESCBCDecrypt in one layout on ct. want==nil means the
// reference says ct does not decrypt to a correctly padded message.
func cbcDecryptCheck(c *ev.Case, inplace bool, ct, key, iv []byte, wantOK bool, want []byte, why string) bool {
	rng := c.Rng
	var dl1, dl2 int
	if !c.Guard("AESCBCDecryptLen", func() {
		dl1 = cryptz.AESCBCDecryptLen(ct)
		dl2 = cryptz.AESCBCDecryptLen(string(ct))
	}) {
		return false
	}
	if dl1 != dl2 {
		c.Failf("cbc-declen-str-bytes", "AESCBCDecryptLen gives %d for []byte and %d for the same string (len %d)", dl1, dl2, len(ct))
		return false
	}
	if dl1 < 0 || dl1 > len(ct)+1<<16 {
		c.Failf("cbc-declen-unusable", "AESCBCDecryptLen(%d-byte ciphertext) = %d cannot be used to size dst", len(ct), dl1)
		return false
	}
	var cb *cbuf
	var dst, src []byte
	layout := "separate"
	if inplace {
		layout = "in-place(dst = ciphertext)"
		cb = newCbuf(rng, len(ct))
		dst = cb.region(rng.Bool())
		copy(dst, ct)
		src = dst
		c.Add("cbc_decrypt_inplace", 1)
	} else {
		cb = newCbuf(rng, dl1)
		dst = cb.region(rng.Bool())
		src = clone(ct)
		c.Add("cbc_decrypt_separate", 1)
	}
	k, v := clone(key), clone(iv)
	var n int
	var err error
	if !c.Guard("AESCBCDecrypt", func() { n, err = cryptz.AESCBCDecrypt(dst, src, k, v) }) {
		c.Logf("AESCBCDecrypt[%s] key=%s iv=%s ct(%d)=%s -> PANIC", layout, hx(key), hx(iv), len(ct), hx(ct))
		return false
	}
	c.Logf("AESCBCDecrypt[%s] key=%s iv=%s ct(%d)=%s -> n=%d err=%v (reference: %s)", layout, hx(key), hx(iv), len(ct), hx(ct), n, err, why)
	if d := cb.damaged(); d != "" {
		c.Failf("cbc-decrypt-overrun", "AESCBCDecrypt[%s] wrote outside dst: %s (ciphertext %d bytes)", layout, d, len(ct))
		return false
	}
	if !wantOK {
		if err == nil {
			c.Failf("cbc-decrypt-accepts-bad", "AESCBCDecrypt[%s] returned n=%d, err=nil for a ciphertext that is not a correctly padded message (%s): key=%s iv=%s ct(%d)=%s", layout, n, why, hx(key), hx(iv), len(ct), hx(ct))
			return false
		}
		return true
	}
	if err != nil {
		c.Failf("cbc-decrypt-err", "AESCBCDecrypt[%s] returned error %q for a valid ciphertext of a %d-byte plaintext (%s): key=%s iv=%s ct=%s", layout, err, len(want), why, hx(key), hx(iv), hx(ct))
		return false
	}
	if n != len(want) {
		c.Failf("cbc-decrypt-len", "AESCBCDecrypt[%s] returned length %d, plaintext has %d bytes (%s): key=%s iv=%s ct=%s", layout, n, len(want), why, hx(key), hx(iv), hx(ct))
		return false
	}
	if n > len(dst) || !bytes.Equal(dst[:n], want) {
		c.Failf("cbc-decrypt-diff", "AESCBCDecrypt[%s] dst[:%d] differs from the plaintext: key=%s iv=%s ct=%s got=%s want=%s", layout, n, hx(key), hx(iv), hx(ct), hx(dst[:min(n, len(dst))]), hx(want))
		return false
	}
	return true
}

// cbcCase: encrypt (both layouts) against the reference, decrypt the reference
// ciphertext (both layouts) back to the plaintext.
func cbcCase(c *ev.Case) {
	rng := c.Rng
	klen := keySizes[c.Index%3]
	n := pickLen(c, c.Index/3)
	key, iv := genKey(c, rng, klen), rng.Bytes(blk)
	if rng.Chance(1, 40) {
		iv = make([]byte, blk)
	}
	pt, kind := genText(rng, n)
	b, err := aes.NewCipher(key)
	if err != nil {
		c.Run().HarnessFailure("reference NewCipher: " + err.Error())
		return
	}
	want := cbcEncRaw(b, iv, refPad(pt, blk))
	c.Add(fmt.Sprintf("cbc_key%d", klen*8), 1)
	switch {
	case n == 0:
		c.Add("cbc_plaintext_empty", 1)
	case n%blk == 0:
		c.Add("cbc_plaintext_block_aligned", 1)
	case n%blk == blk-1:
		c.Add("cbc_plaintext_one_short_of_block", 1)
	default:
		c.Add("cbc_plaintext_unaligned", 1)
	}
	c.Max("cbc_max_plaintext_len", int64(n))

	// length helper, []byte and string instantiation
	var l1, l2 int
	if !c.Guard("AESCBCEncryptLen", func() {
		l1 = cryptz.AESCBCEncryptLen(pt)
		l2 = cryptz.AESCBCEncryptLen(string(pt))
	}) {
		return
	}
	c.Logf("AESCBCEncryptLen(len %d) -> %d / %d (string); reference ciphertext has %d bytes", n, l1, l2, len(want))
	if l1 != len(want) || l2 != len(want) {
		c.Failf("cbc-enclen", "AESCBCEncryptLen(%d-byte plaintext) = %d ([]byte) / %d (string), AES-CBC over PKCS#7 produces %d bytes", n, l1, l2, len(want))
		return
	}
	c.Add("cbc_len_helper_checks", 2)

	if !cbcEncryptCheck(c, false, pt, key, iv, want) {
		return
	}
	if !cbcEncryptCheck(c, true, pt, key, iv, want) {
		return
	}
	why := fmt.Sprintf("ciphertext of a %d-byte %s plaintext", n, kind)
	if !cbcDecryptCheck(c, false, want, key, iv, true, pt, why) {
		return
	}
	if !cbcDecryptCheck(c, true, want, key, iv, true, pt, why) {
		return
	}
	c.Add("cbc_roundtrips", 1)
	c.Distinct(ev.Mix(1, uint64(klen), uint64(n), ev.HashBytes(key), ev.HashBytes(iv), ev.HashBytes(pt)))
	if wantSample(c, 1013) {
		c.Sample(fmt.Sprintf("cbc: AES-%d, %d-byte %s plaintext -> %d-byte ciphertext; encrypt separate+in-place == reference, decrypt separate+in-place == plaintext", klen*8, n, kind, len(want)))
	}
}

// hostileTail builds a byte string of nblocks*b bytes whose tail is aimed at
// the un-padding validation; returns the data and the construction name.
func hostileTail(rng *ev.Rand, total, b int) ([]byte, string) {
	d := rng.Bytes(total)
	if total == 0 {
		return d, "empty"
	}
	setTail := func(p int, v byte) {
		for i := total - p; i < total; i++ {
			if i >= 0 {
				d[i] = v
			}
		}
	}
	pickP := func() int {
		hi := b
		if hi > total {
			hi = total
		}
		if hi < 1 {
			hi = 1
		}
		if hi > 255 {
			hi = 255
		}
		switch rng.Intn(5) {
		case 0:
			return 1
		case 1:
			return hi
		case 2:
			if hi > 1 {
				return hi - 1
			}
			return 1
		case 3:
			return min(2, hi)
		}
		return 1 + rng.Intn(hi)
	}
	switch rng.Intn(10) {
	case 0, 1: // valid by construction
		p := pickP()
		setTail(p, byte(p))
		if total > p && int(d[total-p-1]) == p && rng.Bool() {
			d[total-p-1] ^= 0x40
		}
		return d, fmt.Sprintf("valid-pad-%d", p)
	case 2: // valid, then one pad byte (not the last) corrupted
		p := pickP()
		setTail(p, byte(p))
		if p >= 2 {
			var pos int
			switch rng.Intn(3) {
			case 0:
				pos = total - p // first pad byte
			case 1:
				pos = total - 2 // next to last
			default:
				pos = total - p + rng.Intn(p-1)
			}
			if rng.Bool() {
				d[pos] ^= 1 << uint(rng.Intn(8))
			} else {
				d[pos] = byte(int(d[pos]) + rng.Pick(1, 255))
			}
			return d, fmt.Sprintf("pad-%d-corrupted-at-%d", p, pos-(total-p))
		}
		d[total-1] = 0
		return d, "last-byte-0"
	case 3: // last byte 0, rest of the tail zero too (looks like zero padding)
		k := 1 + rng.Intn(min(total, 17))
		setTail(k, 0)
		return d, "zero-tail"
	case 4: // pad value just above the block size, consistently filled
		p := b + 1 + rng.Intn(2)
		if p > 255 {
			p = 255
		}
		setTail(min(p, total), byte(p))
		return d, fmt.Sprintf("pad-value-%d-above-block", p)
	case 5: // pad value far above (also above len(data))
		p := rng.Pick(255, 254, 128, total+1, total)
		if p > 255 {
			p = 255
		}
		if p < 1 {
			p = 1
		}
		setTail(min(p, total), byte(p))
		return d, fmt.Sprintf("pad-value-%d", p)
	case 6: // all bytes equal
		v := byte(rng.Pick(1, 2, b, b-1, b+1, 16, 17, 0, 255, 8))
		for i := range d {
			d[i] = v
		}
		return d, fmt.Sprintf("all-bytes-%d", v)
	case 7: // biased last byte, random rest
		d[total-1] = byte(rng.Pick(0, 1, 2, 15, 16, 17, 255, b, b+1, rng.Intn(18)))
		return d, "biased-last-byte"
	case 8: // pad claims p but only the last p-1 bytes carry it
		p := pickP()
		if p >= 2 {
			setTail(p, byte(p))
			d[total-p] = byte(p - 1)
			return d, fmt.Sprintf("pad-%d-short-by-one", p)
		}
		return d, "random"
	}
	return d, "random"
}

// cbcHostileCase: AESCBCDecrypt on ciphertexts that are not encryptions of
// correctly padded messages (and on some that are, built independently).
func cbcHostileCase(c *ev.Case) {
	rng := c.Rng
	klen := keySizes[rng.Intn(3)]
	key, iv := genKey(c, rng, klen), rng.Bytes(blk)
	b, err := aes.NewCipher(key)
	if err != nil {
		c.Run().HarnessFailure("reference NewCipher: " + err.Error())
		return
	}
	inplace := rng.Bool()
	mode := c.Index % 4
	var ct []byte
	var built string
	switch mode {
	case 0: // every length 0..80, most of them illegal
		n := (c.Index / 4) % 81
		if rng.Chance(1, 10) {
			n = rng.Pick(1, 15, 17, 31, 33, 255, 257, 1023)
		}
		ct = rng.Bytes(n)
		if n == 0 && rng.Bool() {
			ct = nil
		}
		built = fmt.Sprintf("random %d-byte ciphertext", n)
	case 1: // random full blocks
		ct = rng.Bytes(blk * rng.Range(1, 5))
		built = "random full-block ciphertext"
	default: // crafted padded-plaintext tails, encrypted by the reference
		nb := rng.Range(1, 5)
		if rng.Chance(1, 50) { // a few messages of many blocks (up to 4 KiB)
			nb = rng.Pick(6, 8, 16, 17, 64, 65, 256)
			c.Add("cbc_hostile_many_blocks", 1)
		}
		p, how := hostileTail(rng, nb*blk, blk)
		ct = cbcEncRaw(b, iv, p)
		built = fmt.Sprintf("reference-CBC of %d blocks with tail %s", nb, how)
	}
	ref := unpadRef{class: "illegal-ciphertext-length"}
	var want []byte
	if len(ct) >= blk && len(ct)%blk == 0 {
		plain := cbcDecRaw(b, iv, ct)
		ref = refUnpad(plain, blk)
		if ref.ok {
			want = plain[:ref.n]
		}
		built += "; reference-decrypted last block " + hx(plain[len(plain)-blk:])
	}
	c.Add("cbc_hostile/"+ref.class, 1)
	why := built + "; reference un-padding: " + ref.class
	if !cbcDecryptCheck(c, inplace, ct, key, iv, ref.ok, want, why) {
		return
	}
	lay := "separate"
	if inplace {
		lay = "inplace"
	}
	if ref.ok {
		c.Add("cbc_hostile_valid_recovered", 1)
		c.Add("cbc_hostile_valid_recovered_"+lay, 1)
	} else {
		c.Add("cbc_hostile_rejected", 1)
		c.Add("cbc_hostile_rejected_"+lay, 1)
		if len(ct) == 0 {
			c.Add("cbc_hostile_empty_ciphertext_rejected", 1)
		}
	}
	c.Add(fmt.Sprintf("cbc_hostile_key%d", klen*8), 1)
	c.Distinct(ev.Mix(2, ev.HashBytes(key), ev.HashBytes(iv), ev.HashBytes(ct)))
	if wantSample(c, 1777) {
		c.Sample(fmt.Sprintf("cbc-hostile: %s (%d bytes) -> reference %s; golib agreed", built, len(ct), ref.class))
	}
}

// badKeySizes: every size 0..40 plus sizes well above the largest AES key
// (multiples and neighbours of the valid sizes, where an implementation that
// folds, truncates or hashes an over-long key would start accepting it).
var badKeySizes = func() []int {
	s := make([]int, 0, 53)
	for i := 0; i <= 40; i++ {
		s = append(s, i)
	}
	return append(s, 47, 48, 49, 63, 64, 65, 96, 128, 255, 256, 512, 1024)
}()

// badKeyCase: key sizes 0..40 and larger. Valid sizes are the positive control.
func badKeyCase(c *ev.Case) {
	rng := c.Rng
	klen := badKeySizes[c.Index%len(badKeySizes)]
	// the content class of the offered key goes by index, so that every size meets
	// every class (a 48- or 64-byte string of hex digits is still not an AES key)
	class := keyClasses[(c.Index/len(badKeySizes))%len(keyClasses)]
	key := genKeyClass(rng, klen, class)
	c.Add("badkey_class/"+class, 1)
	if klen == 0 && rng.Bool() {
		key = nil
	}
	valid := klen == 16 || klen == 24 || klen == 32
	n := rng.Intn(41)
	pt := rng.Bytes(n)
	iv := rng.Bytes(blk)
	nonce := rng.Bytes(12)
	aad := rng.Bytes(rng.Intn(9))
	encL := n + blk - n%blk
	// The ciphertexts offered to the two decrypt functions are genuine messages
	// under a valid-size key derived from the offered one (a prefix of 16/24/32
	// bytes, or the key zero-extended to such a size), so that an implementation
	// that folds an invalid key into a valid one instead of refusing it cannot
	// hide behind a padding / authentication error.
	fk := clone(key)
	if !valid {
		s := keySizes[(c.Index/len(badKeySizes))%3]
		if klen > s {
			fk = clone(key[:s])
		} else {
			fk = append(clone(key), make([]byte, s-klen)...)
		}
	}
	fb, ferr := aes.NewCipher(fk)
	if ferr != nil {
		c.Run().HarnessFailure("reference NewCipher: " + ferr.Error())
		return
	}
	fg, ferr := refGCM(fk, 12)
	if ferr != nil {
		c.Run().HarnessFailure("reference GCM: " + ferr.Error())
		return
	}
	cbcCT := cbcEncRaw(fb, iv, refPad(pt, blk))
	sealed := fg.Seal(nil, nonce, pt, aad)
	type res struct {
		name string
		err  error
	}
	var out []res
	run := func(name string, fn func() error) bool {
		var err error
		if !c.Guard(name, func() { err = fn() }) {
			c.Logf("%s with %d-byte key -> PANIC", name, klen)
			return false
		}
		c.Logf("%s with %d-byte key -> err=%v", name, klen, err)
		out = append(out, res{name, err})
		return true
	}
	if !run("AESCBCEncrypt", func() error {
		return cryptz.AESCBCEncrypt(make([]byte, encL), clone(pt), key, iv)
	}) {
		return
	}
	if !run("AESCBCDecrypt", func() error {
		_, err := cryptz.AESCBCDecrypt(make([]byte, encL), clone(cbcCT), key, iv)
		return err
	}) {
		return
	}
	if !run("AESGCMEncrypt", func() error {
		return cryptz.AESGCMEncrypt(make([]byte, n+16), clone(pt), key, nonce, aad)
	}) {
		return
	}
	if !run("AESGCMDecrypt", func() error {
		return cryptz.AESGCMDecrypt(make([]byte, n), clone(sealed), key, nonce, aad)
	}) {
		return
	}
	for _, r := range out {
		if valid && r.err != nil {
			c.Failf("valid-key-rejected", "%s returned error %v for a %d-byte key", r.name, r.err, klen)
			return
		}
		if !valid && r.err == nil {
			c.Failf("bad-key-accepted", "%s returned nil error for a %d-byte key (key=%s)", r.name, klen, hx(key))
			return
		}
	}
	if valid {
		c.Add("key_size_valid_control", 1)
	} else {
		c.Add("key_size_invalid_rejected", 4)
		if klen > 40 {
			c.Add("key_size_invalid_above_40_rejected", 4)
		}
		c.Distinct(ev.Mix(3, uint64(klen), uint64(n)))
	}
	if !valid && wantSample(c, 7) {
		c.Sample(fmt.Sprintf("bad-key: %d-byte key -> all four AES helpers returned an error (e.g. %v)", klen, out[0].err))
	}
}
