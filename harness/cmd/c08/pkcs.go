package main

import (
	"bytes"
	"fmt"

	"github.com/welllog/golib/cryptz"

	"verif/ev"
)

var edgeBlocks = []int{1, 2, 3, 7, 8, 9, 15, 16, 17, 32, 127, 128, 254, 255}

// unpadCase: PKCS7UnPadding / PKCS5UnPadding against the reference predicate
// on random and structured byte strings.
func unpadCase(c *ev.Case) {
	rng := c.Rng
	var b int
	switch rng.Intn(10) {
	case 0, 1, 2, 3:
		b = 1 + c.Index%255
	case 4, 5, 6:
		b = edgeBlocks[rng.Intn(len(edgeBlocks))]
	case 7:
		b = 16
	case 8:
		b = 8
	default:
		b = rng.Pick(0, -1, -8, -16, 256, 257, 1000, 1+rng.Intn(255))
	}
	pkcs5 := b == 8 && rng.Bool()
	// length: multiples of b and their neighbours, or 0..70
	var total int
	bb := b
	if bb <= 0 {
		bb = rng.Pick(1, 8, 16)
	}
	switch rng.Intn(8) {
	case 0:
		total = rng.Intn(71)
	case 1:
		total = bb*rng.Range(1, 3) + rng.Pick(-1, 1)
	case 2:
		total = 0
	default:
		k := 1
		if bb <= 35 {
			k = rng.Range(1, 70/bb)
			if k > 6 {
				k = rng.Range(1, 6)
			}
		} else if rng.Chance(1, 3) {
			k = rng.Range(1, 3)
		}
		total = bb * k
	}
	if total < 0 {
		total = 0
	}
	data, how := hostileTail(rng, total, b)
	if total == 0 && rng.Bool() {
		data = nil
	}
	ref := refUnpad(data, b)
	orig := clone(data)
	name := "PKCS7UnPadding"
	var got []byte
	var err error
	if pkcs5 {
		name = "PKCS5UnPadding"
		if !c.Guard(name, func() { got, err = cryptz.PKCS5UnPadding(data) }) {
			c.Logf("%s(%s) -> PANIC", name, hx(orig))
			return
		}
		c.Add("unpad_pkcs5_calls", 1)
	} else {
		if !c.Guard(name, func() { got, err = cryptz.PKCS7UnPadding(data, b) }) {
			c.Logf("%s(%s, %d) -> PANIC", name, hx(orig), b)
			return
		}
		c.Add("unpad_pkcs7_calls", 1)
	}
	c.Logf("%s(data(%d)=%s [%s], b=%d) -> (%s, err=%v); reference: %s", name, len(orig), hx(orig), how, b, hx(got), err, ref.class)
	c.Add("unpad/"+ref.class, 1)
	c.Max("unpad_max_block_size", int64(b))
	switch {
	case b >= 1 && b <= 16:
		c.Add("unpad_block_1..16", 1)
	case b >= 17 && b <= 255:
		c.Add("unpad_block_17..255", 1)
		if ref.class == "pad-bytes" && int(orig[len(orig)-1]) > 16 {
			c.Add("unpad_block_17..255_long_pad_corrupted", 1)
		}
	case b > 255:
		c.Add("unpad_block_above_255", 1)
	}
	if !ref.ok {
		if err == nil {
			c.Failf("unpad-accepts-bad", "%s(data, %d) returned %d bytes and nil error for data that is not a correctly padded multiple of the block size (%s): data(%d)=%s", name, b, len(got), ref.class, len(orig), hx(orig))
			return
		}
	} else {
		if ref.n > 0 && b >= 1 && b <= 255 {
			c.Add("unpad/"+ref.class+"/nonempty-d-block-1..255", 1)
		}
		if err != nil && (b < 1 || b > 255) {
			// the statement promises the round trip for block sizes 1..255 only; a
			// library that refuses other block sizes outright is within it
			c.Add("unpad_valid_padding_refused_for_block_size_outside_1..255", 1)
		} else if err != nil && ref.n == 0 {
			// data that is nothing but one block of padding is PKCS7Padding of the
			// EMPTY string, which PKCS7Padding itself refuses; the statement promises
			// the inverse for non-empty d only (the CBC path, where the empty
			// plaintext is in scope, is decided in cbc / cbc-hostile)
			c.Add("unpad_padding_only_input_refused", 1)
		} else if err != nil {
			c.Failf("unpad-rejects-valid", "%s(data, %d) returned error %q for correctly padded data (pad %d): data(%d)=%s", name, b, err, len(orig)-ref.n, len(orig), hx(orig))
			return
		}
		if err == nil && len(got) != ref.n {
			c.Failf("unpad-len", "%s(data, %d) returned %d bytes, the un-padded prefix has %d: data(%d)=%s", name, b, len(got), ref.n, len(orig), hx(orig))
			return
		}
		if err == nil && !bytes.Equal(got, orig[:ref.n]) {
			c.Failf("unpad-diff", "%s(data, %d) returned %s, want %s", name, b, hx(got), hx(orig[:ref.n]))
			return
		}
	}
	if total > 0 {
		c.Distinct(ev.Mix(6, uint64(int64(b)), ev.HashBytes(orig)))
	}
	if total > 0 && wantSample(c, 4099) {
		c.Sample(fmt.Sprintf("unpad: %s(%s, b=%d) [%s] -> reference %s; golib agreed", name, hx(orig), b, how, ref.class))
	}
}

const rtCombos = 255 * 64

// padRoundTripCase: PKCS7UnPadding(PKCS7Padding(d, b), b) = d. The first
// 255*64 indices enumerate every (b in 1..255, |d| in 1..64) pair.
func padRoundTripCase(c *ev.Case) {
	rng := c.Rng
	var b, n int
	if c.Index < rtCombos {
		b = 1 + c.Index%255
		n = 1 + c.Index/255
		c.Add("pad_roundtrip_enumerated_pairs", 1)
	} else {
		b = 1 + rng.Intn(255)
		if rng.Chance(1, 3) {
			b = edgeBlocks[rng.Intn(len(edgeBlocks))]
		}
		switch rng.Intn(4) {
		case 0:
			n = 1 + rng.Intn(64)
		case 1:
			n = b*rng.Range(1, 3) + rng.Pick(-1, 0, 0, 1)
		default:
			n = 1 + rng.Intn(600)
		}
		if n < 1 {
			n = 1
		}
	}
	d := rng.Bytes(n)
	kind := "random"
	switch rng.Intn(5) {
	case 0: // tail of d already looks like valid padding for b
		p := 1 + rng.Intn(min(min(b, n), 255))
		for i := n - p; i < n; i++ {
			d[i] = byte(p)
		}
		kind = "tail-like-padding"
	case 1:
		v := byte(rng.Pick(b, b-n%b, 0, 1, 255))
		for i := range d {
			d[i] = v
		}
		kind = fmt.Sprintf("all-bytes-%d", v)
	}
	pkcs5 := b == 8 && rng.Bool()
	orig := clone(d)
	// d with or without spare capacity (PKCS7Padding appends)
	if rng.Bool() {
		g := make([]byte, n, n+rng.Range(1, 300))
		copy(g, d)
		d = g
		c.Add("pad_input_with_spare_capacity", 1)
	} else {
		d = d[:n:n]
	}
	want := refPad(orig, b)
	var padded []byte
	var err error
	pn, un := "PKCS7Padding", "PKCS7UnPadding"
	if pkcs5 {
		pn, un = "PKCS5Padding", "PKCS5UnPadding"
		c.Add("pad_roundtrip_pkcs5", 1)
		if !c.Guard(pn, func() { padded, err = cryptz.PKCS5Padding(d) }) {
			return
		}
	} else if !c.Guard(pn, func() { padded, err = cryptz.PKCS7Padding(d, b) }) {
		c.Logf("%s(d(%d)=%s, %d) -> PANIC", pn, n, hx(orig), b)
		return
	}
	c.Logf("%s(d(%d)=%s [%s], b=%d) -> (%s, err=%v)", pn, n, hx(orig), kind, b, hx(padded), err)
	if err != nil {
		c.Failf("pad-err", "%s(%d-byte d, %d) returned error %v", pn, n, b, err)
		return
	}
	if n%b == 0 {
		c.Add("pad_block_aligned_input", 1)
	}
	padCopy := clone(padded)
	var back []byte
	if !c.Guard(un, func() {
		if pkcs5 {
			back, err = cryptz.PKCS5UnPadding(padded)
		} else {
			back, err = cryptz.PKCS7UnPadding(padded, b)
		}
	}) {
		c.Logf("%s(%s, %d) -> PANIC", un, hx(padCopy), b)
		return
	}
	c.Logf("%s(%s, b=%d) -> (%s, err=%v)", un, hx(padCopy), b, hx(back), err)
	if err != nil {
		c.Failf("pad-roundtrip-err", "%s(%s(d, %d), %d) returned error %q for d(%d)=%s; padded=%s", un, pn, b, b, err, n, hx(orig), hx(padCopy))
		return
	}
	if !bytes.Equal(back, orig) {
		c.Failf("pad-roundtrip-diff", "%s(%s(d, %d), %d) = %s (%d bytes), d = %s (%d bytes); padded=%s", un, pn, b, b, hx(back), len(back), hx(orig), n, hx(padCopy))
		return
	}
	// The un-padding clause (error unless correctly padded) together with the
	// round trip fixes the padded form uniquely: d followed by p bytes of p.
	if !bytes.Equal(padCopy, want) {
		c.Failf("pad-output", "%s(d(%d)=%s, %d) = %s, which is not d plus %d bytes of value %d", pn, n, hx(orig), b, hx(padCopy), len(want)-n, len(want)-n)
		return
	}
	c.Add("pad_roundtrips", 1)
	c.Max("pad_max_block_size", int64(b))
	c.Distinct(ev.Mix(7, uint64(b), ev.HashBytes(orig)))
	if wantSample(c, 2999) {
		c.Sample(fmt.Sprintf("pad-roundtrip: b=%d, %d-byte %s d -> %d padded bytes (pad %d) -> un-padded == d", b, n, kind, len(padCopy), len(padCopy)-n))
	}
}
