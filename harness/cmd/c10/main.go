// C10 — Ring/SyncRing are bounded FIFOs sequentially, across growth and counter wrap.
//
// Reference-model monitors (slice + capacity) over generated operation
// sequences, a complete grid of Recap / PushWithExpand layouts, and SyncRing
// runs across the 2^32 counter wrap (reached by a self-validating seek in the
// quick tier and honestly, by > 2^32 operations, in the thorough tier).
package main

import (
	"fmt"
	"reflect"
	"time"

	"github.com/welllog/golib/ringz"

	"verif/ev"
	"verif/ringseek"
	"verif/ringtyped"
)

// ---- Ring ----

type ringSut struct {
	c     *ev.Case
	r     *ringz.Ring[int]
	m     []int
	cap   int
	next  int
	hash  uint64
	wraps int
	// quiet > 0: no observer (Len/Cap/IsEmpty/IsFull/Peek) is called for that many
	// operations; the operations' own results are still compared
	quiet     int
	quietCase bool
	tag       string // prefix of the layout counters ("ring_", "grid_", "ringbig_")
	// what the workload really produced (flushed into the case counters by flush)
	n [ringCounters]int64
}

const (
	rPushOK = iota
	rPushRefused
	rPopOK
	rPopRefused
	rPeekOK
	rPeekEmpty
	rSeenFull
	rSeenEmpty
	rRecapNonPositive
	rRecapSame
	rRecapBelowLen
	rRecapShrink
	rRecapGrow
	rRecapToLen
	rExpandPlainPush
	rReinit
	ringCounters
)

var ringCounterNames = [ringCounters]string{
	"ring_push_ok", "ring_push_refused_full", "ring_pop_ok", "ring_pop_refused_empty",
	"ring_peek_ok", "ring_peek_refused_empty", "ring_observed_full", "ring_observed_empty",
	"ring_recap_rejected_nonpositive", "ring_recap_rejected_same", "ring_recap_rejected_below_len",
	"ring_recap_shrink_ok", "ring_recap_grow_ok", "ring_recap_to_exactly_len_ok",
	"ring_pushwithexpand_not_full", "ring_reinits",
}

// ringLayout reads Ring's private head/tail indices. Coverage counters only: no verdict
// depends on it, and when the representation has no such fields the layout counters (and
// their floors) are dropped.
func ringLayout(r *ringz.Ring[int]) (head, tail int, ok bool) {
	defer func() {
		if recover() != nil {
			ok = false
		}
	}()
	v := reflect.ValueOf(r).Elem()
	h, t := v.FieldByName("head"), v.FieldByName("tail")
	if !h.IsValid() || !t.IsValid() || h.Kind() != reflect.Int || t.Kind() != reflect.Int {
		return 0, 0, false
	}
	return int(h.Int()), int(t.Int()), true
}

var ringLayoutReadable = func() (ok bool) {
	defer func() {
		if recover() != nil {
			ok = false
		}
	}()
	r := ringz.New[int](2)
	_, _, ok = ringLayout(&r)
	return ok
}()

// noteLayout counts the layout a Recap / an expanding PushWithExpand starts from.
func (s *ringSut) noteLayout(what string) {
	if !ringLayoutReadable || len(s.m) == 0 {
		return
	}
	h, t, ok := ringLayout(s.r)
	switch {
	case !ok:
	case h > t:
		s.c.Add(what+"_on_wrapped_layout", 1)
	case h > 0:
		s.c.Add(what+"_on_offset_layout", 1)
	}
}

func (s *ringSut) flush() {
	for i, v := range s.n {
		if v != 0 {
			s.c.Add(ringCounterNames[i], v)
		}
	}
	s.n = [ringCounters]int64{}
}

func (s *ringSut) observe(after string) bool {
	c := s.c
	if s.quiet > 0 {
		s.quiet--
		c.Add("observations_deferred", 1)
		if s.quiet > 0 {
			return true
		}
		c.Add("quiet_windows_closed", 1)
	} else if s.quietCase && c.Rng.Chance(1, 10) {
		s.quiet = c.Rng.Range(2, 8)
		return true
	}
	var n, cp int
	var e, f bool
	var pv int
	var pok bool
	if !c.Guard("Len/IsEmpty/IsFull/Cap/Peek", func() {
		n, cp, e, f = s.r.Len(), s.r.Cap(), s.r.IsEmpty(), s.r.IsFull()
		pv, pok = s.r.Peek()
	}) {
		return false
	}
	if n != len(s.m) || cp != s.cap || e != (len(s.m) == 0) || f != (len(s.m) == s.cap) {
		c.Failf("ring-observers", "after %s: Len=%d Cap=%d IsEmpty=%v IsFull=%v, model holds %d of %d", after, n, cp, e, f, len(s.m), s.cap)
		return false
	}
	if pok != (len(s.m) > 0) || (pok && pv != s.m[0]) {
		c.Failf("ring-peek", "after %s: Peek=(%d,%v), model content %v", after, pv, pok, s.m)
		return false
	}
	if pok {
		s.n[rPeekOK]++
	} else {
		s.n[rPeekEmpty]++
		s.n[rSeenEmpty]++
	}
	if len(s.m) == s.cap {
		s.n[rSeenFull]++
	}
	return true
}

func (s *ringSut) push() bool {
	v := s.next
	s.next++
	var ok bool
	if !s.c.Guard("Push", func() { ok = s.r.Push(v) }) {
		return false
	}
	s.c.Logf("Push(%d) -> %v", v, ok)
	want := len(s.m) < s.cap
	if ok != want {
		s.c.Failf("ring-push", "Push(%d) returned %v with %d of %d held", v, ok, len(s.m), s.cap)
		return false
	}
	if ok {
		s.m = append(s.m, v)
		s.n[rPushOK]++
	} else {
		s.n[rPushRefused]++
	}
	s.hash = ev.Mix(s.hash, 1, uint64(v))
	return s.observe("Push")
}

func (s *ringSut) pop() bool {
	var v int
	var ok bool
	if !s.c.Guard("Pop", func() { v, ok = s.r.Pop() }) {
		return false
	}
	s.c.Logf("Pop() -> (%d,%v)", v, ok)
	// the value that accompanies a failed Pop is not part of the statement
	if ok != (len(s.m) > 0) || (ok && v != s.m[0]) {
		s.c.Failf("ring-pop", "Pop() = (%d,%v), model content %v", v, ok, s.m)
		return false
	}
	if ok {
		s.m = s.m[1:]
		s.n[rPopOK]++
	} else {
		s.n[rPopRefused]++
	}
	s.hash = ev.Mix(s.hash, 2)
	return s.observe("Pop")
}

func (s *ringSut) recap(n int) bool {
	var ok bool
	if n > 0 && n != s.cap && n >= len(s.m) {
		s.noteLayout(s.tag + "recap")
	}
	if !s.c.Guard("Recap", func() { ok = s.r.Recap(n) }) {
		return false
	}
	s.c.Logf("Recap(%d) -> %v", n, ok)
	want := n > 0 && n != s.cap && n >= len(s.m)
	if ok != want {
		s.c.Failf("ring-recap-result", "Recap(%d) returned %v with Cap=%d Len=%d", n, ok, s.cap, len(s.m))
		return false
	}
	if ok {
		switch {
		case n < s.cap:
			s.n[rRecapShrink]++
		default:
			s.n[rRecapGrow]++
		}
		if n == len(s.m) {
			s.n[rRecapToLen]++ // the ring is full right after the Recap
		}
		s.cap = n
		s.c.Add("ring_recaps_ok", 1)
	} else {
		switch {
		case n <= 0:
			s.n[rRecapNonPositive]++
		case n == s.cap:
			s.n[rRecapSame]++
		default:
			s.n[rRecapBelowLen]++
		}
		s.c.Add("ring_recaps_rejected", 1)
	}
	s.hash = ev.Mix(s.hash, 3, uint64(n))
	return s.observe(fmt.Sprintf("Recap(%d)", n))
}

func (s *ringSut) pushExpand() bool {
	v := s.next
	s.next++
	if len(s.m) == s.cap {
		s.noteLayout(s.tag + "expand")
	}
	if !s.c.Guard("PushWithExpand", func() { s.r.PushWithExpand(v) }) {
		return false
	}
	s.c.Logf("PushWithExpand(%d)", v)
	if len(s.m) == s.cap {
		// the growth factor is not part of the property: any larger capacity is accepted
		nc := 0
		s.c.Guard("Cap", func() { nc = s.r.Cap() })
		if nc <= s.cap {
			s.c.Failf("ring-expand", "PushWithExpand on a full ring of capacity %d left Cap()=%d", s.cap, nc)
			return false
		}
		s.cap = nc
		s.c.Add("ring_expands", 1)
	} else {
		s.n[rExpandPlainPush]++
	}
	s.m = append(s.m, v)
	s.hash = ev.Mix(s.hash, 4, uint64(v))
	return s.observe("PushWithExpand")
}

// drainCheck pops everything and compares the order.
func (s *ringSut) drainCheck() bool {
	for len(s.m) > 0 {
		if !s.pop() {
			return false
		}
	}
	return s.pop() // one more: must fail
}

func ringCase(c *ev.Case) {
	rng := c.Rng
	cp := rng.Range(1, 8)
	var r ringz.Ring[int]
	if !c.Guard("New", func() { r = ringz.New[int](cp) }) {
		return
	}
	s := &ringSut{c: c, r: &r, cap: cp, next: 1, quietCase: rng.Chance(1, 3), tag: "ring_"}
	if !s.observe("New") {
		return
	}
	nops := rng.Pick(20, 60, 200)
	for i := 0; i < nops; i++ {
		p := rng.Intn(100)
		ok := true
		switch {
		case p < 38:
			ok = s.push()
		case p < 70:
			ok = s.pop()
		case p < 82:
			ok = s.recap(rng.Range(-1, 2*s.cap+1))
		case p < 92:
			ok = s.pushExpand()
		case p < 95:
			// Init re-initialises
			n := rng.Range(1, 8)
			ok = c.Guard("Init", func() { s.r.Init(n) })
			c.Logf("Init(%d)", n)
			s.m, s.cap = nil, n
			s.n[rReinit]++
			ok = ok && s.observe("Init")
		default:
			// run of pushes or pops to reach full / empty
			if rng.Bool() {
				for len(s.m) < s.cap && ok {
					ok = s.push()
				}
				ok = ok && s.push()
			} else {
				ok = s.drainCheck()
			}
		}
		if !ok {
			return
		}
	}
	s.quiet = 0
	if !s.observe("end of sequence") || !s.drainCheck() {
		return
	}
	s.flush()
	c.Add("ring_sequences", 1)
	c.Distinct(s.hash)
	if c.WantSample() {
		c.Sample(fmt.Sprintf("ring: start cap %d, %d operations (Push/Pop/Recap/PushWithExpand/Init), final cap %d", cp, nops, s.cap))
	}
}

// rotateAndFill moves the ring's content rot positions around the buffer and leaves fill
// elements in it. The rotation is done with one element held: a Ring that runs empty
// restarts at the beginning of its buffer, so push/pop pairs on an empty ring would
// not move anything and no wrapped layout would ever be produced. Afterwards the oldest
// element sits rot positions (modulo the capacity) into the buffer.
func (s *ringSut) rotateAndFill(rot, fill int) bool {
	if s.cap < 2 || rot == 0 {
		for i := 0; i < rot; i++ {
			if !s.push() || !s.pop() {
				return false
			}
		}
		for i := 0; i < fill; i++ {
			if !s.push() {
				return false
			}
		}
		return true
	}
	if !s.push() {
		return false
	}
	for i := 0; i < rot; i++ {
		if !s.push() || !s.pop() {
			return false
		}
	}
	if fill == 0 {
		return s.pop()
	}
	for i := 1; i < fill; i++ {
		if !s.push() {
			return false
		}
	}
	return true
}

// gridWrapped: the grid points whose content wraps around the end of the buffer at the
// moment of the Recap / of the first expansion.
func gridWrapped() (recap, expand int64) {
	for _, g := range grid {
		if g.cap < 2 || g.rot%g.cap == 0 {
			continue
		}
		if g.ncap == 1<<20 {
			if g.fill > 0 {
				expand++ // the ring is filled up before it expands: a full ring with head > 0 is wrapped
			}
		} else if g.fill > 0 && g.rot%g.cap+g.fill > g.cap && g.ncap > 0 && g.ncap != g.cap && g.ncap >= g.fill {
			recap++
		}
	}
	return
}

// gridCase enumerates capacity x rotation x fill x new capacity for Recap, and
// capacity x rotation for PushWithExpand on a full ring: a complete list.
type gridPoint struct{ cap, rot, fill, ncap int }

var grid []gridPoint

func init() {
	for cp := 1; cp <= 6; cp++ {
		for rot := 0; rot < 2*cp; rot++ {
			for fill := 0; fill <= cp; fill++ {
				for ncap := -1; ncap <= 2*cp+1; ncap++ {
					grid = append(grid, gridPoint{cp, rot, fill, ncap})
				}
				grid = append(grid, gridPoint{cp, rot, fill, 1 << 20}) // marker: PushWithExpand
			}
		}
	}
}

func gridCase(c *ev.Case) {
	g := grid[c.Index]
	var r ringz.Ring[int]
	if !c.Guard("New", func() { r = ringz.New[int](g.cap) }) {
		return
	}
	s := &ringSut{c: c, r: &r, cap: g.cap, next: 1, tag: "grid_"}
	c.Logf("grid point cap=%d rot=%d fill=%d ncap=%d", g.cap, g.rot, g.fill, g.ncap)
	if !s.rotateAndFill(g.rot, g.fill) {
		return
	}
	if g.ncap == 1<<20 {
		// PushWithExpand until the ring has grown twice
		for k := 0; k < 2*g.cap+2; k++ {
			if !s.pushExpand() {
				return
			}
		}
	} else {
		if !s.recap(g.ncap) {
			return
		}
		// the ring must keep working in the new layout: fill up, overflow, drain
		for len(s.m) < s.cap {
			if !s.push() {
				return
			}
		}
		if !s.push() {
			return
		}
	}
	if !s.drainCheck() {
		return
	}
	s.flush()
	c.Add("grid_points", 1)
	c.Distinct(ev.Mix(uint64(g.cap), uint64(g.rot), uint64(g.fill), uint64(g.ncap+2)))
	if c.WantSample() {
		c.Sample(fmt.Sprintf("grid: cap=%d rotation=%d fill=%d new capacity=%d", g.cap, g.rot, g.fill, g.ncap))
	}
}

// ringBigCase: Ring capacities far above the ones of the sequence and grid engines (the
// statement is for all capacities): around every power of two from 16 to 65536 and a few
// round numbers. Three rounds of: rotate the content to a random offset, set a fill level,
// Recap (to exactly Len, below it, same, larger, smaller) or PushWithExpand on the full
// ring, then fill up, overflow, and finally drain in order.
var ringBigCaps = func() []int {
	var out []int
	for k := 4; k <= 16; k++ {
		p := 1 << k
		out = append(out, p-1, p, p+1)
	}
	return append(out, 100, 300, 1000, 5000, 10000, 40000)
}()

func ringBigCase(c *ev.Case) {
	rng := c.Rng
	cp := ringBigCaps[c.Index%len(ringBigCaps)]
	var r ringz.Ring[int]
	if !c.Guard("New", func() { r = ringz.New[int](cp) }) {
		return
	}
	s := &ringSut{c: c, r: &r, cap: cp, next: 1, tag: "ringbig_"}
	if !s.observe("New") {
		return
	}
	c.Logf("big ring: capacity %d", cp)
	for round := 0; round < 3; round++ {
		if !s.drainCheck() {
			return
		}
		rot := rng.Intn(s.cap)
		fill := rng.Pick(1, s.cap/2, s.cap-1, s.cap, s.cap, rng.Range(0, s.cap))
		if !s.rotateAndFill(rot, fill) {
			return
		}
		if rot+fill > s.cap && fill > 0 {
			c.Add("ringbig_wrapped_contents", 1)
		}
		n := len(s.m)
		if rng.Chance(1, 3) {
			// PushWithExpand: up to the capacity as a plain push, then growing
			for k := s.cap - n + 2; k > 0; k-- {
				if !s.pushExpand() {
					return
				}
			}
		} else {
			for _, nc := range []int{n - 1, s.cap, 0, rng.Pick(n, n, n+1, s.cap-1, s.cap+1, 2*s.cap, rng.Range(n, 2*s.cap))} {
				if !s.recap(nc) {
					return
				}
			}
		}
		c.Max("ringbig_max_len_held", int64(len(s.m)))
		// the ring must keep working in the new layout: fill up, overflow
		for len(s.m) < s.cap {
			if !s.push() {
				return
			}
		}
		if !s.push() {
			return
		}
		if s.cap > 3*cp {
			break // keep the cost bounded
		}
	}
	if !s.drainCheck() {
		return
	}
	s.flush()
	c.Add("ringbig_cases", 1)
	c.Max("ringbig_max_capacity", int64(s.cap))
	c.Distinct(ev.Mix(s.hash, uint64(cp), 777))
	if c.WantSample() {
		c.Sample(fmt.Sprintf("ring-bigcap: New(%d), three rounds of rotate / fill / Recap or PushWithExpand / fill up / overflow, drained in order; final capacity %d", cp, s.cap))
	}
}

// ---- SyncRing ----

type syncSut struct {
	c         *ev.Case
	r         *ringz.SyncRing[int]
	m         []int
	cap       int
	next      int
	hash      uint64
	quiet     int
	quietCase bool
	// timedLeft: how many timed waits that have to run out this case may still make
	timedLeft int
	// absolute counter positions (wrap engine): boundary is 2^32 or 2^31, 0 = not tracked
	boundary, headAbs, tailAbs uint64
	pushOK, pushRefused        [4]int64
	popOK, popRefused          [4]int64
	n                          [syncCounters]int64
}

func (s *syncSut) observe(after string) bool {
	if s.quiet > 0 {
		s.quiet--
		s.c.Add("observations_deferred", 1)
		if s.quiet > 0 {
			return true
		}
		s.c.Add("quiet_windows_closed", 1)
	} else if s.quietCase && s.c.Rng.Chance(1, 10) {
		s.quiet = s.c.Rng.Range(2, 8)
		return true
	}
	var n, cp int
	var e, f bool
	if !s.c.Guard("Len/IsEmpty/IsFull/Cap", func() { n, cp, e, f = s.r.Len(), s.r.Cap(), s.r.IsEmpty(), s.r.IsFull() }) {
		return false
	}
	if n != len(s.m) || cp != s.cap || e != (len(s.m) == 0) || f != (len(s.m) == s.cap) {
		s.c.Failf("syncring-observers", "after %s: Len=%d Cap=%d IsEmpty=%v IsFull=%v, model holds %d of %d", after, n, cp, e, f, len(s.m), s.cap)
		return false
	}
	if e {
		s.n[sSeenEmpty]++
	}
	if f {
		s.n[sSeenFull]++
	}
	return true
}

// Call variants. kind 3 is a timed wait (positive maxWait): with room / an element it
// must complete at once like the others; on a full / an empty ring nobody else can make
// room in a sequential history, so it must come back with false when the wait is over
// (the verdict is the result, never the time it took). Those expiring calls cost at
// least one 10 ms tick each, so a case has a budget for them (timedLeft); without
// budget the call is made with maxWait 0.
var (
	pushNames = [...]string{"Push", "PushWait(0)", "PushWait(-1)", "PushWait(+d)"}
	popNames  = [...]string{"Pop", "PopWait(0)", "PopWait(-1)", "PopWait(+d)"}
)

func (s *syncSut) waitFor(blocked bool) time.Duration {
	if blocked {
		return time.Duration(s.c.Rng.Pick(1, 1000, 1000000, 9000000))
	}
	return time.Duration(s.c.Rng.Pick(1, 1000, 1000000, 20000000))
}

// straddling: the tail counter has passed the boundary (2^32 or 2^31) and the head
// counter has not — computed from the seek position and the successful calls.
func (s *syncSut) straddling() bool {
	return s.boundary != 0 && s.headAbs < s.boundary && s.tailAbs >= s.boundary
}

func (s *syncSut) push(kind int) bool {
	v := s.next
	s.next++
	var ok bool
	full := len(s.m) == s.cap
	if kind == 2 && full {
		kind = 1 // a blocking push on a full ring would spin forever
	}
	if kind == 3 && full {
		if s.timedLeft == 0 {
			kind = 1
		} else {
			s.timedLeft--
		}
	}
	name := pushNames[kind]
	var d time.Duration
	if kind == 3 {
		d = s.waitFor(full)
	}
	if !s.c.Guard(name, func() {
		switch kind {
		case 0:
			ok = s.r.Push(v)
		case 1:
			ok = s.r.PushWait(v, 0)
		case 2:
			ok = s.r.PushWait(v, -1)
		default:
			ok = s.r.PushWait(v, d)
		}
	}) {
		return false
	}
	s.c.Logf("%s %d (maxWait %v) -> %v", name, v, d, ok)
	if ok != !full {
		s.c.Failf("syncring-push", "%s(%d) (maxWait %v) returned %v with %d of %d held", name, v, d, ok, len(s.m), s.cap)
		return false
	}
	if ok {
		s.m = append(s.m, v)
		s.pushOK[kind]++
		s.tailAbs++
	} else {
		s.pushRefused[kind]++
		if s.straddling() {
			s.n[sFullRefusedStraddling]++
		}
	}
	if s.straddling() {
		s.n[sOpsStraddling]++
	}
	s.hash = ev.Mix(s.hash, 1, uint64(kind))
	return s.observe(name)
}

func (s *syncSut) pop(kind int) bool {
	var v int
	var ok bool
	empty := len(s.m) == 0
	if kind == 2 && empty {
		kind = 1
	}
	if kind == 3 && empty {
		if s.timedLeft == 0 {
			kind = 1
		} else {
			s.timedLeft--
		}
	}
	name := popNames[kind]
	var d time.Duration
	if kind == 3 {
		d = s.waitFor(empty)
	}
	if !s.c.Guard(name, func() {
		switch kind {
		case 0:
			v, ok = s.r.Pop()
		case 1:
			v, ok = s.r.PopWait(0)
		case 2:
			v, ok = s.r.PopWait(-1)
		default:
			v, ok = s.r.PopWait(d)
		}
	}) {
		return false
	}
	s.c.Logf("%s (maxWait %v) -> (%d,%v)", name, d, v, ok)
	// the value that accompanies a failed Pop is not part of the statement
	if ok == empty || (ok && v != s.m[0]) {
		s.c.Failf("syncring-pop", "%s (maxWait %v) = (%d,%v), model content %v", name, d, v, ok, s.m)
		return false
	}
	if ok {
		s.m = s.m[1:]
		s.popOK[kind]++
		s.headAbs++
	} else {
		s.popRefused[kind]++
		if s.boundary != 0 && s.headAbs == s.boundary {
			s.n[sEmptyRefusedAtBoundary]++
		}
	}
	if s.straddling() {
		s.n[sOpsStraddling]++
	}
	s.hash = ev.Mix(s.hash, 2, uint64(kind))
	return s.observe(name)
}

const (
	sOpsStraddling = iota
	sFullRefusedStraddling
	sEmptyRefusedAtBoundary
	sSeenFull
	sSeenEmpty
	syncCounters
)

var syncCounterNames = [syncCounters]string{"ops_while_straddling", "full_refusals_while_straddling", "empty_refusals_at_the_boundary", "observed_full", "observed_empty"}

// flush adds what the case really did to the counters; prefix names the engine family
// ("syncring", "wrap_2^32", "wrap_2^31", "timed").
func (s *syncSut) flush(prefix string) {
	for k := range pushNames {
		if s.pushOK[k] != 0 {
			s.c.Add(prefix+"_ok/"+pushNames[k], s.pushOK[k])
		}
		if s.pushRefused[k] != 0 {
			s.c.Add(prefix+"_refused_full/"+pushNames[k], s.pushRefused[k])
		}
		if s.popOK[k] != 0 {
			s.c.Add(prefix+"_ok/"+popNames[k], s.popOK[k])
		}
		if s.popRefused[k] != 0 {
			s.c.Add(prefix+"_refused_empty/"+popNames[k], s.popRefused[k])
		}
	}
	for i, v := range s.n {
		if v != 0 {
			s.c.Add(prefix+"_"+syncCounterNames[i], v)
		}
	}
}

func wantCap(req int) int {
	c := 2
	for c < req {
		c *= 2
	}
	return c
}

func (s *syncSut) randomOps(n int) bool {
	rng := s.c.Rng
	for i := 0; i < n; i++ {
		ok := true
		switch p := rng.Intn(100); {
		case p < 45:
			ok = s.push(rng.Pick(0, 0, 0, 1, 2, 3))
		case p < 90:
			ok = s.pop(rng.Pick(0, 0, 0, 1, 2, 3))
		case p < 95:
			for len(s.m) < s.cap && ok {
				ok = s.push(0)
			}
			ok = ok && s.push(0)
		default:
			for len(s.m) > 0 && ok {
				ok = s.pop(0)
			}
			ok = ok && s.pop(0)
		}
		if !ok {
			return false
		}
	}
	return true
}

func syncCase(c *ev.Case) {
	rng := c.Rng
	req := rng.Range(1, 33)
	if c.Index < 70 {
		req = c.Index%35 + 1 // every requested capacity 1..35 at least twice
	}
	var r ringz.SyncRing[int]
	if !c.Guard("NewSync", func() { r = ringz.NewSync[int](req) }) {
		return
	}
	s := &syncSut{c: c, r: &r, cap: wantCap(req), next: 1, quietCase: rng.Chance(1, 3)}
	var got int
	c.Guard("Cap", func() { got = r.Cap() })
	c.Logf("NewSync(%d): Cap=%d", req, got)
	if got != s.cap {
		c.Failf("syncring-cap", "NewSync(%d).Cap() = %d, want the smallest power of two >= max(2, requested) = %d", req, got, s.cap)
		return
	}
	if !s.observe("NewSync") {
		return
	}
	if !s.randomOps(rng.Pick(30, 120, 400)) {
		return
	}
	s.quiet = 0
	if !s.observe("end of sequence") {
		return
	}
	s.flush("syncring")
	c.Add("syncring_sequences", 1)
	c.Distinct(ev.Mix(s.hash, uint64(req)))
	if c.WantSample() {
		c.Sample(fmt.Sprintf("syncring: requested %d -> Cap %d, random Push/Pop/PushWait/PopWait sequence against a slice model", req, s.cap))
	}
}

// bigCapCase: requested capacities around every power of two up to 2^20 (the
// rounding has to be right for all of them, not only for the small ones): Cap()
// must be the smallest power of two >= max(2, requested); the ring must accept
// exactly Cap() pushes, refuse the next one and return everything in order.
var bigCaps = func() []int {
	var out []int
	for k := 1; k <= 20; k++ {
		p := 1 << k
		for _, d := range []int{-1, 0, 1, 2} {
			if p+d >= 1 {
				out = append(out, p+d)
			}
		}
		out = append(out, p+p/2, p+p/2+1)
	}
	out = append(out, 65535, 65536, 65537, 65538, 98305, 131071, 131073, 131074, 196609, 262145, 1000000)
	return out
}()

func bigCapCase(c *ev.Case) {
	req := bigCaps[c.Index%len(bigCaps)]
	var r ringz.SyncRing[int]
	if !c.Guard("NewSync", func() { r = ringz.NewSync[int](req) }) {
		return
	}
	want := wantCap(req)
	got := 0
	c.Guard("Cap", func() { got = r.Cap() })
	c.Logf("NewSync(%d): Cap=%d", req, got)
	if got != want {
		c.Failf("syncring-cap", "NewSync(%d).Cap() = %d, want the smallest power of two >= max(2, requested) = %d", req, got, want)
		return
	}
	bad := ""
	c.Guard("fill/drain", func() {
		// a rotation first, so that the fill wraps around the buffer
		rot := c.Rng.Intn(want)
		if rot > 5000 {
			rot = 5000
		}
		for i := 0; i < rot; i++ {
			r.Push(-1)
			r.Pop()
		}
		for i := 0; i < want; i++ {
			if !r.Push(i) {
				bad = fmt.Sprintf("Push #%d failed on a ring holding %d of %d", i, i, want)
				return
			}
		}
		if r.Push(-5) || !r.IsFull() || r.Len() != want {
			bad = fmt.Sprintf("full ring of capacity %d accepted a push or misreports (Len=%d IsFull=%v)", want, r.Len(), r.IsFull())
			return
		}
		for i := 0; i < want; i++ {
			v, ok := r.Pop()
			if !ok || v != i {
				bad = fmt.Sprintf("Pop #%d = (%d,%v), want (%d,true)", i, v, ok, i)
				return
			}
		}
		if _, ok := r.Pop(); ok || !r.IsEmpty() || r.Len() != 0 {
			bad = fmt.Sprintf("drained ring misreports (Len=%d IsEmpty=%v)", r.Len(), r.IsEmpty())
		}
	})
	if bad != "" {
		c.Failf("syncring-bigcap", "NewSync(%d): %s", req, bad)
		return
	}
	c.Add("bigcap_cases", 1)
	c.Max("max_capacity_filled", int64(want))
	c.Distinct(ev.Mix(uint64(req), 4242))
	if c.WantSample() {
		c.Sample(fmt.Sprintf("bigcap: NewSync(%d) -> Cap %d, filled to capacity after a rotation, overflow refused, drained in order", req, want))
	}
}

// wrapCase: seek a fresh ring close below 2^32 (or 2^31) and run the model across the boundary.
func wrapCase(c *ev.Case) {
	rng := c.Rng
	req := rng.Pick(1, 2, 3, 4, 5, 8, 9, 16, 33)
	ok, why := ringseek.Usable(req)
	if !ok {
		c.Add("wrap_seek_unusable", 1)
		c.Logf("seek unusable: %s", why)
		return
	}
	var r ringz.SyncRing[int]
	cp := 0
	if !c.Guard("NewSync", func() { r = ringz.NewSync[int](req); cp = r.Cap() }) {
		return
	}
	base := uint64(1) << 32
	if rng.Chance(1, 4) {
		base = uint64(1) << 31
	}
	dist := rng.Intn(3*cp + 2)
	k := uint32(base - uint64(dist))
	ringseek.Seek(&r, k)
	s := &syncSut{c: c, r: &r, cap: cp, next: 1, boundary: base, headAbs: base - uint64(dist), tailAbs: base - uint64(dist)}
	c.Logf("NewSync(%d) seeked to position %d (%d below %d)", req, k, dist, base)
	if !s.observe("seek") {
		return
	}
	// standing fill then enough traffic to cross the boundary several ring lengths
	fill := rng.Intn(cp + 1)
	for i := 0; i < fill; i++ {
		if !s.push(0) {
			return
		}
	}
	// pushes on a full ring and pops on an empty one must fail at every
	// position, in particular while head and tail straddle the boundary
	bias := rng.Pick(35, 50, 65) // percentage of pushes: hovers near empty, mid, or full
	for i := 0; i < 10*cp+2*dist; i++ {
		if rng.Intn(100) < bias {
			if !s.push(rng.Pick(0, 1, 2, 3)) {
				return
			}
		} else if !s.pop(rng.Pick(0, 1, 2, 3)) {
			return
		}
	}
	if !s.randomOps(6 * cp) {
		return
	}
	if base == 1<<32 {
		s.flush("wrap_2^32")
	} else {
		s.flush("wrap_2^31")
	}
	st := ringseek.Read(&r)
	if base == 1<<32 && st.Tail < k && st.Head < k {
		c.Add("wrap_crossings_2^32", 1)
	} else if base == 1<<31 && st.Head >= 1<<31 {
		c.Add("wrap_crossings_2^31", 1)
	}
	c.Distinct(ev.Mix(s.hash, uint64(k), uint64(req)))
	if c.WantSample() {
		c.Sample(fmt.Sprintf("wrap: NewSync(%d) seeked to position %d, fill %d, traffic across %d; final head=%d tail=%d", req, k, fill, base, st.Head, st.Tail))
	}
}

// timedCase: the timed variants PushWait(v, d) / PopWait(d) with d > 0 in a sequential
// history. With room / an element they behave like Push / Pop; on a full / an empty ring
// they have to give up (nobody else can change the ring) and leave it as it was. Half of
// the cases run on a ring seeked to just below 2^32, so that the timed variants also
// work across the counter wrap. Every case makes both kinds of expiring call.
func timedCase(c *ev.Case) {
	rng := c.Rng
	req := rng.Range(1, 9)
	var r ringz.SyncRing[int]
	if !c.Guard("NewSync", func() { r = ringz.NewSync[int](req) }) {
		return
	}
	s := &syncSut{c: c, r: &r, cap: wantCap(req), next: 1, timedLeft: 4}
	seeked := false
	if ok, _ := ringseek.Usable(req); ok && rng.Bool() {
		dist := rng.Intn(2*s.cap + 1)
		ringseek.Seek(&r, uint32(1<<32-uint64(dist)))
		s.boundary, s.headAbs, s.tailAbs = 1<<32, 1<<32-uint64(dist), 1<<32-uint64(dist)
		seeked = true
		c.Logf("NewSync(%d) seeked to %d below 2^32", req, dist)
	}
	if !s.observe("NewSync") {
		return
	}
	// a timed pop on the empty ring runs out; timed pushes fill the ring; a timed push on the
	// full ring runs out; timed pops return everything in order
	if !s.pop(3) {
		return
	}
	for len(s.m) < s.cap {
		if !s.push(3) {
			return
		}
	}
	if !s.push(3) {
		return
	}
	for k := rng.Intn(s.cap + 1); k > 0; k-- {
		if !s.pop(3) {
			return
		}
	}
	// mixed traffic, mostly timed, hovering near full or near empty; two more expiring calls at most
	bias := rng.Pick(30, 50, 70)
	for i, n := 0, rng.Range(20, 80); i < n; i++ {
		if rng.Intn(100) < bias {
			if !s.push(rng.Pick(0, 1, 2, 3, 3, 3)) {
				return
			}
		} else if !s.pop(rng.Pick(0, 1, 2, 3, 3, 3)) {
			return
		}
	}
	for len(s.m) > 0 {
		if !s.pop(3) {
			return
		}
	}
	if !s.pop(1) {
		return
	}
	s.flush("timed")
	c.Add("timed_sequences", 1)
	if seeked {
		c.Add("timed_sequences_across_2^32", 1)
	}
	c.Distinct(ev.Mix(s.hash, uint64(req), 31337))
	if c.WantSample() {
		c.Sample(fmt.Sprintf("timed: NewSync(%d) (seeked below 2^32: %v), PopWait(d>0) on the empty ring, PushWait(v, d>0) until full and once more, then mixed traffic with timed calls against the slice model", req, seeked))
	}
}

// honestCase: really performs the pushes and pops. Thorough: more than 2^32 pairs.
var seekUsable, _ = ringseek.Usable(2)

func honestCase(c *ev.Case) {
	caps := []int{2, 4, 8, 2, 4, 8}
	req := caps[c.Index%len(caps)]
	var r ringz.SyncRing[int]
	cp := 0
	if !c.Guard("NewSync", func() { r = ringz.NewSync[int](req); cp = r.Cap() }) || cp <= 0 {
		return
	}
	fill := (c.Index * 3) % cp // standing fill level (never full, so every push must succeed)
	pairs := uint64(1) << 22
	if c.Thorough() || !seekUsable {
		// without a usable seek the honest run is the only way to the counter wrap: the
		// quick tier then pays the two minutes rather than drop the clause
		pairs = uint64(1)<<32 + uint64(1)<<20
	}
	c.Logf("honest run: cap %d standing fill %d, %d push/pop pairs", cp, fill, pairs)
	bad := ""
	c.Guard("honest-fill", func() {
		for i := 0; i < fill; i++ {
			if !r.Push(i) {
				bad = "Push failed while filling"
				return
			}
		}
	})
	if bad != "" {
		c.Failf("honest-push", "cap %d: %s", cp, bad)
		return
	}
	c.Guard("honest-loop", func() {
		for i := uint64(0); i < pairs; i++ {
			v := int(i) + fill
			if !r.Push(v) {
				bad = fmt.Sprintf("Push #%d failed on a ring holding %d of %d (Len()=%d)", i, fill, cp, r.Len())
				return
			}
			got, ok := r.Pop()
			if !ok || got != int(i) {
				bad = fmt.Sprintf("Pop #%d = (%d,%v), want (%d,true)", i, got, ok, i)
				return
			}
			// dense checks near the 2^32 boundary, sparse elsewhere
			if i&0xFFFFF == 0 || (i >= 1<<32-64 && i <= 1<<32+64) {
				if r.Len() != fill || r.IsEmpty() != (fill == 0) || r.IsFull() {
					bad = fmt.Sprintf("after pair #%d: Len=%d IsEmpty=%v IsFull=%v with %d of %d held", i, r.Len(), r.IsEmpty(), r.IsFull(), fill, cp)
					return
				}
				// fill to full, overflow must fail, drain back
				for j := fill; j < cp; j++ {
					if !r.Push(-1) {
						bad = fmt.Sprintf("after pair #%d: Push failed at %d of %d", i, j, cp)
						return
					}
				}
				if r.Push(-2) || !r.IsFull() || r.Len() != cp {
					bad = fmt.Sprintf("after pair #%d: full ring accepted a push or misreports (Len=%d IsFull=%v)", i, r.Len(), r.IsFull())
					return
				}
				// rotate cp steps while full-1, keeping order: pop old, push marker
				for j := 0; j < cp; j++ {
					r.Pop()
				}
				if !r.IsEmpty() || r.Len() != 0 {
					bad = fmt.Sprintf("after pair #%d: drained ring misreports (Len=%d)", i, r.Len())
					return
				}
				if _, ok := r.Pop(); ok {
					bad = fmt.Sprintf("after pair #%d: Pop succeeded on an empty ring", i)
					return
				}
				for j := 0; j < fill; j++ {
					r.Push(int(i) + 1 + j)
				}
			}
		}
	})
	if bad != "" {
		c.Failf("honest-run", "cap %d fill %d: %s", cp, fill, bad)
		return
	}
	c.Add("honest_pairs", int64(pairs))
	if pairs > 1<<32 {
		c.Add("honest_wraps", 1)
	}
	c.Distinct(ev.Mix(uint64(cp), uint64(fill), pairs))
	if c.WantSample() {
		c.Sample(fmt.Sprintf("honest: cap %d, standing fill %d, %d sequential push/pop pairs, full/empty probes every 2^20 pairs and densely around 2^32", cp, fill, pairs))
	}
}

const nTimedQuick = 320

func main() {
	r := ev.New("C10")
	r.Rule("ring/syncring: one case = seeded operation sequence compared with a slice model after every call (distinct = hash of the operation sequence); grid: the complete list capacity 1..6 x rotation (done with one element held, so that the content really moves around the buffer and wraps) x fill x new capacity -1..2cap+1 (+PushWithExpand); ring-bigcap: capacities around every power of two 16..65536, rotated, Recap/PushWithExpand, overflow, drain; timed: PushWait/PopWait with a positive wait, completing at once with room / an element and running out on a full / an empty ring (the verdict is the result, not the duration); wrap: SyncRing seeked (self-validated against honest rings) to just below 2^32 / 2^31 and driven across; honest: real push/pop pairs (thorough: more than 2^32 per ring)")
	r.Assume("values are distinct ints so FIFO order is observable")
	r.Assume("the seek writes private fields (head, tail, slot sequence) found by name; it is used only after it reproduced honest rings for k = 0..3cap+1, otherwise the wrap clause is reported as not covered")
	r.Cases("ring", r.N(40000, 2000000), ev.Opt{HangViolation: true}, ringCase)
	r.Cases("ring-grid", len(grid), ev.Opt{HangViolation: true}, gridCase)
	r.Cases("ring-bigcap", 2*len(ringBigCaps), ev.Opt{HangViolation: true}, ringBigCase)
	r.Cases("syncring", r.N(20000, 1000000), ev.Opt{HangViolation: true}, syncCase)
	// cold start: one fresh process per case
	r.CasesProc("cold-start/ring", 8, ev.Opt{Procs: 8, HangViolation: true}, ringCase)
	r.CasesProc("cold-start/syncring", 8, ev.Opt{Procs: 8, HangViolation: true}, syncCase)
	r.Cases("typed", r.N(4000, 80000), ev.Opt{HangViolation: true, MaxCaseSeconds: 60}, ringtyped.Case)
	// zero-size elements, capacities up to MaxInt (position + capacity overflows there)
	r.Cases("ring-huge-zero-size", r.N(560, 14000), ev.Opt{HangViolation: true, MaxCaseSeconds: 60}, ringtyped.HugeCase)
	r.Require("huge_ring_cases", 500)
	r.Require("huge_ring_recaps", 1500)
	r.Require("typed_nil_elements_popped", 2000)
	r.Require("typed_ring_sequences", 2000)
	r.Cases("syncring-bigcap", len(bigCaps), ev.Opt{HangViolation: true, Workers: 4}, bigCapCase)
	for _, p := range []string{"3", "5", "7"} {
		r.CasesProc("syncring-bigcap/P"+p, len(bigCaps), ev.Opt{Procs: 2, HangViolation: true, Env: []string{"GOMAXPROCS=" + p}}, bigCapCase)
	}
	r.Cases("syncring-wrap", r.N(20000, 1000000), ev.Opt{HangViolation: true}, wrapCase)
	// every case waits for four 10 ms ticks: many workers, they are idle most of the time
	r.Cases("syncring-timed", r.N(nTimedQuick, 4000), ev.Opt{HangViolation: true, Workers: 16, MaxCaseSeconds: 30}, timedCase)
	nh := 6
	if !r.Thorough() && !seekUsable {
		nh = 3 // each of them is then a full 2^32 run
	}
	r.Cases("syncring-honest", nh, ev.Opt{MaxCaseSeconds: 3000, NoRerun: true, AlwaysLog: true}, honestCase)
	// the same sequential workloads once under -race (checkptr on the reflection seek)
	r.CasesProc("syncring-wrap/checkptr", r.N(500, 5000), ev.Opt{Bin: "race", Procs: 4}, wrapCase)
	// private rings on parallel workers of a -race child: state shared between rings
	r.CasesProc("ring/race-parallel", r.N(800, 20000), ev.Opt{Bin: "race", Procs: 2, Workers: 8, AlwaysLog: true, HangViolation: true, MaxCaseSeconds: 120}, ringCase)
	r.CasesProc("syncring/race-parallel", r.N(800, 20000), ev.Opt{Bin: "race", Procs: 2, Workers: 8, AlwaysLog: true, HangViolation: true, MaxCaseSeconds: 120}, syncCase)
	r.Require("grid_points", int64(len(grid)))
	r.Require("ring_recaps_ok", 1000)
	r.Require("ring_expands", 1000)
	r.Require("syncring_sequences", 10000)
	// Ring: every outcome class of every call has been produced
	r.Require("ring_sequences", 30000)
	for _, k := range []string{"ring_push_ok", "ring_pop_ok", "ring_peek_ok"} {
		r.Require(k, 1000000)
	}
	for _, k := range []string{"ring_push_refused_full", "ring_pop_refused_empty", "ring_peek_refused_empty", "ring_observed_full", "ring_observed_empty", "ring_pushwithexpand_not_full"} {
		r.Require(k, 100000)
	}
	for _, k := range []string{"ring_recap_rejected_nonpositive", "ring_recap_rejected_same", "ring_recap_rejected_below_len", "ring_recap_shrink_ok", "ring_recap_grow_ok", "ring_reinits"} {
		r.Require(k, 10000)
	}
	r.Require("ring_recap_to_exactly_len_ok", 3000)
	r.Require("ringbig_cases", int64(2*len(ringBigCaps)))
	r.Require("ringbig_wrapped_contents", 50)
	if ringLayoutReadable {
		// head/tail readable: the wrapped layouts at the moment of Recap / expansion are counted
		gr, ge := gridWrapped()
		r.Require("grid_recap_on_wrapped_layout", gr)
		r.Require("grid_expand_on_wrapped_layout", ge)
		r.Require("ring_recap_on_wrapped_layout", 5000)
		r.Require("ring_expand_on_wrapped_layout", 5000)
		r.Require("ringbig_recap_on_wrapped_layout", 20)
		r.Require("ringbig_expand_on_wrapped_layout", 20)
	} else if !r.IsChild() {
		r.Add("ring_layout_counters_unavailable", 1)
	}
	// SyncRing: every call variant, succeeding and refused
	for k := range pushNames {
		r.Require("syncring_ok/"+pushNames[k], 50000)
		r.Require("syncring_ok/"+popNames[k], 50000)
	}
	for _, k := range []int{0, 1} {
		r.Require("syncring_refused_full/"+pushNames[k], 50000)
		r.Require("syncring_refused_empty/"+popNames[k], 50000)
	}
	r.Require("timed_sequences", int64(r.N(nTimedQuick, 4000)))
	r.Require("timed_ok/PushWait(+d)", 2000)
	r.Require("timed_ok/PopWait(+d)", 2000)
	r.Require("timed_refused_full/PushWait(+d)", int64(r.N(nTimedQuick, 4000)))
	r.Require("timed_refused_empty/PopWait(+d)", int64(r.N(nTimedQuick, 4000)))
	r.Require("quiet_windows_closed", 3000)
	r.Require("bigcap_cases", int64(len(bigCaps)))
	if r.Thorough() || !seekUsable {
		r.Require("honest_wraps", int64(nh))
	}
	if ok, why := ringseek.Usable(2); ok {
		r.Require("wrap_crossings_2^32", 5000)
		r.Require("wrap_crossings_2^31", 1500)
		for k := range pushNames {
			r.Require("wrap_2^32_ok/"+pushNames[k], 100000)
			r.Require("wrap_2^32_ok/"+popNames[k], 100000)
		}
		for _, k := range []int{0, 1} {
			r.Require("wrap_2^32_refused_full/"+pushNames[k], 50000)
			r.Require("wrap_2^32_refused_empty/"+popNames[k], 50000)
		}
		// full while the tail counter has wrapped and the head counter has not; empty exactly at 2^32
		r.Require("wrap_2^32_ops_while_straddling", 50000)
		r.Require("wrap_2^32_full_refusals_while_straddling", 10000)
		r.Require("wrap_2^32_empty_refusals_at_the_boundary", 1000)
		r.Require("wrap_2^31_full_refusals_while_straddling", 3000)
		r.Require("timed_sequences_across_2^32", int64(r.N(nTimedQuick, 4000)/5))
		r.Require("timed_full_refusals_while_straddling", 40)
	} else if !r.IsChild() {
		// representation changed: not an alarm; the quick tier then does not cover the wrap clause
		fmt.Println("note: counter seek unusable (" + why + "); the 2^32 wrap is covered by honest runs of more than 2^32 push/pop pairs instead (about two minutes)")
		r.Add("wrap_clause_covered_by_honest_runs_only", 1)
	}
	r.Finish()
}
