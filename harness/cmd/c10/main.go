// C10 — Ring/SyncRing are bounded FIFOs sequentially, across growth and counter wrap.
//
// Reference-model monitors (slice + capacity) over generated operation
// sequences, a complete grid of Recap / PushWithExpand layouts, and SyncRing
// runs across the 2^32 counter wrap (reached by a self-validating seek in the
// quick tier and honestly, by > 2^32 operations, in the thorough tier).
package main

import (
	"fmt"

	"github.com/welllog/golib/ringz"

	"verif/ev"
	"verif/ringseek"
	"verif/ringtyped"
)

// ---- Ring ----

type ringSut struct {
	c     *ev.Case
	r     *ringz.Ring[int]
	m     []int
	cap   int
	next  int
	hash  uint64
	wraps int
	// quiet > 0: no observer (Len/Cap/IsEmpty/IsFull/Peek) is called for that many
	// operations; the operations' own results are still compared
	quiet     int
	quietCase bool
}

func (s *ringSut) observe(after string) bool {
	c := s.c
	if s.quiet > 0 {
		s.quiet--
		c.Add("observations_deferred", 1)
		if s.quiet > 0 {
			return true
		}
		c.Add("quiet_windows_closed", 1)
	} else if s.quietCase && c.Rng.Chance(1, 10) {
		s.quiet = c.Rng.Range(2, 8)
		return true
	}
	var n, cp int
	var e, f bool
	var pv int
	var pok bool
	if !c.Guard("Len/IsEmpty/IsFull/Cap/Peek", func() {
		n, cp, e, f = s.r.Len(), s.r.Cap(), s.r.IsEmpty(), s.r.IsFull()
		pv, pok = s.r.Peek()
	}) {
		return false
	}
	if n != len(s.m) || cp != s.cap || e != (len(s.m) == 0) || f != (len(s.m) == s.cap) {
		c.Failf("ring-observers", "after %s: Len=%d Cap=%d IsEmpty=%v IsFull=%v, model holds %d of %d", after, n, cp, e, f, len(s.m), s.cap)
		return false
	}
	if pok != (len(s.m) > 0) || (pok && pv != s.m[0]) {
		c.Failf("ring-peek", "after %s: Peek=(%d,%v), model content %v", after, pv, pok, s.m)
		return false
	}
	return true
}

func (s *ringSut) push() bool {
	v := s.next
	s.next++
	var ok bool
	if !s.c.Guard("Push", func() { ok = s.r.Push(v) }) {
		return false
	}
	s.c.Logf("Push(%d) -> %v", v, ok)
	want := len(s.m) < s.cap
	if ok != want {
		s.c.Failf("ring-push", "Push(%d) returned %v with %d of %d held", v, ok, len(s.m), s.cap)
		return false
	}
	if ok {
		s.m = append(s.m, v)
	}
	s.hash = ev.Mix(s.hash, 1, uint64(v))
	return s.observe("Push")
}

func (s *ringSut) pop() bool {
	var v int
	var ok bool
	if !s.c.Guard("Pop", func() { v, ok = s.r.Pop() }) {
		return false
	}
	s.c.Logf("Pop() -> (%d,%v)", v, ok)
	if ok != (len(s.m) > 0) || (ok && v != s.m[0]) || (!ok && v != 0) {
		s.c.Failf("ring-pop", "Pop() = (%d,%v), model content %v", v, ok, s.m)
		return false
	}
	if ok {
		s.m = s.m[1:]
	}
	s.hash = ev.Mix(s.hash, 2)
	return s.observe("Pop")
}

func (s *ringSut) recap(n int) bool {
	var ok bool
	if !s.c.Guard("Recap", func() { ok = s.r.Recap(n) }) {
		return false
	}
	s.c.Logf("Recap(%d) -> %v", n, ok)
	want := n > 0 && n != s.cap && n >= len(s.m)
	if ok != want {
		s.c.Failf("ring-recap-result", "Recap(%d) returned %v with Cap=%d Len=%d", n, ok, s.cap, len(s.m))
		return false
	}
	if ok {
		s.cap = n
		s.c.Add("ring_recaps_ok", 1)
	} else {
		s.c.Add("ring_recaps_rejected", 1)
	}
	s.hash = ev.Mix(s.hash, 3, uint64(n))
	return s.observe(fmt.Sprintf("Recap(%d)", n))
}

func (s *ringSut) pushExpand() bool {
	v := s.next
	s.next++
	if !s.c.Guard("PushWithExpand", func() { s.r.PushWithExpand(v) }) {
		return false
	}
	s.c.Logf("PushWithExpand(%d)", v)
	if len(s.m) == s.cap {
		// the growth factor is not part of the property: any larger capacity is accepted
		nc := 0
		s.c.Guard("Cap", func() { nc = s.r.Cap() })
		if nc <= s.cap {
			s.c.Failf("ring-expand", "PushWithExpand on a full ring of capacity %d left Cap()=%d", s.cap, nc)
			return false
		}
		s.cap = nc
		s.c.Add("ring_expands", 1)
	}
	s.m = append(s.m, v)
	s.hash = ev.Mix(s.hash, 4, uint64(v))
	return s.observe("PushWithExpand")
}

// drainCheck pops everything and compares the order.
func (s *ringSut) drainCheck() bool {
	for len(s.m) > 0 {
		if !s.pop() {
			return false
		}
	}
	return s.pop() // one more: must fail
}

func ringCase(c *ev.Case) {
	rng := c.Rng
	cp := rng.Range(1, 8)
	var r ringz.Ring[int]
	if !c.Guard("New", func() { r = ringz.New[int](cp) }) {
		return
	}
	s := &ringSut{c: c, r: &r, cap: cp, next: 1, quietCase: rng.Chance(1, 3)}
	if !s.observe("New") {
		return
	}
	nops := rng.Pick(20, 60, 200)
	for i := 0; i < nops; i++ {
		p := rng.Intn(100)
		ok := true
		switch {
		case p < 38:
			ok = s.push()
		case p < 70:
			ok = s.pop()
		case p < 82:
			ok = s.recap(rng.Range(-1, 2*s.cap+1))
		case p < 92:
			ok = s.pushExpand()
		case p < 95:
			// Init re-initialises
			n := rng.Range(1, 8)
			ok = c.Guard("Init", func() { s.r.Init(n) })
			c.Logf("Init(%d)", n)
			s.m, s.cap = nil, n
			ok = ok && s.observe("Init")
		default:
			// run of pushes or pops to reach full / empty
			if rng.Bool() {
				for len(s.m) < s.cap && ok {
					ok = s.push()
				}
				ok = ok && s.push()
			} else {
				ok = s.drainCheck()
			}
		}
		if !ok {
			return
		}
	}
	s.quiet = 0
	if !s.observe("end of sequence") || !s.drainCheck() {
		return
	}
	c.Distinct(s.hash)
	if c.WantSample() {
		c.Sample(fmt.Sprintf("ring: start cap %d, %d operations (Push/Pop/Recap/PushWithExpand/Init), final cap %d", cp, nops, s.cap))
	}
}

// gridCase enumerates capacity x rotation x fill x new capacity for Recap, and
// capacity x rotation for PushWithExpand on a full ring: a complete list.
type gridPoint struct{ cap, rot, fill, ncap int }

var grid []gridPoint

func init() {
	for cp := 1; cp <= 6; cp++ {
		for rot := 0; rot < 2*cp; rot++ {
			for fill := 0; fill <= cp; fill++ {
				for ncap := -1; ncap <= 2*cp+1; ncap++ {
					grid = append(grid, gridPoint{cp, rot, fill, ncap})
				}
				grid = append(grid, gridPoint{cp, rot, fill, 1 << 20}) // marker: PushWithExpand
			}
		}
	}
}

func gridCase(c *ev.Case) {
	g := grid[c.Index]
	var r ringz.Ring[int]
	if !c.Guard("New", func() { r = ringz.New[int](g.cap) }) {
		return
	}
	s := &ringSut{c: c, r: &r, cap: g.cap, next: 1}
	c.Logf("grid point cap=%d rot=%d fill=%d ncap=%d", g.cap, g.rot, g.fill, g.ncap)
	for i := 0; i < g.rot; i++ {
		if !s.push() || !s.pop() {
			return
		}
	}
	for i := 0; i < g.fill; i++ {
		if !s.push() {
			return
		}
	}
	if g.ncap == 1<<20 {
		// PushWithExpand until the ring has grown twice
		for k := 0; k < 2*g.cap+2; k++ {
			if !s.pushExpand() {
				return
			}
		}
	} else {
		if !s.recap(g.ncap) {
			return
		}
		// the ring must keep working in the new layout: fill up, overflow, drain
		for len(s.m) < s.cap {
			if !s.push() {
				return
			}
		}
		if !s.push() {
			return
		}
	}
	if !s.drainCheck() {
		return
	}
	c.Add("grid_points", 1)
	c.Distinct(ev.Mix(uint64(g.cap), uint64(g.rot), uint64(g.fill), uint64(g.ncap+2)))
	if c.WantSample() {
		c.Sample(fmt.Sprintf("grid: cap=%d rotation=%d fill=%d new capacity=%d", g.cap, g.rot, g.fill, g.ncap))
	}
}

// ---- SyncRing ----

type syncSut struct {
	c         *ev.Case
	r         *ringz.SyncRing[int]
	m         []int
	cap       int
	next      int
	hash      uint64
	quiet     int
	quietCase bool
}

func (s *syncSut) observe(after string) bool {
	if s.quiet > 0 {
		s.quiet--
		s.c.Add("observations_deferred", 1)
		if s.quiet > 0 {
			return true
		}
		s.c.Add("quiet_windows_closed", 1)
	} else if s.quietCase && s.c.Rng.Chance(1, 10) {
		s.quiet = s.c.Rng.Range(2, 8)
		return true
	}
	var n, cp int
	var e, f bool
	if !s.c.Guard("Len/IsEmpty/IsFull/Cap", func() { n, cp, e, f = s.r.Len(), s.r.Cap(), s.r.IsEmpty(), s.r.IsFull() }) {
		return false
	}
	if n != len(s.m) || cp != s.cap || e != (len(s.m) == 0) || f != (len(s.m) == s.cap) {
		s.c.Failf("syncring-observers", "after %s: Len=%d Cap=%d IsEmpty=%v IsFull=%v, model holds %d of %d", after, n, cp, e, f, len(s.m), s.cap)
		return false
	}
	return true
}

func (s *syncSut) push(kind int) bool {
	v := s.next
	s.next++
	var ok bool
	name := [...]string{"Push", "PushWait(0)", "PushWait(-1)"}[kind]
	if kind == 2 && len(s.m) == s.cap {
		kind, name = 1, "PushWait(0)" // a blocking push on a full ring would spin forever
	}
	if !s.c.Guard(name, func() {
		switch kind {
		case 0:
			ok = s.r.Push(v)
		case 1:
			ok = s.r.PushWait(v, 0)
		default:
			ok = s.r.PushWait(v, -1)
		}
	}) {
		return false
	}
	s.c.Logf("%s %d -> %v", name, v, ok)
	if ok != (len(s.m) < s.cap) {
		s.c.Failf("syncring-push", "%s(%d) returned %v with %d of %d held", name, v, ok, len(s.m), s.cap)
		return false
	}
	if ok {
		s.m = append(s.m, v)
	}
	s.hash = ev.Mix(s.hash, 1, uint64(kind))
	return s.observe(name)
}

func (s *syncSut) pop(kind int) bool {
	var v int
	var ok bool
	name := [...]string{"Pop", "PopWait(0)", "PopWait(-1)"}[kind]
	if kind == 2 && len(s.m) == 0 {
		kind, name = 1, "PopWait(0)"
	}
	if !s.c.Guard(name, func() {
		switch kind {
		case 0:
			v, ok = s.r.Pop()
		case 1:
			v, ok = s.r.PopWait(0)
		default:
			v, ok = s.r.PopWait(-1)
		}
	}) {
		return false
	}
	s.c.Logf("%s -> (%d,%v)", name, v, ok)
	if ok != (len(s.m) > 0) || (ok && v != s.m[0]) || (!ok && v != 0) {
		s.c.Failf("syncring-pop", "%s = (%d,%v), model content %v", name, v, ok, s.m)
		return false
	}
	if ok {
		s.m = s.m[1:]
	}
	s.hash = ev.Mix(s.hash, 2, uint64(kind))
	return s.observe(name)
}

func wantCap(req int) int {
	c := 2
	for c < req {
		c *= 2
	}
	return c
}

func (s *syncSut) randomOps(n int) bool {
	rng := s.c.Rng
	for i := 0; i < n; i++ {
		ok := true
		switch p := rng.Intn(100); {
		case p < 45:
			ok = s.push(rng.Pick(0, 0, 0, 1, 2))
		case p < 90:
			ok = s.pop(rng.Pick(0, 0, 0, 1, 2))
		case p < 95:
			for len(s.m) < s.cap && ok {
				ok = s.push(0)
			}
			ok = ok && s.push(0)
		default:
			for len(s.m) > 0 && ok {
				ok = s.pop(0)
			}
			ok = ok && s.pop(0)
		}
		if !ok {
			return false
		}
	}
	return true
}

func syncCase(c *ev.Case) {
	rng := c.Rng
	req := rng.Range(1, 33)
	if c.Index < 70 {
		req = c.Index%35 + 1 // every requested capacity 1..35 at least twice
	}
	var r ringz.SyncRing[int]
	if !c.Guard("NewSync", func() { r = ringz.NewSync[int](req) }) {
		return
	}
	s := &syncSut{c: c, r: &r, cap: wantCap(req), next: 1, quietCase: rng.Chance(1, 3)}
	var got int
	c.Guard("Cap", func() { got = r.Cap() })
	c.Logf("NewSync(%d): Cap=%d", req, got)
	if got != s.cap {
		c.Failf("syncring-cap", "NewSync(%d).Cap() = %d, want the smallest power of two >= max(2, requested) = %d", req, got, s.cap)
		return
	}
	if !s.observe("NewSync") {
		return
	}
	if !s.randomOps(rng.Pick(30, 120, 400)) {
		return
	}
	s.quiet = 0
	if !s.observe("end of sequence") {
		return
	}
	c.Add("syncring_sequences", 1)
	c.Distinct(ev.Mix(s.hash, uint64(req)))
	if c.WantSample() {
		c.Sample(fmt.Sprintf("syncring: requested %d -> Cap %d, random Push/Pop/PushWait/PopWait sequence against a slice model", req, s.cap))
	}
}

// bigCapCase: requested capacities around every power of two up to 2^20 (the
// rounding has to be right for all of them, not only for the small ones): Cap()
// must be the smallest power of two >= max(2, requested); the ring must accept
// exactly Cap() pushes, refuse the next one and return everything in order.
var bigCaps = func() []int {
	var out []int
	for k := 1; k <= 20; k++ {
		p := 1 << k
		for _, d := range []int{-1, 0, 1, 2} {
			if p+d >= 1 {
				out = append(out, p+d)
			}
		}
		out = append(out, p+p/2, p+p/2+1)
	}
	out = append(out, 65535, 65536, 65537, 65538, 98305, 131071, 131073, 131074, 196609, 262145, 1000000)
	return out
}()

func bigCapCase(c *ev.Case) {
	req := bigCaps[c.Index%len(bigCaps)]
	var r ringz.SyncRing[int]
	if !c.Guard("NewSync", func() { r = ringz.NewSync[int](req) }) {
		return
	}
	want := wantCap(req)
	got := 0
	c.Guard("Cap", func() { got = r.Cap() })
	c.Logf("NewSync(%d): Cap=%d", req, got)
	if got != want {
		c.Failf("syncring-cap", "NewSync(%d).Cap() = %d, want the smallest power of two >= max(2, requested) = %d", req, got, want)
		return
	}
	bad := ""
	c.Guard("fill/drain", func() {
		// a rotation first, so that the fill wraps around the buffer
		rot := c.Rng.Intn(want)
		if rot > 5000 {
			rot = 5000
		}
		for i := 0; i < rot; i++ {
			r.Push(-1)
			r.Pop()
		}
		for i := 0; i < want; i++ {
			if !r.Push(i) {
				bad = fmt.Sprintf("Push #%d failed on a ring holding %d of %d", i, i, want)
				return
			}
		}
		if r.Push(-5) || !r.IsFull() || r.Len() != want {
			bad = fmt.Sprintf("full ring of capacity %d accepted a push or misreports (Len=%d IsFull=%v)", want, r.Len(), r.IsFull())
			return
		}
		for i := 0; i < want; i++ {
			v, ok := r.Pop()
			if !ok || v != i {
				bad = fmt.Sprintf("Pop #%d = (%d,%v), want (%d,true)", i, v, ok, i)
				return
			}
		}
		if _, ok := r.Pop(); ok || !r.IsEmpty() || r.Len() != 0 {
			bad = fmt.Sprintf("drained ring misreports (Len=%d IsEmpty=%v)", r.Len(), r.IsEmpty())
		}
	})
	if bad != "" {
		c.Failf("syncring-bigcap", "NewSync(%d): %s", req, bad)
		return
	}
	c.Add("bigcap_cases", 1)
	c.Max("max_capacity_filled", int64(want))
	c.Distinct(ev.Mix(uint64(req), 4242))
	if c.WantSample() {
		c.Sample(fmt.Sprintf("bigcap: NewSync(%d) -> Cap %d, filled to capacity after a rotation, overflow refused, drained in order", req, want))
	}
}

// wrapCase: seek a fresh ring close below 2^32 (or 2^31) and run the model across the boundary.
func wrapCase(c *ev.Case) {
	rng := c.Rng
	req := rng.Pick(1, 2, 3, 4, 5, 8, 9, 16, 33)
	ok, why := ringseek.Usable(req)
	if !ok {
		c.Add("wrap_seek_unusable", 1)
		c.Logf("seek unusable: %s", why)
		return
	}
	r := ringz.NewSync[int](req)
	cp := r.Cap()
	base := uint64(1) << 32
	if rng.Chance(1, 4) {
		base = uint64(1) << 31
	}
	dist := rng.Intn(3*cp + 2)
	k := uint32(base - uint64(dist))
	ringseek.Seek(&r, k)
	s := &syncSut{c: c, r: &r, cap: cp, next: 1}
	c.Logf("NewSync(%d) seeked to position %d (%d below %d)", req, k, dist, base)
	if !s.observe("seek") {
		return
	}
	// standing fill then enough traffic to cross the boundary several ring lengths
	fill := rng.Intn(cp + 1)
	for i := 0; i < fill; i++ {
		if !s.push(0) {
			return
		}
	}
	// pushes on a full ring and pops on an empty one must fail at every
	// position, in particular while head and tail straddle the boundary
	bias := rng.Pick(35, 50, 65) // percentage of pushes: hovers near empty, mid, or full
	for i := 0; i < 10*cp+2*dist; i++ {
		if rng.Intn(100) < bias {
			if !s.push(rng.Pick(0, 1, 2)) {
				return
			}
		} else if !s.pop(rng.Pick(0, 1, 2)) {
			return
		}
	}
	if !s.randomOps(6 * cp) {
		return
	}
	st := ringseek.Read(&r)
	if base == 1<<32 && st.Tail < k && st.Head < k {
		c.Add("wrap_crossings_2^32", 1)
	} else if base == 1<<31 && st.Head >= 1<<31 {
		c.Add("wrap_crossings_2^31", 1)
	}
	c.Distinct(ev.Mix(s.hash, uint64(k), uint64(req)))
	if c.WantSample() {
		c.Sample(fmt.Sprintf("wrap: NewSync(%d) seeked to position %d, fill %d, traffic across %d; final head=%d tail=%d", req, k, fill, base, st.Head, st.Tail))
	}
}

// honestCase: really performs the pushes and pops. Thorough: more than 2^32 pairs.
var seekUsable, _ = ringseek.Usable(2)

func honestCase(c *ev.Case) {
	caps := []int{2, 4, 8, 2, 4, 8}
	req := caps[c.Index%len(caps)]
	r := ringz.NewSync[int](req)
	cp := r.Cap()
	fill := (c.Index * 3) % cp // standing fill level (never full, so every push must succeed)
	pairs := uint64(1) << 22
	if c.Thorough() || !seekUsable {
		// without a usable seek the honest run is the only way to the counter wrap: the
		// quick tier then pays the two minutes rather than drop the clause
		pairs = uint64(1)<<32 + uint64(1)<<20
	}
	c.Logf("honest run: cap %d standing fill %d, %d push/pop pairs", cp, fill, pairs)
	for i := 0; i < fill; i++ {
		if !r.Push(i) {
			c.Failf("honest-push", "Push failed while filling")
			return
		}
	}
	bad := ""
	c.Guard("honest-loop", func() {
		for i := uint64(0); i < pairs; i++ {
			v := int(i) + fill
			if !r.Push(v) {
				bad = fmt.Sprintf("Push #%d failed on a ring holding %d of %d (Len()=%d)", i, fill, cp, r.Len())
				return
			}
			got, ok := r.Pop()
			if !ok || got != int(i) {
				bad = fmt.Sprintf("Pop #%d = (%d,%v), want (%d,true)", i, got, ok, i)
				return
			}
			// dense checks near the 2^32 boundary, sparse elsewhere
			if i&0xFFFFF == 0 || (i >= 1<<32-64 && i <= 1<<32+64) {
				if r.Len() != fill || r.IsEmpty() != (fill == 0) || r.IsFull() {
					bad = fmt.Sprintf("after pair #%d: Len=%d IsEmpty=%v IsFull=%v with %d of %d held", i, r.Len(), r.IsEmpty(), r.IsFull(), fill, cp)
					return
				}
				// fill to full, overflow must fail, drain back
				for j := fill; j < cp; j++ {
					if !r.Push(-1) {
						bad = fmt.Sprintf("after pair #%d: Push failed at %d of %d", i, j, cp)
						return
					}
				}
				if r.Push(-2) || !r.IsFull() || r.Len() != cp {
					bad = fmt.Sprintf("after pair #%d: full ring accepted a push or misreports (Len=%d IsFull=%v)", i, r.Len(), r.IsFull())
					return
				}
				// rotate cp steps while full-1, keeping order: pop old, push marker
				for j := 0; j < cp; j++ {
					r.Pop()
				}
				if !r.IsEmpty() || r.Len() != 0 {
					bad = fmt.Sprintf("after pair #%d: drained ring misreports (Len=%d)", i, r.Len())
					return
				}
				if _, ok := r.Pop(); ok {
					bad = fmt.Sprintf("after pair #%d: Pop succeeded on an empty ring", i)
					return
				}
				for j := 0; j < fill; j++ {
					r.Push(int(i) + 1 + j)
				}
			}
		}
	})
	if bad != "" {
		c.Failf("honest-run", "cap %d fill %d: %s", cp, fill, bad)
		return
	}
	c.Add("honest_pairs", int64(pairs))
	if pairs > 1<<32 {
		c.Add("honest_wraps", 1)
	}
	c.Distinct(ev.Mix(uint64(cp), uint64(fill), pairs))
	if c.WantSample() {
		c.Sample(fmt.Sprintf("honest: cap %d, standing fill %d, %d sequential push/pop pairs, full/empty probes every 2^20 pairs and densely around 2^32", cp, fill, pairs))
	}
}

func main() {
	r := ev.New("C10")
	r.Rule("ring/syncring: one case = seeded operation sequence compared with a slice model after every call (distinct = hash of the operation sequence); grid: the complete list capacity 1..6 x rotation x fill x new capacity -1..2cap+1 (+PushWithExpand); wrap: SyncRing seeked (self-validated against honest rings) to just below 2^32 / 2^31 and driven across; honest: real push/pop pairs (thorough: more than 2^32 per ring)")
	r.Assume("values are distinct ints so FIFO order is observable")
	r.Assume("the seek writes private fields (head, tail, slot sequence) found by name; it is used only after it reproduced honest rings for k = 0..3cap+1, otherwise the wrap clause is reported as not covered")
	r.Cases("ring", r.N(40000, 2000000), ev.Opt{HangViolation: true}, ringCase)
	r.Cases("ring-grid", len(grid), ev.Opt{HangViolation: true}, gridCase)
	r.Cases("syncring", r.N(20000, 1000000), ev.Opt{HangViolation: true}, syncCase)
	// cold start: one fresh process per case
	r.CasesProc("cold-start/ring", 8, ev.Opt{Procs: 8, HangViolation: true}, ringCase)
	r.CasesProc("cold-start/syncring", 8, ev.Opt{Procs: 8, HangViolation: true}, syncCase)
	r.Cases("typed", r.N(4000, 80000), ev.Opt{HangViolation: true, MaxCaseSeconds: 60}, ringtyped.Case)
	r.Require("typed_nil_elements_popped", 2000)
	r.Require("typed_ring_sequences", 2000)
	r.Cases("syncring-bigcap", len(bigCaps), ev.Opt{HangViolation: true, Workers: 4}, bigCapCase)
	for _, p := range []string{"3", "5", "7"} {
		r.CasesProc("syncring-bigcap/P"+p, len(bigCaps), ev.Opt{Procs: 2, HangViolation: true, Env: []string{"GOMAXPROCS=" + p}}, bigCapCase)
	}
	r.Cases("syncring-wrap", r.N(20000, 1000000), ev.Opt{HangViolation: true}, wrapCase)
	nh := 6
	if !r.Thorough() && !seekUsable {
		nh = 3 // each of them is then a full 2^32 run
	}
	r.Cases("syncring-honest", nh, ev.Opt{MaxCaseSeconds: 3000, NoRerun: true, AlwaysLog: true}, honestCase)
	// the same sequential workloads once under -race (checkptr on the reflection seek)
	r.CasesProc("syncring-wrap/checkptr", r.N(500, 5000), ev.Opt{Bin: "race", Procs: 4}, wrapCase)
	r.Require("grid_points", int64(len(grid)))
	r.Require("ring_recaps_ok", 1000)
	r.Require("ring_expands", 1000)
	r.Require("syncring_sequences", 10000)
	r.Require("quiet_windows_closed", 3000)
	r.Require("bigcap_cases", int64(len(bigCaps)))
	if r.Thorough() || !seekUsable {
		r.Require("honest_wraps", int64(nh))
	}
	if ok, why := ringseek.Usable(2); ok {
		r.Require("wrap_crossings_2^32", 5000)
	} else if !r.IsChild() {
		// representation changed: not an alarm; the quick tier then does not cover the wrap clause
		fmt.Println("note: counter seek unusable (" + why + "); the 2^32 wrap is covered by honest runs of more than 2^32 push/pop pairs instead (about two minutes)")
		r.Add("wrap_clause_covered_by_honest_runs_only", 1)
	}
	r.Finish()
}
