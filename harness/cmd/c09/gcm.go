package main

import (
	"bytes"
	"fmt"
	"sync"

	"verif/ev"
)

var nonHexOnce sync.Once

func gcmRegion(i, n int) string {
	switch {
	case i < 8:
		return "magic"
	case i < 16:
		return "salt"
	case i >= n-16:
		return "tag"
	}
	return "ct"
}

// mustReject runs both GCM decryption entry points on an altered message /
// secret / additional data and demands an error from each.
func gcmMustReject(c *ev.Case, t sut, sig string, what fmt.Stringer, msg, s, a []byte, rng *ev.Rand, textOverride []byte) bool {
	text := textOverride
	if text == nil {
		text = hexEncode(msg, rng.Chance(1, 4))
	}
	combo := rng.Intn(16)
	got, err, ok := t.gcmDecrypt(text, s, a, combo)
	if !ok {
		return false
	}
	c.Logf("GCMDecrypt%s(%s) -> %s, %s", comboStr(combo, true), what, q(got), errStr(err))
	if err == nil {
		c.Failf(sig, "GCMDecrypt%s accepted %s: text %s, secret %s, additional data %s -> %s, nil", comboStr(combo, true), what, q(text), q(s), q(a), q(got))
		return false
	}
	if msg == nil {
		return true
	}
	combo = rng.Intn(16)
	got, err, ok = t.rawGCMDec(msg, s, a, combo)
	if !ok {
		return false
	}
	c.Logf("SaltBySecretGCMDecrypt(reuse=%v)(%s) -> %s, %s", combo&1 != 0, what, q(got), errStr(err))
	if err == nil {
		c.Failf(sig, "SaltBySecretGCMDecrypt(reuse=%v) accepted %s: message %x, secret %s, additional data %s -> %s, nil", combo&1 != 0, what, msg, q(s), q(a), q(got))
		return false
	}
	return true
}

func gcmCase(c *ev.Case) {
	rng := c.Rng
	t := sut{c}
	p, s, a := genPlain(rng), genSecret(rng), genAD(rng)
	encCombo, decCombo := rng.Intn(16), rng.Intn(16)
	c.Distinct(ev.Mix(ev.HashString("gcm"), ev.HashBytes(p), ev.HashBytes(s), ev.HashBytes(a), uint64(encCombo), uint64(decCombo)))
	if len(s) == 0 {
		c.Add("empty_secret", 1)
	}
	if len(a) == 0 {
		c.Add("gcm_empty_ad", 1)
	}
	if len(p) == 0 {
		c.Add("gcm_empty_plaintext", 1)
	}

	ct, err, ok := t.gcmEncrypt(p, s, a, encCombo)
	if !ok {
		return
	}
	c.Logf("GCMEncrypt%s(%s, %s, %s) -> %s, %s", comboStr(encCombo, true), q(p), q(s), q(a), q(ct), errStr(err))
	if err != nil {
		c.Failf("enc-error", "GCMEncrypt%s(%s, %s, %s) returned %s", comboStr(encCombo, true), q(p), q(s), q(a), errStr(err))
		return
	}
	got, err, ok := t.gcmDecrypt(ct, s, a, decCombo)
	if !ok {
		return
	}
	c.Logf("GCMDecrypt%s(ct, secret, ad) -> %s, %s", comboStr(decCombo, true), q(got), errStr(err))
	if err != nil || !bytes.Equal(got, p) {
		c.Failf("gcm-round-trip", "GCMDecrypt%s(GCMEncrypt%s(%s, %s, %s)) = %s, %s", comboStr(decCombo, true), comboStr(encCombo, true), q(p), q(s), q(a), q(got), errStr(err))
		return
	}
	c.Add("gcm_round_trips", 1)

	// raw API round trip, reuse and copy
	rc := rng.Intn(16)
	raw2, err, ok := t.rawGCMEnc(p, s, a, rc)
	if !ok {
		return
	}
	if err != nil {
		c.Failf("enc-error", "SaltBySecretGCMEncrypt(%s, %s, %s) returned %s", q(p), q(s), q(a), errStr(err))
		return
	}
	for _, reuse := range []int{0, 1} {
		dc := rng.Intn(16)&^1 | reuse
		got, err, ok = t.rawGCMDec(raw2, s, a, dc)
		if !ok {
			return
		}
		c.Logf("SaltBySecretGCMDecrypt(raw, reuse=%v) -> %s, %s", reuse == 1, q(got), errStr(err))
		if err != nil || !bytes.Equal(got, p) {
			c.Failf("gcm-raw-round-trip", "SaltBySecretGCMDecrypt(SaltBySecretGCMEncrypt(%s, %s, %s), reuse=%v) = %s, %s", q(p), q(s), q(a), reuse == 1, q(got), errStr(err))
			return
		}
	}
	// the encoded form is the text form of the raw form: cross-decrypt
	got, err, ok = t.gcmDecrypt(hexEncode(raw2, rng.Bool()), s, a, rng.Intn(16))
	if !ok {
		return
	}
	if err != nil || !bytes.Equal(got, p) {
		c.Add("gcm_text_is_not_hex_of_raw", 1) // not promised by the statement: coverage only
	}

	// decode the message to alter its bytes
	msg, isHex := refHexDecode(ct)
	if !isHex {
		c.Add("gcm_output_not_hex", 1)
		nonHexOnce.Do(func() {
			c.Run().Inconclusive("GCMEncrypt output is not hexadecimal: the byte-level tamper sweep cannot decode it")
		})
		return
	}
	n := len(msg)
	c.Max("max_gcm_message_len", int64(n))

	// 3a. every byte of magic, salt, ciphertext and tag altered
	for i := 0; i < n; i++ {
		reg := gcmRegion(i, n)
		nvar := 1
		if i < 16 || i >= n-16 || rng.Chance(1, 6) {
			nvar = 2
		}
		for v := 0; v < nvar; v++ {
			mut := append([]byte{}, msg...)
			if v == 0 {
				mut[i] ^= 1 << uint(rng.Intn(8))
			} else {
				mut[i] ^= byte(1 + rng.Intn(255))
			}
			if !gcmMustReject(c, t, "gcm-tamper/"+reg, lz("a message whose byte %d of %d (%s) was changed %#02x->%#02x", i, n, reg, msg[i], mut[i]),
				mut, s, a, rng, nil) {
				return
			}
			c.Add("gcm_tampered_bytes", 1)
			c.Add("gcm_tamper_"+reg, 1)
		}
	}
	// a few full 8-bit sweeps on boundary bytes
	for _, i := range []int{0, 7, 8, 15, 16, n - 17, n - 16, n - 1} {
		if i < 0 || i >= n {
			continue
		}
		for bit := 0; bit < 8; bit++ {
			mut := append([]byte{}, msg...)
			mut[i] ^= 1 << uint(bit)
			reg := gcmRegion(i, n)
			if !gcmMustReject(c, t, "gcm-tamper/"+reg, lz("a message with bit %d of byte %d of %d (%s) flipped", bit, i, n, reg), mut, s, a, rng, nil) {
				return
			}
			c.Add("gcm_tampered_bytes", 1)
			c.Add("gcm_tamper_"+reg, 1)
		}
	}

	// 3b. single-character corruption of the hex text (value-changing or non-hex)
	for k := 0; k < 12; k++ {
		i := rng.Intn(len(ct))
		mut := append([]byte{}, ct...)
		var ch byte
		if rng.Chance(1, 3) {
			ch = byte(rng.Pick('g', 'G', ' ', '=', 0, 0x80, 'x', '\n', '-'))
		} else {
			ch = "0123456789abcdefABCDEF"[rng.Intn(22)]
		}
		if hexVal(ch) >= 0 && hexVal(ch) == hexVal(ct[i]) {
			continue // same value in another letter case: not a different byte
		}
		mut[i] = ch
		if !gcmMustReject(c, t, "gcm-tamper/text", lz("a text whose character %d was changed %q->%q", i, ct[i], ch), nil, s, a, rng, mut) {
			return
		}
		c.Add("gcm_char_corruptions", 1)
	}

	// 3b'. complete sweep: at a few positions of the text every one of the 255 other
	// byte values (control characters, bytes that differ from a hex digit in one
	// bit, non-ASCII, ...) must be rejected, unless it is the same hex digit in
	// the other letter case
	for k := 0; k < 3; k++ {
		i := rng.Intn(len(ct))
		if k == 0 {
			i = rng.Intn(min(len(ct), 32)) // magic / salt
		}
		for v := 0; v < 256; v++ {
			ch := byte(v)
			if ch == ct[i] || (hexVal(ch) >= 0 && hexVal(ch) == hexVal(ct[i])) {
				continue
			}
			mut := append([]byte{}, ct...)
			mut[i] = ch
			if !gcmMustReject(c, t, "gcm-tamper/text", lz("a text whose character %d was changed %q->%q", i, ct[i], ch), nil, s, a, rng, mut) {
				return
			}
		}
		c.Add("gcm_char_positions_swept_all_values", 1)
	}

	// 3c. secret altered, additional data altered, the two swapped
	for k := 0; k < 3; k++ {
		s2, how := differentBytes(rng, s)
		if !gcmMustReject(c, t, "gcm-secret", lz("the genuine message under an altered secret (%s)", how), msg, s2, a, rng, nil) {
			return
		}
		c.Add("gcm_secret_altered", 1)
		a2, how2 := differentBytes(rng, a)
		if !gcmMustReject(c, t, "gcm-ad", lz("the genuine message with altered additional data (%s)", how2), msg, s, a2, rng, nil) {
			return
		}
		c.Add("gcm_ad_altered", 1)
	}
	if !bytes.Equal(s, a) {
		if !gcmMustReject(c, t, "gcm-secret", lz("the genuine message with secret and additional data swapped"), msg, a, s, rng, nil) {
			return
		}
	}

	// 5. truncations: every prefix of the text, every prefix / suffix of the message, extensions
	for L := 0; L < len(ct); L++ {
		if len(ct) > 200 && L > 70 && L%2 == 1 && !rng.Chance(1, 4) {
			continue
		}
		if !gcmMustReject(c, t, "gcm-truncated", lz("the first %d of %d characters of a valid text", L, len(ct)), nil, s, a, rng, ct[:L]) {
			return
		}
		c.Add("gcm_truncations", 1)
	}
	for L := 0; L < n; L++ {
		if n > 100 && L > 40 && !rng.Chance(1, 3) {
			continue
		}
		if !gcmMustReject(c, t, "gcm-truncated", lz("the first %d of %d message bytes", L, n), msg[:L], s, a, rng, nil) {
			return
		}
		c.Add("gcm_truncations", 1)
	}
	for _, d := range []int{1, 8, 16, 17} {
		if d < n {
			if !gcmMustReject(c, t, "gcm-truncated", lz("the message without its first %d bytes", d), msg[d:], s, a, rng, nil) {
				return
			}
		}
		ext := append(append([]byte{}, msg...), rng.Bytes(d)...)
		if !gcmMustReject(c, t, "gcm-extended", lz("the message with %d bytes appended", d), ext, s, a, rng, nil) {
			return
		}
		c.Add("gcm_extensions", 1)
	}
	// characters added to the valid text
	for _, extra := range []string{"0", "g", "00", "0g", " ", "\n", "\x00"} {
		for side := 0; side < 2; side++ {
			var mut []byte
			if side == 0 {
				mut = append(append([]byte{}, ct...), extra...)
			} else {
				mut = append([]byte(extra), ct...)
			}
			if extra == " " || extra == "\n" {
				// blank space / a line end around an otherwise untouched text: no byte of
				// magic, salt, ciphertext or tag differs, and the statement does not say
				// whether surrounding white space belongs to the encoded message. Rejecting
				// it is fine; accepting it is fine only with the right plaintext.
				combo := rng.Intn(16)
				got, err, ok := t.gcmDecrypt(mut, s, a, combo)
				if !ok {
					return
				}
				c.Logf("GCMDecrypt%s(valid text with %q added at side %d) -> %s, %s", comboStr(combo, true), extra, side, q(got), errStr(err))
				if err == nil && !bytes.Equal(got, p) {
					c.Failf("gcm-extended", "GCMDecrypt%s returned %s, nil on a valid text for %s with %q added at the %s", comboStr(combo, true), q(got), q(p), extra, []string{"end", "front"}[side])
					return
				}
				if err == nil {
					c.Add("gcm_text_space_extension_tolerated", 1)
				}
				c.Add("gcm_extensions", 1)
				continue
			}
			if !gcmMustReject(c, t, "gcm-extended", lz("a valid text with %q added at the %s", extra, []string{"end", "front"}[side]), nil, s, a, rng, mut) {
				return
			}
			c.Add("gcm_extensions", 1)
		}
	}
	// message body removed between salt and tag (only header + tag stay)
	if len(p) > 0 && n >= 32 {
		cut := append(append([]byte{}, msg[:16]...), msg[n-16:]...)
		if !gcmMustReject(c, t, "gcm-truncated", lz("header + tag with the ciphertext removed"), cut, s, a, rng, nil) {
			return
		}
	}
	if c.WantSample() {
		c.Sample(fmt.Sprintf("GCMEncrypt%s(%s, %s, ad %s) -> %s; all %d message bytes altered, secret/AD altered, all %d truncations: every one rejected",
			comboStr(encCombo, true), q(p), q(s), q(a), q(ct), n, len(ct)+n))
	}
}
