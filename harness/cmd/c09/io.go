package main

// Scripted io.Reader / io.Writer implementations. Every behaviour here is
// permitted by the io.Reader / io.Writer contracts: short reads, (0, nil)
// reads, data returned together with io.EOF, use of the unread tail of the
// caller's buffer as scratch space, sticky errors; writers always consume the
// whole slice unless they return an error.

import (
	"bufio"
	"bytes"
	"errors"
	"fmt"
	"io"
	"os"
	"strings"
	"testing/iotest"

	"verif/ev"
)

var (
	errInjected = errors.New("injected I/O fault")
	errRunaway  = errors.New("harness: call bound exceeded")
)

// sreader delivers data according to a chunk script.
type sreader struct {
	data        []byte
	pos         int
	lead        []int // explicit sizes of the first data reads
	li          int
	steady      int // >0 fixed chunk, 0 whole buffer, <0 random 1..-steady
	rng         *ev.Rand
	zeroPct     int // chance (percent) of a (0, nil) read before a data read
	zeros       int
	eofWithData bool
	scribble    bool
	failAt      int // -1: none; otherwise min(failAt, len(data)) bytes are delivered, then errInjected
	failWith    bool
	zeroReads   int
	eofData     int
}

func (r *sreader) Read(p []byte) (int, error) {
	if len(p) == 0 {
		return 0, nil
	}
	limit := len(r.data)
	if r.failAt >= 0 && r.failAt < limit {
		limit = r.failAt
	}
	if r.pos >= limit {
		if r.failAt >= 0 {
			return 0, errInjected
		}
		return 0, io.EOF
	}
	if r.zeroPct > 0 && r.zeros < 2 && r.rng.Intn(100) < r.zeroPct {
		r.zeros++
		r.zeroReads++
		return 0, nil
	}
	r.zeros = 0
	want := len(p)
	switch {
	case r.li < len(r.lead):
		want = r.lead[r.li]
		r.li++
	case r.steady > 0:
		want = r.steady
	case r.steady < 0:
		want = 1 + r.rng.Intn(-r.steady)
	}
	if want < 1 {
		want = 1
	}
	n := want
	if n > len(p) {
		n = len(p)
	}
	if n > limit-r.pos {
		n = limit - r.pos
	}
	copy(p, r.data[r.pos:r.pos+n])
	r.pos += n
	if r.scribble {
		for i := n; i < len(p); i++ {
			p[i] = 0xA5
		}
	}
	if r.pos == limit {
		if r.failAt >= 0 && r.failWith {
			return n, errInjected
		}
		if r.failAt < 0 && r.eofWithData {
			r.eofData++
			return n, io.EOF
		}
	}
	return n, nil
}

// wtReader adds a WriteTo that pushes the rest of the data in fixed pieces.
type wtReader struct {
	*sreader
	piece int
}

func (w wtReader) WriteTo(dst io.Writer) (int64, error) {
	var total int64
	for w.pos < len(w.data) {
		n := w.piece
		if n > len(w.data)-w.pos {
			n = len(w.data) - w.pos
		}
		chunk := append([]byte(nil), w.data[w.pos:w.pos+n]...)
		m, err := dst.Write(chunk)
		if m < 0 || m > n {
			m = n
		}
		w.pos += m
		total += int64(m)
		if err != nil {
			return total, err
		}
		if m != n {
			return total, io.ErrShortWrite
		}
	}
	return total, nil
}

// spy bounds and observes the Read calls golib makes.
type spy struct {
	in       io.Reader
	calls    int
	max      int
	seen     bool
	firstN   int
	firstErr error
	firstBuf int
	runaway  bool
	got      int
}

func (s *spy) Read(p []byte) (int, error) {
	s.calls++
	if s.calls > s.max {
		s.runaway = true
		return 0, errRunaway
	}
	n, err := s.in.Read(p)
	if !s.seen {
		s.seen = true
		s.firstN, s.firstErr, s.firstBuf = n, err, len(p)
	}
	if n > 0 {
		s.got += n
	}
	return n, err
}

type spyWT struct{ *spy }

func (s spyWT) WriteTo(w io.Writer) (int64, error) {
	s.calls++
	return s.in.(io.WriterTo).WriteTo(w)
}

// headerClean: the first Read handed over at least 16 bytes with a nil error.
func (s *spy) headerClean() bool { return s.seen && s.firstN >= 16 && s.firstErr == nil }

type readerPlan struct {
	kind        int
	chunk       int
	lead        []int
	zeroPct     int
	eofWithData bool
	scribble    bool
	failAt      int
	failWith    bool
	desc        string
}

// kinds 14..21 are handed to golib as they are (no spy around them): standard
// library readers whose optional methods (Size, Len, Seek, Stat, N, Buffered)
// describe more, or something else, than the bytes that are still to come.
const nReaderKinds = 22

var fixedChunks = []int{1, 2, 3, 7, 8, 15, 16, 17, 31, 32, 33, 64}

// planReader draws a reader behaviour; fault = -1 for a healthy reader.
func planReader(rng *ev.Rand, total int, fault int) readerPlan {
	p := readerPlan{failAt: fault}
	p.kind = rng.Intn(nReaderKinds)
	if fault >= 0 {
		p.kind = 4 + rng.Intn(4) // faults need a scripted reader
	}
	switch p.kind {
	case 4:
		p.chunk = fixedChunks[rng.Intn(len(fixedChunks))]
	case 5:
		p.chunk = -rng.Pick(2, 5, 20, 40)
	case 6: // header split k / 16-k, then whole
		k := rng.Range(1, 15)
		p.lead = []int{k, 16 - k}
		p.chunk = rng.Pick(0, 1, 16, -9)
	case 7: // header boundary patterns
		p.lead = leadPatterns[rng.Intn(len(leadPatterns))]
		p.chunk = rng.Pick(0, 16, 17, -30)
	case 11:
		p.chunk = fixedChunks[rng.Intn(len(fixedChunks))]
	case 12:
		p.chunk = rng.Pick(16, 17, 64)
	case 13:
		p.eofWithData = true
	case 14, 15, 16, 17, 18, 19, 20:
		p.chunk = rng.Pick(1, 2, 7, 16, 17, 40, 300)
	}
	if p.kind >= 4 && p.kind <= 7 {
		if rng.Chance(1, 3) {
			p.zeroPct = rng.Pick(10, 30, 60)
		}
		if rng.Chance(1, 2) {
			p.eofWithData = true
		}
		if rng.Chance(1, 3) {
			p.scribble = true
		}
		if fault >= 0 {
			p.failWith = rng.Bool()
		}
	}
	return p
}

var leadPatterns = [][]int{{8, 8}, {16}, {17}, {15, 1, 1}, {1, 1, 1, 1, 1, 1, 1, 1, 8}, {16, 1, 15, 16, 17}}

// String describes the behaviour (rendered only for witnesses and samples).
func (p readerPlan) String() string {
	if p.desc != "" {
		return p.desc
	}
	d := ""
	switch p.kind {
	case 0:
		d = "bytes.Reader"
	case 1:
		d = "bytes.Buffer"
	case 2:
		d = "strings.Reader"
	case 3:
		d = "bytes.Reader without WriterTo"
	case 4:
		d = fmt.Sprintf("scripted chunk=%d", p.chunk)
	case 5:
		d = fmt.Sprintf("scripted random chunk 1..%d", -p.chunk)
	case 6, 7:
		d = fmt.Sprintf("scripted lead=%v then chunk=%d", p.lead, p.chunk)
	case 8:
		d = "iotest.OneByteReader"
	case 9:
		d = "iotest.HalfReader"
	case 10:
		d = "iotest.DataErrReader"
	case 11:
		d = fmt.Sprintf("custom WriterTo piece=%d (Read whole)", p.chunk)
	case 12:
		d = fmt.Sprintf("bufio.Reader size=%d over scripted chunk 5", p.chunk)
	case 14:
		d = fmt.Sprintf("raw *bytes.Reader, %d-byte prefix already consumed", p.chunk)
	case 15:
		d = fmt.Sprintf("raw *strings.Reader, %d-byte prefix already consumed", p.chunk)
	case 16:
		d = fmt.Sprintf("raw *bytes.Buffer, %d-byte prefix already consumed", p.chunk)
	case 17:
		d = fmt.Sprintf("raw *io.SectionReader positioned %d bytes into its section", p.chunk)
	case 18:
		d = fmt.Sprintf("raw *os.File positioned at offset %d, more bytes behind the data only if limited", p.chunk)
	case 19:
		d = fmt.Sprintf("raw *io.LimitedReader over a reader that holds %d more bytes", p.chunk)
	case 20:
		d = fmt.Sprintf("raw *bufio.Reader with %d bytes already taken out of its buffer", p.chunk)
	case 21:
		d = "raw *bytes.Reader, untouched"
	default:
		d = "scripted whole buffer, EOF with data"
	}
	if p.kind >= 4 && p.kind <= 7 {
		d += fmt.Sprintf(" zero%%=%d eofWithData=%v scribble=%v", p.zeroPct, p.eofWithData, p.scribble)
		if p.failAt >= 0 {
			d += fmt.Sprintf(" FAIL after %d bytes (with data=%v)", p.failAt, p.failWith)
		}
	}
	return d
}

// build instantiates the plan over data; the returned spy observes the calls.
func (p readerPlan) build(data []byte, rng *ev.Rand) (io.Reader, *spy, *sreader) {
	var in io.Reader
	var sr *sreader
	own := rng.Fork() // the script's own stream: golib's read pattern does not shift the rest of the case
	mk := func() *sreader {
		return &sreader{data: append([]byte{}, data...), lead: p.lead, steady: p.chunk, rng: own, zeroPct: p.zeroPct,
			eofWithData: p.eofWithData, scribble: p.scribble, failAt: p.failAt, failWith: p.failWith}
	}
	hasWT := false
	switch p.kind {
	case 0:
		in, hasWT = bytes.NewReader(append([]byte{}, data...)), true
	case 1:
		in, hasWT = bytes.NewBuffer(append([]byte{}, data...)), true
	case 2:
		in, hasWT = strings.NewReader(string(data)), true
	case 3:
		in = struct{ io.Reader }{bytes.NewReader(append([]byte{}, data...))}
	case 4, 5, 6, 7, 13:
		sr = mk()
		in = sr
	case 8:
		in = iotest.OneByteReader(bytes.NewReader(append([]byte{}, data...)))
	case 9:
		in = iotest.HalfReader(bytes.NewReader(append([]byte{}, data...)))
	case 10:
		in = iotest.DataErrReader(bytes.NewReader(append([]byte{}, data...)))
	case 11:
		sr = mk()
		sr.steady = 0
		in, hasWT = wtReader{sreader: sr, piece: p.chunk}, true
	case 12:
		sr = mk()
		sr.steady = 5
		in, hasWT = bufio.NewReaderSize(sr, p.chunk), true
	}
	if p.kind >= 14 {
		// not observed: a spy would hide the concrete type and its optional methods
		return rawReader(p.kind, p.chunk, data, own), &spy{seen: true, firstN: 16, max: 1 << 30}, nil
	}
	s := &spy{in: in, max: 8*len(data) + 256}
	if hasWT {
		return spyWT{s}, s, sr
	}
	return s, s, sr
}

// rawReader: a standard-library reader in a state in which what remains to be
// read is exactly data, although its other methods speak of more.
func rawReader(kind, k int, data []byte, rng *ev.Rand) io.Reader {
	pre := rng.Bytes(k)
	all := append(append([]byte{}, pre...), data...)
	skip := func(r io.Reader) {
		if _, err := io.ReadFull(r, make([]byte, k)); err != nil {
			panic("harness: cannot consume the prefix: " + err.Error())
		}
	}
	switch kind {
	case 14:
		r := bytes.NewReader(all)
		skip(r)
		return r
	case 15:
		r := strings.NewReader(string(all))
		skip(r)
		return r
	case 16:
		r := bytes.NewBuffer(all)
		skip(r)
		return r
	case 17:
		// the section is pre+data inside a larger ReaderAt, read position after pre
		back := append(append(rng.Bytes(5), all...), rng.Bytes(9)...)
		r := io.NewSectionReader(bytes.NewReader(back), 5, int64(len(all)))
		if _, err := r.Seek(int64(k), io.SeekStart); err != nil {
			panic("harness: " + err.Error())
		}
		return r
	case 18:
		f, err := os.CreateTemp(os.Getenv("VERIF_SCRATCH"), "c09-file-*")
		if err != nil {
			panic("harness: " + err.Error())
		}
		os.Remove(f.Name())
		if _, err := f.Write(all); err != nil {
			panic("harness: " + err.Error())
		}
		if _, err := f.Seek(int64(k), io.SeekStart); err != nil {
			panic("harness: " + err.Error())
		}
		return f // unlinked already; the descriptor is closed by os.File's finalizer once the case has dropped it
	case 19:
		return &io.LimitedReader{R: bytes.NewReader(append(append([]byte{}, data...), pre...)), N: int64(len(data))}
	case 20:
		r := bufio.NewReaderSize(struct{ io.Reader }{bytes.NewReader(all)}, 64)
		skip(r)
		return r
	default:
		return bytes.NewReader(append([]byte{}, data...))
	}
}

// swriter collects what golib writes.
type swriter struct {
	buf     []byte
	piece   int // internal copy granularity (0: whole)
	failAt  int // -1: none; byte offset failAt is the first one that cannot be written
	sticky  bool
	failed  bool
	tripped bool
	calls   int
	maxLen  int
	runaway bool
	maxCall int
}

func (w *swriter) Write(p []byte) (int, error) {
	w.calls++
	if w.runaway || len(w.buf)+len(p) > w.maxLen || w.calls > w.maxCall {
		w.runaway = true
		return 0, errRunaway
	}
	if w.failed && w.sticky {
		return 0, errInjected
	}
	room := len(p)
	fail := false
	if w.failAt >= 0 && !w.tripped && len(w.buf)+len(p) > w.failAt {
		room = w.failAt - len(w.buf)
		if room < 0 {
			room = 0
		}
		fail = true
	}
	q := p[:room]
	if w.piece > 0 {
		for len(q) > 0 {
			n := w.piece
			if n > len(q) {
				n = len(q)
			}
			w.buf = append(w.buf, q[:n]...)
			q = q[n:]
		}
	} else {
		w.buf = append(w.buf, q...)
	}
	if fail {
		w.failed, w.tripped = true, true
		return room, errInjected
	}
	return len(p), nil
}

// rfWriter additionally offers ReadFrom with its own (odd) buffer size, so the
// source is pulled with reads of that size.
type rfWriter struct {
	*swriter
	bufSize int
}

func (w rfWriter) ReadFrom(src io.Reader) (int64, error) {
	buf := make([]byte, w.bufSize)
	var total int64
	for i := 0; ; i++ {
		if i > w.maxCall {
			w.runaway = true
			return total, errRunaway
		}
		n, err := src.Read(buf)
		if n < 0 || n > len(buf) {
			return total, fmt.Errorf("harness: source returned n=%d for a %d-byte buffer", n, len(buf))
		}
		if n > 0 {
			m, werr := w.swriter.Write(buf[:n])
			total += int64(m)
			if werr != nil {
				return total, werr
			}
		}
		if err == io.EOF {
			return total, nil
		}
		if err != nil {
			return total, err
		}
	}
}

type writerPlan struct {
	kind    int
	piece   int
	bufSize int
	failAt  int
	sticky  bool
}

// planWriter draws a writer behaviour; fault = -1 for a healthy writer.
func planWriter(rng *ev.Rand, fault int) writerPlan {
	p := writerPlan{failAt: fault, kind: rng.Intn(nWriterKinds)}
	if fault >= 0 {
		p.kind = 1 + rng.Intn(3) // the fault must be seen by golib's own Write call: no buffering layer
	}
	switch p.kind {
	case 2:
		p.piece = rng.Pick(1, 2, 3, 7, 16)
	case 3:
		p.bufSize = rng.Pick(1, 2, 7, 15, 16, 17, 33, 512)
	case 5, 6, 7, 8:
		p.piece = rng.Pick(0, 1, 5, 16, 100) // bytes the destination already holds
	}
	if fault >= 0 {
		p.sticky = rng.Bool()
	}
	return p
}

func (p writerPlan) String() string {
	d := ""
	switch p.kind {
	case 0:
		d = "bytes.Buffer (ReaderFrom)"
	case 1:
		d = "plain writer"
	case 2:
		d = fmt.Sprintf("writer consuming in pieces of %d", p.piece)
	case 3:
		d = fmt.Sprintf("writer with ReaderFrom, buffer %d", p.bufSize)
	case 4:
		d = "bufio.Writer size 16 over plain writer"
	case 5:
		d = fmt.Sprintf("raw *bytes.Buffer that already holds %d bytes", p.piece)
	case 6:
		d = fmt.Sprintf("raw *os.File positioned behind %d bytes written earlier", p.piece)
	case 7:
		d = fmt.Sprintf("raw *bufio.Writer (size 64) with %d bytes buffered earlier", p.piece)
	default:
		d = fmt.Sprintf("raw *strings.Builder that already holds %d bytes", p.piece)
	}
	if p.failAt >= 0 {
		d += fmt.Sprintf(" FAIL at byte offset %d (sticky=%v)", p.failAt, p.sticky)
	}
	return d
}

type sink struct {
	w     io.Writer
	buf   *bytes.Buffer
	sw    *swriter
	flush func() error
	// raw standard-library destinations (kinds 5..8): the bytes they held before the call
	// must still be in front of what the call wrote
	pre        []byte
	read       func() ([]byte, error)
	prefixGone bool
}

func (p writerPlan) build(expect int) *sink {
	mk := func() *swriter {
		return &swriter{piece: p.piece, failAt: p.failAt, sticky: p.sticky, maxLen: 4*expect + 4096, maxCall: 8*expect + 4096}
	}
	s := &sink{}
	switch p.kind {
	case 0:
		s.buf = &bytes.Buffer{}
		s.w = s.buf
	case 1, 2:
		s.sw = mk()
		s.w = s.sw
	case 3:
		s.sw = mk()
		s.w = rfWriter{swriter: s.sw, bufSize: p.bufSize}
	case 4:
		s.sw = mk()
		bw := bufio.NewWriterSize(struct{ io.Writer }{s.sw}, 16)
		s.w = struct{ io.Writer }{bw}
		s.flush = bw.Flush
	case 5:
		s.pre = preBytes(p.piece)
		bb := bytes.NewBuffer(append([]byte{}, s.pre...))
		s.w = bb
		s.read = func() ([]byte, error) { return bb.Bytes(), nil }
	case 6:
		s.pre = preBytes(p.piece)
		f, err := os.CreateTemp(os.Getenv("VERIF_SCRATCH"), "c09-out-*")
		if err != nil {
			panic("harness: " + err.Error())
		}
		os.Remove(f.Name())
		if _, err := f.Write(s.pre); err != nil {
			panic("harness: " + err.Error())
		}
		s.w = f
		s.read = func() ([]byte, error) {
			st, err := f.Stat()
			if err != nil {
				return nil, err
			}
			b := make([]byte, st.Size())
			_, err = f.ReadAt(b, 0)
			if err == io.EOF {
				err = nil
			}
			return b, err
		}
	case 7:
		s.pre = preBytes(p.piece)
		s.sw = mk()
		bw := bufio.NewWriterSize(s.sw, 64)
		bw.Write(s.pre)
		s.w = bw
		s.read = func() ([]byte, error) {
			err := bw.Flush()
			return s.sw.buf, err
		}
	default:
		s.pre = preBytes(p.piece)
		sb := &strings.Builder{}
		sb.Write(s.pre)
		s.w = sb
		s.read = func() ([]byte, error) { return []byte(sb.String()), nil }
	}
	return s
}

func preBytes(n int) []byte {
	b := make([]byte, n)
	for i := range b {
		b[i] = byte(0xA0 + i%7)
	}
	return b
}

// bytes returns everything written (after flushing a buffering layer).
func (s *sink) bytes() ([]byte, error) {
	if s.read != nil {
		all, err := s.read()
		if err != nil {
			return nil, err
		}
		if len(all) < len(s.pre) || !bytes.Equal(all[:len(s.pre)], s.pre) {
			// The statement is about the bytes a call writes; what becomes of bytes the
			// destination held before (a destination reset or rewound by the callee) is
			// not settled by it: the whole content is then judged as the output.
			s.prefixGone = true
			return all, nil
		}
		return all[len(s.pre):], nil
	}
	var err error
	if s.flush != nil {
		err = s.flush()
	}
	if s.buf != nil {
		return s.buf.Bytes(), err
	}
	return s.sw.buf, err
}

func (s *sink) runaway() bool { return s.sw != nil && s.sw.runaway }
