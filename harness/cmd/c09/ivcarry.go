package main

// Engine "stream/iv-carry" (LESSONS 29): a parameter the caller cannot choose — the random
// salt, hence the derived CTR start value — at the top of its range. The harness derives key
// and IV itself (EVP_BytesToKey, ref.go), searches a salt whose IV ends a little below
// ...ffffffff so that the 32-bit tail of the counter runs over in the middle of a 1-2 MiB
// stream, encrypts with the standard library's CTR and lets DecryptStreamTo read that message
// in big and in small chunks. For the other direction the source reader looks at the salt
// EncryptStreamTo has already written and supplies the plaintext only for such a salt (an
// implementation that reads before it writes the header cannot be steered: counted, no
// floor). Oracle: the round trip / the reference CTR, nothing else.

import (
	"bytes"
	"crypto/aes"
	"crypto/cipher"
	"encoding/binary"
	"fmt"
	"io"

	"github.com/welllog/golib/cryptz"

	"verif/ev"
)

func ivNearCarry(iv []byte, blocks int) bool {
	tail := binary.BigEndian.Uint32(iv[12:16])
	left := uint64(0xffffffff) - uint64(tail) // blocks until the tail runs over
	return left >= 8 && left < uint64(blocks)*3/4
}

func refCTR(p, pass, salt []byte) []byte {
	key, iv := refKeyIV(pass, salt)
	blk, _ := aes.NewCipher(key)
	out := make([]byte, 16+len(p))
	copy(out, "Salted__")
	copy(out[8:], salt)
	cipher.NewCTR(blk, iv).XORKeyStream(out[16:], p)
	return out
}

// chunkReader serves at most max bytes per Read (max <= 0: as many as asked for).
type chunkReader struct {
	b   []byte
	max int
}

func (r *chunkReader) Read(p []byte) (int, error) {
	if len(r.b) == 0 {
		return 0, io.EOF
	}
	n := len(p)
	if r.max > 0 && n > r.max {
		n = r.max
	}
	n = copy(p[:n], r.b)
	r.b = r.b[n:]
	return n, nil
}

// steeredSource supplies its plaintext only when the salt already written to w is suitable.
type steeredSource struct {
	w      *bytes.Buffer
	pass   []byte
	p      []byte
	blocks int
	inner  *chunkReader
	seen   bool // the header was there at the first Read
	fit    bool
	max    int
}

func (s *steeredSource) Read(b []byte) (int, error) {
	if s.inner == nil {
		s.inner = &chunkReader{max: s.max}
		if h := s.w.Bytes(); len(h) >= 16 && bytes.Equal(h[:8], []byte("Salted__")) {
			s.seen = true
			_, iv := refKeyIV(s.pass, h[8:16])
			if ivNearCarry(iv, s.blocks) {
				s.fit = true
				s.inner.b = s.p
			}
		}
	}
	return s.inner.Read(b)
}

func ivCarryCase(c *ev.Case) {
	rng := c.Rng
	size := rng.Pick(1<<20, 1<<20+13, 3<<19, 1<<21-5, 700001)
	blocks := size / 16
	p := rng.Bytes(size)
	pass := rng.Bytes(rng.Pick(1, 8, 16, 31))
	// decrypt side: a message built here with a suitable salt
	var salt [8]byte
	found := false
	for ctr := uint64(0); ctr < 1<<24; ctr++ {
		binary.LittleEndian.PutUint64(salt[:], ctr*0x9E3779B97F4A7C15+uint64(c.Index))
		if _, iv := refKeyIV(pass, salt[:]); ivNearCarry(iv, blocks) {
			found = true
			break
		}
	}
	if !found {
		c.Run().Inconclusive("stream/iv-carry: no salt with a suitable IV in 2^24 tries")
		return
	}
	msg := refCTR(p, pass, salt[:])
	for _, max := range []int{0, 4093, 65536 + 1, 1 << 18} {
		var out bytes.Buffer
		var err error
		var src io.Reader = &chunkReader{b: msg, max: max}
		if max == 0 && rng.Bool() {
			src = bytes.NewReader(msg) // WriterTo: one big piece
		}
		if !c.Guard("DecryptStreamTo", func() { err = cryptz.DecryptStreamTo(&out, src, pass) }) {
			return
		}
		if err != nil || !bytes.Equal(out.Bytes(), p) {
			at := 0
			for at < out.Len() && at < len(p) && out.Bytes()[at] == p[at] {
				at++
			}
			c.Failf("ivcarry-decrypt", "DecryptStreamTo of a %d-byte CTR stream whose counter tail runs over ...ffffffff in mid-stream (reads of at most %d bytes): err=%v, output differs from the plaintext from byte %d of %d on", size, max, err, at, out.Len())
			return
		}
		c.Add("ivcarry_decrypts", 1)
	}
	// encrypt side, steered by the salt the library chose
	max := rng.Pick(0, 0, 4093, 65536+1)
	for try := 0; try < 400000; try++ {
		var w bytes.Buffer
		src := &steeredSource{w: &w, pass: pass, p: p, blocks: blocks, max: max}
		var err error
		if !c.Guard("EncryptStreamTo", func() { err = cryptz.EncryptStreamTo(&w, src, pass) }) {
			return
		}
		if err != nil {
			c.Failf("ivcarry-encrypt-error", "EncryptStreamTo failed: %v", err)
			return
		}
		if !src.seen {
			c.Add("ivcarry_encrypt_unsteerable", 1)
			break
		}
		if !src.fit {
			continue
		}
		got := w.Bytes()
		want := refCTR(p, pass, got[8:16])
		if !bytes.Equal(got, want) {
			at := 0
			for at < len(got) && at < len(want) && got[at] == want[at] {
				at++
			}
			c.Failf("ivcarry-encrypt", "EncryptStreamTo of %d bytes (source reads of at most %d bytes) with a salt whose counter tail runs over ...ffffffff in mid-stream: output differs from AES-256-CTR under the derived key and IV from byte %d of %d on", size, max, at, len(got))
			return
		}
		var back bytes.Buffer
		if err := cryptz.DecryptStreamTo(&back, &chunkReader{b: got, max: 4093}, pass); err != nil || !bytes.Equal(back.Bytes(), p) {
			c.Failf("ivcarry-round-trip", "DecryptStreamTo(EncryptStreamTo(p)) != p for a %d-byte stream whose counter tail runs over in mid-stream (err=%v)", size, err)
			return
		}
		c.Add("ivcarry_encrypts_steered", 1)
		c.Add("ivcarry_encrypt_tries", int64(try+1))
		break
	}
	c.Add("ivcarry_cases", 1)
	c.Distinct(ev.Mix(ev.HashBytes(salt[:]), uint64(size), ev.HashBytes(pass)))
	if c.WantSample() {
		c.Sample(fmt.Sprintf("stream/iv-carry: %d-byte stream, salt %x chosen so that the last four IV bytes run over after fewer than %d blocks: DecryptStreamTo agrees with the reference CTR for 4 chunkings; EncryptStreamTo steered to such a salt agrees too", size, salt, blocks*3/4))
	}
}
