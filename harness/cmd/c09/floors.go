package main

// Coverage counters and anti-vacuity floors for the sub-cases the statement names
// explicitly: every argument-type combination of every entry point ("string or
// bytes"), every reader and writer behaviour in both stream directions, every
// corruption / truncation family and every garbage class. None of these is a
// verdict; a run in which one of them is no longer produced is INCONCLUSIVE.

import (
	"fmt"

	"verif/ev"
)

func typeCounterNames(api string, n int, ad bool) []string {
	out := make([]string, n)
	for i := range out {
		out[i] = "types_" + api + comboStrSlow(i, ad)
	}
	return out
}

func b2i(b bool) int {
	if b {
		return 1
	}
	return 0
}

var (
	tcEncrypt    = typeCounterNames("Encrypt", 4, false)
	tcDecrypt    = typeCounterNames("Decrypt", 4, false)
	tcRawCBCEnc  = typeCounterNames("SaltBySecretCBCEncrypt", 4, false)
	tcRawCBCDec  = []string{"types_SaltBySecretCBCDecrypt(secret []byte)", "types_SaltBySecretCBCDecrypt(secret string)"}
	tcGCMEncrypt = typeCounterNames("GCMEncrypt", 8, true)
	tcGCMDecrypt = typeCounterNames("GCMDecrypt", 8, true)
	tcRawGCMEnc  = typeCounterNames("SaltBySecretGCMEncrypt", 8, true)
	tcRawGCMDec  = []string{
		"types_SaltBySecretGCMDecrypt(secret []byte,ad []byte)", "types_SaltBySecretGCMDecrypt(secret string,ad []byte)",
		"types_SaltBySecretGCMDecrypt(secret []byte,ad string)", "types_SaltBySecretGCMDecrypt(secret string,ad string)",
	}
	tcEncStream = []string{"types_EncryptStreamTo(secret []byte)", "types_EncryptStreamTo(secret string)"}
	tcDecStream = []string{"types_DecryptStreamTo(secret []byte)", "types_DecryptStreamTo(secret string)"}
)

const nWriterKinds = 9

// writerKindCounter[dec][kind]
var writerKindCounter = func() map[bool][]string {
	m := map[bool][]string{}
	for k := 0; k < nWriterKinds; k++ {
		m[false] = append(m[false], fmt.Sprintf("stream_enc_writer_kind_%d", k))
		m[true] = append(m[true], fmt.Sprintf("stream_dec_writer_kind_%d", k))
	}
	return m
}()

var garbageClasses = []string{
	"random bytes", "random base64 alphabet", "base64 of magic + random", "base64 of random without magic",
	"random hex digits", "hex of magic + random", "hex of random without magic", "raw magic + random",
	"raw near-magic", "base64 of near-magic", "hex of near-magic",
	"raw header fragment", "base64 of header fragment", "hex of header fragment",
	"damaged base64 of magic + random", "damaged hex of magic + random", "empty", "one byte repeated",
}

func requireAuditFloors(r *ev.Run) {
	// "secret (string or bytes)", plaintext / message / additional data likewise:
	// every type combination of every entry point
	for _, f := range []struct {
		names []string
		min   int64
	}{
		{tcEncrypt, 1000}, {tcDecrypt, 100000}, {tcRawCBCEnc, 500}, {tcRawCBCDec, 100000},
		{tcGCMEncrypt, 150}, {tcGCMDecrypt, 100000}, {tcRawGCMEnc, 150}, {tcRawGCMDec, 50000},
		{tcEncStream, 30000}, {tcDecStream, 50000},
	} {
		for _, n := range f.names {
			r.Require(n, f.min)
		}
	}
	// every reader and writer behaviour, in both directions
	for k := 0; k < nReaderKinds; k++ {
		r.Require(kindCounter[false][k], 150)
		r.Require(kindCounter[true][k], 1000)
	}
	for k := 0; k < nWriterKinds; k++ {
		r.Require(writerKindCounter[false][k], 1000)
		r.Require(writerKindCounter[true][k], 3000)
	}
	r.Require("stream_enc_one_byte_reads", 1500)
	r.Require("stream_enc_eof_with_data", 2000)
	r.Require("stream_scribbling_reader", 1000)
	r.Require("stream_empty_plaintext", 150)
	r.Require("stream_truncated_in_header", 30000)
	r.Require("stream_fault_enc_reader", 20000)
	r.Require("stream_fault_dec_reader", 30000)
	r.Require("stream_fault_dec_writer", 20000)
	// CBC corruption / truncation families
	r.Require("cbc_wrong_secret", 3000)
	r.Require("cbc_truncations_decoded", 100000)
	r.Require("cbc_truncations_text", 150000)
	r.Require("cbc_char_corruptions", 50000)
	r.Require("cbc_byte_corruptions", 40000)
	r.Require("cbc_magic_byte_corrupted", 20000)
	r.Require("cbc_text_extensions", 40000)
	// GCM text-level corruption, extensions, degenerate arguments
	r.Require("gcm_char_corruptions", 10000)
	r.Require("gcm_char_positions_swept_all_values", 5000)
	r.Require("gcm_extensions", 20000)
	r.Require("gcm_empty_plaintext", 15)
	r.Require("gcm_empty_ad", 300)
	// garbage: every class, every DecryptStreamTo outcome class
	for _, g := range garbageClasses {
		r.Require("garbage_class_"+g, 400)
	}
	r.Require("garbage_stream_short", 5000)
	r.Require("garbage_stream_no_magic", 10000)
	r.Require("garbage_stream_structurally_valid", 2000)
}
