package main

import (
	"bytes"
	"fmt"

	"github.com/welllog/golib/cryptz"

	"verif/ev"
)

// secretReuseCase: the caller keeps ONE secret buffer and overwrites it in place
// between calls (key rotation, trying candidates). Every call must use the bytes
// the buffer holds at the time of the call: a message sealed under s1 must open
// with the buffer holding s1, must be rejected (GCM) once the buffer holds s2, and
// must open again when the buffer is changed back.
func secretReuseCase(c *ev.Case) {
	rng := c.Rng
	s1 := genSecret(rng)
	if len(s1) == 0 {
		s1 = []byte("k")
	}
	s2, how := differentBytes(rng, s1)
	if len(s2) != len(s1) {
		s2 = append([]byte(nil), s1...)
		s2[rng.Intn(len(s2))] ^= byte(1 << rng.Intn(8))
		how = "one bit flipped"
	}
	p := genPlainN(rng, rng.Pick(0, 1, 15, 16, 17, 40))
	a := genAD(rng)
	var gtext, ctext []byte
	var e error
	if !c.Guard("GCMEncrypt", func() { gtext, e = cryptz.GCMEncrypt(cl2(p), cl2(s1), cl2(a)) }) || e != nil {
		if e != nil {
			c.Failf("gcm-encrypt-err", "GCMEncrypt failed: %v", e)
		}
		return
	}
	if !c.Guard("Encrypt", func() { ctext, e = cryptz.Encrypt(cl2(p), cl2(s1)) }) || e != nil {
		if e != nil {
			c.Failf("cbc-encrypt-err", "Encrypt failed: %v", e)
		}
		return
	}
	buf := append([]byte(nil), s1...)
	c.Logf("secret buffer %q, then overwritten in place with %q (%s), then restored", s1, s2, how)
	// the GCM calls and the CBC calls are kept in two uninterrupted runs (this
	// engine runs one case at a time), so that whatever a call remembers from the
	// previous one is still there
	order := rng.Intn(2) // 0: right, wrong, right ; 1: wrong, right, wrong
	for step := 0; step < 3; step++ {
		right := (step+order)%2 == 0
		if right {
			copy(buf, s1)
		} else {
			copy(buf, s2)
		}
		var got []byte
		if !c.Guard("GCMDecrypt", func() { got, e = cryptz.GCMDecrypt(cl2(gtext), buf, cl2(a)) }) {
			return
		}
		c.Logf("GCM step %d: buffer holds the %v secret: GCMDecrypt -> err=%v", step, map[bool]string{true: "right", false: "wrong"}[right], e)
		if right && (e != nil || !bytes.Equal(got, p)) {
			c.Failf("gcm-roundtrip/secret-buffer-reuse", "step %d: GCMDecrypt with the secret buffer holding the right secret (overwritten in place since the previous call) failed: err=%v", step, e)
			return
		}
		if !right && e == nil {
			c.Failf("gcm-secret/secret-buffer-reuse", "step %d: GCMDecrypt succeeded although the secret buffer now holds a different secret (%s)", step, how)
			return
		}
	}
	for step := 0; step < 3; step++ {
		right := (step+order)%2 == 1
		if right {
			copy(buf, s1)
		} else {
			copy(buf, s2)
		}
		var got []byte
		if !c.Guard("Decrypt", func() { got, e = cryptz.Decrypt(cl2(ctext), buf) }) {
			return
		}
		c.Logf("CBC step %d: buffer holds the %v secret: Decrypt -> err=%v", step, map[bool]string{true: "right", false: "wrong"}[right], e)
		if right && (e != nil || !bytes.Equal(got, p)) {
			c.Failf("cbc-roundtrip/secret-buffer-reuse", "step %d: Decrypt(Encrypt(p, s), s) with the secret buffer holding s (overwritten in place since the previous call): err=%v", step, e)
			return
		}
	}
	c.Add("secret_buffer_reuse_cases", 1)
	c.Distinct(ev.Mix(ev.HashBytes(s1), ev.HashBytes(s2), ev.HashBytes(p)))
	if c.WantSample() {
		c.Sample(fmt.Sprintf("secret buffer reuse: %d-byte secret overwritten in place (%s) and restored between GCMDecrypt/Decrypt calls on the same messages", len(s1), how))
	}
}

// bigCase: megabyte-sized plaintexts through Encrypt/Decrypt and GCMEncrypt/GCMDecrypt.
func bigCase(c *ev.Case) {
	rng := c.Rng
	n := rng.Pick(300<<10, 512<<10, 600<<10, 1<<20, 3<<20) + rng.Pick(0, 1, 15, 16)
	p := rng.Bytes(n)
	s := genSecret(rng)
	var text, got []byte
	var e error
	if !c.Guard("Encrypt", func() { text, e = cryptz.Encrypt(cl2(p), cl2(s)) }) {
		return
	}
	if e != nil {
		c.Failf("cbc-encrypt-err", "Encrypt of %d bytes failed: %v", n, e)
		return
	}
	if pt, bad, _ := refOpenText(text, s); bad != "" || !bytes.Equal(pt, p) {
		c.Failf("format/big", "Encrypt of %d bytes: the independent OpenSSL-style decoder does not recover the plaintext (%s)", n, bad)
		return
	}
	if !c.Guard("Decrypt", func() { got, e = cryptz.Decrypt(cl2(text), cl2(s)) }) {
		return
	}
	if e != nil || !bytes.Equal(got, p) {
		i := 0
		for i < len(got) && i < len(p) && got[i] == p[i] {
			i++
		}
		c.Failf("cbc-roundtrip/big", "Decrypt(Encrypt(p, s), s) != p for a %d-byte plaintext: err=%v, first difference at byte %d", n, e, i)
		return
	}
	a := genAD(rng)
	if !c.Guard("GCMEncrypt", func() { text, e = cryptz.GCMEncrypt(cl2(p), cl2(s), cl2(a)) }) || e != nil {
		return
	}
	if !c.Guard("GCMDecrypt", func() { got, e = cryptz.GCMDecrypt(text, cl2(s), cl2(a)) }) {
		return
	}
	if e != nil || !bytes.Equal(got, p) {
		c.Failf("gcm-roundtrip/big", "GCMDecrypt(GCMEncrypt(p)) != p for a %d-byte plaintext: err=%v", n, e)
		return
	}
	c.Add("big_cases", 1)
	c.Distinct(ev.Mix(uint64(n), ev.HashBytes(s)))
	if c.WantSample() {
		c.Sample(fmt.Sprintf("big: %d-byte plaintext through Encrypt/Decrypt (+ independent decoder) and GCMEncrypt/GCMDecrypt", n))
	}
}

// coldCase: a freshly started process whose first cryptz call is a decryption.
func coldCase(c *ev.Case) {
	rng := c.Rng
	s := genSecret(rng)
	p := genPlainN(rng, rng.Pick(0, 5, 16, 33))
	salt := rng.Bytes(8)
	text := b64(refSealRaw(p, s, salt))
	var got []byte
	var e error
	if !c.Guard("Decrypt", func() { got, e = cryptz.Decrypt(text, cl2(s)) }) {
		return
	}
	c.Logf("first cryptz call of the process: Decrypt of an OpenSSL-style message -> err=%v", e)
	if e != nil || !bytes.Equal(got, p) {
		c.Failf("cold-start/Decrypt", "Decrypt as the first call of a process on a valid OpenSSL-format message: err=%v", e)
		return
	}
	c.Add("cold_start_cases", 1)
	c.Distinct(ev.Mix(uint64(c.Index), 56))
}

func cl2(b []byte) []byte { return append([]byte(nil), b...) }
