package main

import (
	"bytes"
	"context"
	"errors"
	"fmt"
	"os/exec"
	"time"

	"verif/ev"
)

// runOpenSSL runs `openssl enc [-d] -aes-256-cbc -md md5 -a -A -pass pass:S`.
// started=false means the binary could not be run at all (sample skipped).
func runOpenSSL(decrypt bool, secret, stdin []byte) (stdout, stderr []byte, exit int, started bool) {
	return runOpenSSLMode(decrypt, true, secret, stdin)
}

// runOpenSSLMode: oneLine=false leaves out -A, so that an encryption prints the
// base64 the way `openssl enc -a` does by default: 64 characters per line.
func runOpenSSLMode(decrypt, oneLine bool, secret, stdin []byte) (stdout, stderr []byte, exit int, started bool) {
	if opensslPath == "" {
		return nil, nil, 0, false
	}
	args := []string{"enc"}
	if decrypt {
		args = append(args, "-d")
	}
	args = append(args, "-aes-256-cbc", "-md", "md5", "-a")
	if oneLine {
		args = append(args, "-A")
	}
	args = append(args, "-pass", "pass:"+string(secret))
	ctx, cancel := context.WithTimeout(context.Background(), 60*time.Second)
	defer cancel()
	cmd := exec.CommandContext(ctx, opensslPath, args...)
	cmd.Stdin = bytes.NewReader(stdin)
	var so, se bytes.Buffer
	cmd.Stdout, cmd.Stderr = &so, &se
	err := cmd.Run()
	if err != nil {
		var ee *exec.ExitError
		if ctx.Err() == nil && errors.As(err, &ee) && ee.ExitCode() > 0 {
			return so.Bytes(), se.Bytes(), ee.ExitCode(), true
		}
		return nil, nil, 0, false // not started, killed, timed out: no verdict
	}
	return so.Bytes(), se.Bytes(), 0, true
}

// opensslSecret: argv cannot carry NUL; everything else goes through verbatim.
func opensslSecret(rng *ev.Rand) []byte {
	s := genSecret(rng)
	if len(s) > 120 {
		s = s[:120]
	}
	for i := range s {
		if s[i] == 0 {
			s[i] = byte(1 + rng.Intn(255))
		}
	}
	return s
}

func opensslCase(c *ev.Case) {
	rng := c.Rng
	t := sut{c}
	if opensslPath == "" {
		c.Add("openssl_skipped", 1)
		return
	}
	var p []byte
	if rng.Chance(1, 15) {
		p = genPlainN(rng, rng.Range(600, 5000))
	} else {
		p = genPlain(rng)
	}
	s := opensslSecret(rng)
	combo := rng.Intn(16)
	c.Distinct(ev.Mix(ev.HashString("openssl"), ev.HashBytes(p), ev.HashBytes(s), uint64(combo)))
	if len(s) == 0 {
		c.Add("empty_secret", 1)
	}

	// golib -> openssl
	ct, err, ok := t.encrypt(p, s, combo)
	if !ok {
		return
	}
	c.Logf("Encrypt%s(%s, %s) -> %s, %s", comboStr(combo, false), q(p), q(s), q(ct), errStr(err))
	if err != nil {
		c.Failf("enc-error", "Encrypt(%s, %s) returned %s", q(p), q(s), errStr(err))
		return
	}
	out, se, exit, started := runOpenSSL(true, s, ct)
	if !started {
		c.Add("openssl_skipped", 1)
	} else {
		c.Logf("openssl enc -d ... <<< ct -> exit %d, stdout %s, stderr %s", exit, q(out), q(se))
		if exit != 0 {
			c.Failf("openssl-rejects-golib", "`openssl enc -d -aes-256-cbc -md md5 -a -A -pass pass:%s` exits %d on Encrypt(%s, %s) = %s: %s", q(s), exit, q(p), q(s), q(ct), q(se))
			return
		}
		if !bytes.Equal(out, p) {
			c.Failf("openssl-wrong-plaintext", "openssl decrypts Encrypt(%s, %s) = %s to %s", q(p), q(s), q(ct), q(out))
			return
		}
		c.Add("openssl_decrypted_golib", 1)
	}

	// openssl -> golib
	out, se, exit, started = runOpenSSL(false, s, p)
	if !started || exit != 0 {
		c.Add("openssl_skipped", 1)
		return
	}
	text := bytes.TrimRight(out, "\r\n")
	dcombo := rng.Intn(16)
	got, err, ok := t.decrypt(text, s, dcombo)
	if !ok {
		return
	}
	c.Logf("openssl enc ... <<< plaintext -> %s; Decrypt%s -> %s, %s", q(text), comboStr(dcombo, false), q(got), errStr(err))
	if err != nil {
		c.Failf("golib-rejects-openssl", "Decrypt%s returns %s on the output %s of `openssl enc -aes-256-cbc -md md5 -a -A -pass pass:%s` for plaintext %s", comboStr(dcombo, false), errStr(err), q(text), q(s), q(p))
		return
	}
	if !bytes.Equal(got, p) {
		c.Failf("golib-wrong-plaintext", "Decrypt%s(%s, %s) = %s; openssl encrypted %s", comboStr(dcombo, false), q(text), q(s), q(got), q(p))
		return
	}
	c.Add("golib_decrypted_openssl", 1)
	if c.WantSample() {
		c.Sample(fmt.Sprintf("openssl: plaintext %s secret %s: openssl enc -d decrypts golib's %s; golib decrypts openssl's %s", q(p), q(s), q(ct), q(text)))
	}
}
