package main

import (
	"bytes"
	"fmt"

	"verif/ev"
)

// opensslWrap lays a base64 text out the way `openssl enc -a` (without -A) prints
// it: 64 characters per line, every line ended by "\n". finalNL=false drops the
// last line end (what a shell's $(...) or a TrimSpace leaves).
func opensslWrap(text []byte, finalNL bool) []byte {
	out := make([]byte, 0, len(text)+len(text)/64+2)
	for i := 0; i < len(text); i += 64 {
		j := min(i+64, len(text))
		out = append(out, text[i:j]...)
		if j < len(text) || finalNL {
			out = append(out, '\n')
		}
	}
	return out
}

// wrappedCase: "either side interoperates with openssl enc -aes-256-cbc -md md5":
// without -A, openssl prints its base64 in lines of 64 characters. Decrypt must
// take that text as it comes. The message is built by the harness's independent
// OpenSSL derivation on every case and by the openssl binary itself on a sample.
func wrappedCase(c *ev.Case) {
	rng := c.Rng
	t := sut{c}
	var n int
	switch rng.Intn(4) {
	case 0:
		n = rng.Pick(0, 1, 15, 16, 31, 32, 33, 47, 48, 79, 80, 81, 95, 96, 97)
	case 1:
		n = rng.Range(300, 2000)
	default:
		n = rng.Range(0, 300)
	}
	p, s := genPlainN(rng, n), genSecret(rng)
	salt := rng.Bytes(8)
	text := b64(refSealRaw(p, s, salt))
	finalNL := rng.Chance(3, 4)
	w := opensslWrap(text, finalNL)
	combo := rng.Intn(16)
	useBinary, so := rng.Chance(1, 6), opensslSecret(rng)
	c.Distinct(ev.Mix(ev.HashString("wrapped-interop"), ev.HashBytes(p), ev.HashBytes(s), ev.HashBytes(salt), uint64(combo)))
	got, err, ok := t.decrypt(w, s, combo)
	if !ok {
		return
	}
	lines := bytes.Count(w, []byte{'\n'})
	c.Logf("Decrypt%s(%d-character base64 in %d openssl-style lines of 64, final line end %v) -> %s, %s", comboStr(combo, false), len(text), lines, finalNL, q(got), errStr(err))
	if err != nil || !bytes.Equal(got, p) {
		c.Failf("reverse/wrapped", "Decrypt%s rejects or mis-decrypts an OpenSSL-format message laid out as `openssl enc -aes-256-cbc -md md5 -a` prints it (64 base64 characters per line): plaintext %s, secret %s, salt %x, text %s -> %s, %s",
			comboStr(combo, false), q(p), q(s), salt, q(w), q(got), errStr(err))
		return
	}
	c.Add("wrapped_decrypted", 1)
	if len(text) > 64 {
		c.Add("wrapped_multi_line", 1)
	}
	if len(text) > 128 {
		c.Add("wrapped_three_or_more_lines", 1)
	}
	if len(text)%64 == 0 {
		c.Add("wrapped_last_line_full", 1)
	}

	// the same with the binary: its stdout, untouched, into Decrypt
	if useBinary && opensslPath != "" {
		out, _, exit, started := runOpenSSLMode(false, false, so, p)
		if !started || exit != 0 {
			c.Add("openssl_skipped", 1)
			return
		}
		dcombo := rng.Intn(16)
		got, err, ok = t.decrypt(out, so, dcombo)
		if !ok {
			return
		}
		c.Logf("openssl enc -a (no -A) <<< plaintext -> %s; Decrypt%s -> %s, %s", q(out), comboStr(dcombo, false), q(got), errStr(err))
		if err != nil || !bytes.Equal(got, p) {
			c.Failf("golib-rejects-openssl/wrapped", "Decrypt%s returns %s, %s on the untouched output %s of `openssl enc -aes-256-cbc -md md5 -a -pass pass:%s` for plaintext %s",
				comboStr(dcombo, false), q(got), errStr(err), q(out), q(so), q(p))
			return
		}
		c.Add("golib_decrypted_openssl_wrapped", 1)
		if bytes.Count(out, []byte{'\n'}) > 1 {
			c.Add("golib_decrypted_openssl_multi_line", 1)
		}
	}
	if c.WantSample() {
		c.Sample(fmt.Sprintf("wrapped-interop: %d-byte plaintext, secret %s: %d base64 characters in %d lines of 64 -> Decrypt%s returns the plaintext", len(p), q(s), len(text), lines, comboStr(combo, false)))
	}
}
