package main

// Independent reference for the OpenSSL "Salted__" envelope, written from the
// OpenSSL description of `enc` and EVP_BytesToKey, using only the Go standard
// library. Nothing in this file calls golib.

import (
	"bytes"
	"crypto/aes"
	"crypto/cipher"
	"crypto/md5"
	"encoding/base64"
	"fmt"
	"strings"
)

var magic = []byte("Salted__")

// evpBytesToKey is EVP_BytesToKey(md = MD5, count = 1): D_1 = MD5(pass || salt),
// D_i = MD5(D_{i-1} || pass || salt); key material = D_1 || D_2 || ...
func evpBytesToKey(pass, salt []byte, n int) []byte {
	var out, prev []byte
	for len(out) < n {
		h := md5.New()
		h.Write(prev)
		h.Write(pass)
		h.Write(salt)
		prev = h.Sum(nil)
		out = append(out, prev...)
	}
	return out[:n]
}

// refKeyIV: AES-256 key (32 bytes) followed by the CBC IV (16 bytes).
func refKeyIV(pass, salt []byte) (key, iv []byte) {
	km := evpBytesToKey(pass, salt, 48)
	return km[:32], km[32:48]
}

// refSealRaw builds "Salted__" || salt || AES-256-CBC(PKCS#7(p)).
func refSealRaw(p, pass, salt []byte) []byte {
	pad := 16 - len(p)%16
	body := make([]byte, 0, len(p)+pad)
	body = append(body, p...)
	for i := 0; i < pad; i++ {
		body = append(body, byte(pad))
	}
	return refSealBlocks(body, pass, salt)
}

// refSealBlocks encrypts an already block-aligned body verbatim (no padding
// added): used to craft messages with arbitrary final-block contents.
func refSealBlocks(body, pass, salt []byte) []byte {
	if len(body)%16 != 0 {
		panic("harness: refSealBlocks body not aligned")
	}
	key, iv := refKeyIV(pass, salt)
	blk, err := aes.NewCipher(key)
	if err != nil {
		panic("harness: " + err.Error())
	}
	out := make([]byte, 16+len(body))
	copy(out, magic)
	copy(out[8:], salt)
	if len(body) > 0 {
		cipher.NewCBCEncrypter(blk, iv).CryptBlocks(out[16:], body)
	}
	return out
}

// refOpenRaw says what an OpenSSL-compatible decoder does with raw: the
// plaintext, or the reason the message is structurally invalid.
func refOpenRaw(raw, pass []byte) (pt []byte, bad string) {
	if len(raw) < 32 {
		return nil, fmt.Sprintf("length %d < 32 (header + one block)", len(raw))
	}
	if len(raw)%16 != 0 {
		return nil, fmt.Sprintf("length %d not a multiple of 16", len(raw))
	}
	if !bytes.Equal(raw[:8], magic) {
		return nil, "magic is not Salted__"
	}
	key, iv := refKeyIV(pass, raw[8:16])
	blk, err := aes.NewCipher(key)
	if err != nil {
		panic("harness: " + err.Error())
	}
	body := make([]byte, len(raw)-16)
	cipher.NewCBCDecrypter(blk, iv).CryptBlocks(body, raw[16:])
	n := int(body[len(body)-1])
	if n < 1 || n > 16 {
		return nil, fmt.Sprintf("padding byte %d outside 1..16", n)
	}
	for _, b := range body[len(body)-n:] {
		if int(b) != n {
			return nil, fmt.Sprintf("padding bytes are not all %d", n)
		}
	}
	return body[:len(body)-n], ""
}

// refOpenText: the base64 (standard alphabet, padded, single line) form.
// loose names a reason why the statement promises nothing in particular about
// accepting or rejecting this text ("" = the verdict is binding):
//
//	"crlf"          the text contains CR/LF somewhere, which encoding/base64 skips
//	"blank-ends"    blanks or tabs before / behind the text: OpenSSL's base64 reader
//	                skips them, Go's does not; pt / bad then describe the text
//	                without them
//	"non-canonical" the text decodes, but is not the base64 encoding of what it
//	                decodes to (non-zero trailing bits in the last quantum): neither
//	                golib nor openssl ever produces it, a lenient decoder (Go's
//	                StdEncoding) takes it, a strict one (StdEncoding.Strict()) does not
func refOpenText(text, pass []byte) (pt []byte, bad string, loose string) {
	if bytes.ContainsAny(text, "\r\n") {
		loose = "crlf"
	} else if t := bytes.Trim(text, " \t"); len(t) != len(text) {
		loose = "blank-ends"
		text = t
	}
	raw, err := base64.StdEncoding.DecodeString(string(text))
	if err != nil {
		return nil, "not base64: " + err.Error(), loose
	}
	if loose == "" && !bytes.Equal(b64(raw), text) {
		loose = "non-canonical"
	}
	pt, bad = refOpenRaw(raw, pass)
	return pt, bad, loose
}

func isStdBase64Line(b []byte) bool {
	const alpha = "ABCDEFGHIJKLMNOPQRSTUVWXYZabcdefghijklmnopqrstuvwxyz0123456789+/"
	if len(b)%4 != 0 {
		return false
	}
	n := len(b)
	for n > 0 && len(b)-n < 2 && b[n-1] == '=' {
		n--
	}
	for _, ch := range b[:n] {
		if strings.IndexByte(alpha, ch) < 0 {
			return false
		}
	}
	return true
}

func hexVal(c byte) int {
	switch {
	case '0' <= c && c <= '9':
		return int(c - '0')
	case 'a' <= c && c <= 'f':
		return int(c-'a') + 10
	case 'A' <= c && c <= 'F':
		return int(c-'A') + 10
	}
	return -1
}

// refHexDecode is a plain hex decoder (either case); ok=false if not hex.
func refHexDecode(b []byte) ([]byte, bool) {
	if len(b)%2 != 0 {
		return nil, false
	}
	out := make([]byte, len(b)/2)
	for i := range out {
		h, l := hexVal(b[2*i]), hexVal(b[2*i+1])
		if h < 0 || l < 0 {
			return nil, false
		}
		out[i] = byte(h<<4 | l)
	}
	return out, true
}

func hexEncode(b []byte, upper bool) []byte {
	digits := "0123456789abcdef"
	if upper {
		digits = "0123456789ABCDEF"
	}
	out := make([]byte, 2*len(b))
	for i, v := range b {
		out[2*i] = digits[v>>4]
		out[2*i+1] = digits[v&15]
	}
	return out
}

func b64(b []byte) []byte {
	out := make([]byte, base64.StdEncoding.EncodedLen(len(b)))
	base64.StdEncoding.Encode(out, b)
	return out
}
