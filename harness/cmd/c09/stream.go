package main

import (
	"bytes"
	"fmt"

	"verif/ev"
)

// streamEnc runs EncryptStreamTo(p) through the given plans and returns the
// stream ciphertext (nil after a Failf).
func streamEnc(c *ev.Case, t sut, p, s []byte, sStr bool, rp readerPlan, wp writerPlan, rng *ev.Rand) []byte {
	rd, sp, sr := rp.build(p, rng)
	snk := wp.build(len(p) + 16)
	err, ok := t.encStream(snk.w, rd, s, sStr)
	if !ok {
		return nil
	}
	out, ferr := snk.bytes()
	c.Logf("EncryptStreamTo(writer{%s}, reader{%s}, %d-byte plaintext %s, secret %s) -> %s; %d bytes written: %x", wp, rp, len(p), q(p), q(s), errStr(err), len(out), clip(out))
	if sp.runaway || snk.runaway() {
		c.Failf("stream-runaway", "EncryptStreamTo did not stop: %d Read calls for %d bytes (reader{%s}), %d bytes written", sp.calls, len(p), rp, len(out))
		return nil
	}
	if err != nil || ferr != nil {
		c.Failf("stream-enc-error", "EncryptStreamTo(writer{%s}, reader{%s}) over a healthy %d-byte source returned %s%s", wp, rp, len(p), errStr(err), sinkErr(ferr))
		return nil
	}
	noteReader(c, "enc", sp, sr, rp)
	c.Add(writerKindCounter[false][wp.kind%nWriterKinds], 1)
	if len(out) == len(p)+16 {
		c.Add("stream_ct_is_header_plus_len", 1)
	} else {
		c.Add("stream_ct_other_length", 1) // the statement does not fix the stream wire format
	}
	return append([]byte{}, out...)
}

var kindCounter = func() map[bool][]string {
	m := map[bool][]string{}
	for k := 0; k < nReaderKinds; k++ {
		m[false] = append(m[false], fmt.Sprintf("stream_enc_reader_kind_%02d", k))
		m[true] = append(m[true], fmt.Sprintf("stream_dec_reader_kind_%02d", k))
	}
	return m
}()

func clip(b []byte) []byte {
	if len(b) > 64 {
		return b[:64]
	}
	return b
}

func noteReader(c *ev.Case, dir string, sp *spy, sr *sreader, rp readerPlan) {
	if sr != nil {
		if sr.zeroReads > 0 {
			c.Add("stream_zero_reads", int64(sr.zeroReads))
		}
		if sr.eofData > 0 {
			c.Add("stream_eof_with_data", 1)
		}
		if sr.scribble {
			c.Add("stream_scribbling_reader", 1)
		}
	}
	if rp.kind == 10 {
		c.Add("stream_eof_with_data", 1)
	}
	if dir == "enc" {
		// the chunkings the statement names, on the encryption side
		if rp.kind == 8 || (rp.kind == 4 && rp.chunk == 1) {
			c.Add("stream_enc_one_byte_reads", 1)
		}
		if (sr != nil && sr.eofData > 0) || rp.kind == 10 {
			c.Add("stream_enc_eof_with_data", 1)
		}
	}
	if dir == "dec" {
		if !sp.headerClean() {
			c.Add("stream_dec_header_split", 1)
		}
		if sp.seen && sp.firstN == 16 && sp.firstErr != nil {
			c.Add("stream_dec_eof_with_header", 1)
		}
		if rp.kind == 8 || (rp.kind == 4 && rp.chunk == 1) {
			c.Add("stream_dec_one_byte_reads", 1)
		}
	}
	c.Add(kindCounter[dir == "dec"][rp.kind%nReaderKinds], 1)
}

// streamDec runs DecryptStreamTo(ct) and demands exactly p.
func streamDec(c *ev.Case, t sut, ct, p, s []byte, sStr bool, rp readerPlan, wp writerPlan, rng *ev.Rand) bool {
	rd, sp, sr := rp.build(ct, rng)
	snk := wp.build(len(ct))
	err, ok := t.decStream(snk.w, rd, s, sStr)
	if !ok {
		return false
	}
	out, ferr := snk.bytes()
	c.Logf("DecryptStreamTo(writer{%s}, reader{%s}, %d-byte stream) -> %s; first Read returned (%d, %v) into a %d-byte buffer; output %s", wp, rp, len(ct), errStr(err), sp.firstN, sp.firstErr, sp.firstBuf, q(out))
	if sp.runaway || snk.runaway() {
		c.Failf("stream-runaway", "DecryptStreamTo did not stop: %d Read calls for %d bytes (reader{%s}), %d bytes written", sp.calls, len(ct), rp, len(out))
		return false
	}
	if err != nil || ferr != nil {
		sig := "stream-dec-error"
		extra := ""
		if !sp.headerClean() {
			// witness class: the reader did not hand over the whole 16-byte header in its first Read
			sig = "stream-dec-error/header-chunked"
			extra = fmt.Sprintf("; the reader's first Read returned (%d, %v)", sp.firstN, sp.firstErr) // failure path only
		}
		c.Failf(sig, "DecryptStreamTo(writer{%s}, reader{%s}) on the %d-byte output of EncryptStreamTo(%d-byte plaintext %s, secret %s) returned %s%s%s", wp, rp, len(ct), len(p), q(p), q(s), errStr(err), extra, sinkErr(ferr))
		return false
	}
	if !bytes.Equal(out, p) {
		c.Failf("stream-round-trip", "DecryptStreamTo(writer{%s}, reader{%s}) produced %s (%d bytes) for plaintext %s (%d bytes), secret %s", wp, rp, q(out), len(out), q(p), len(p), q(s))
		return false
	}
	noteReader(c, "dec", sp, sr, rp)
	c.Add(writerKindCounter[true][wp.kind%nWriterKinds], 1)
	c.Add("stream_round_trips", 1)
	return true
}

// faultPositions: all offsets in [0,n) if small, else boundaries plus a sample.
func faultPositions(rng *ev.Rand, n int, all bool) []int {
	if n <= 0 {
		return nil
	}
	if all || n <= 24 {
		out := make([]int, n)
		for i := range out {
			out[i] = i
		}
		return out
	}
	seen := map[int]bool{}
	var out []int
	add := func(k int) {
		if k >= 0 && k < n && !seen[k] {
			seen[k] = true
			out = append(out, k)
		}
	}
	for _, k := range []int{0, 1, 7, 8, 9, 15, 16, 17, n - 1, n - 2} {
		add(k)
	}
	for i := 0; i < 6; i++ {
		add(rng.Intn(n))
	}
	return out
}

func streamCase(c *ev.Case) {
	rng := c.Rng
	t := sut{c}
	var p []byte
	if rng.Chance(1, 12) {
		p = []byte{}
	} else {
		p = genPlain(rng)
	}
	s := genSecret(rng)
	sStr := rng.Bool()
	if len(s) == 0 {
		c.Add("empty_secret", 1)
	}
	if len(p) == 0 {
		c.Add("stream_empty_plaintext", 1)
	}

	// round trip: one chunk script for encryption, several for decryption
	erp, ewp := planReader(rng, len(p), -1), planWriter(rng, -1)
	ct := streamEnc(c, t, p, s, sStr, erp, ewp, rng)
	if ct == nil {
		return
	}
	h := ev.Mix(ev.HashString("stream"), ev.HashBytes(p), ev.HashBytes(s), ev.HashString(erp.String()), ev.HashString(ewp.String()))
	for k := 0; k < 4; k++ {
		drp, dwp := planReader(rng, len(ct), -1), planWriter(rng, -1)
		h = ev.Mix(h, ev.HashString(drp.String()), ev.HashString(dwp.String()))
		if !streamDec(c, t, ct, p, s, rng.Bool(), drp, dwp, rng) {
			return
		}
	}
	c.Distinct(h)

	// the chunkings the statement names explicitly, on every case
	named := []readerPlan{
		{kind: 4, chunk: 1, failAt: -1, desc: "scripted chunk=1"},
		{kind: 4, chunk: 1, eofWithData: true, failAt: -1, desc: "scripted chunk=1 eofWithData"},
		{kind: 13, chunk: 0, eofWithData: true, failAt: -1, desc: "scripted whole buffer, EOF with data"},
		{kind: 8, failAt: -1, desc: "iotest.OneByteReader"},
		{kind: 10, failAt: -1, desc: "iotest.DataErrReader"},
	}
	for i := 0; i < 2; i++ {
		rp := named[rng.Intn(len(named))]
		if !streamDec(c, t, ct, p, s, rng.Bool(), rp, planWriter(rng, -1), rng) {
			return
		}
		// and the same behaviours on the encryption side
		ct2 := streamEnc(c, t, p, s, sStr, named[rng.Intn(len(named))], planWriter(rng, -1), rng)
		if ct2 == nil {
			return
		}
		if !streamDec(c, t, ct2, p, s, sStr, planReader(rng, len(ct2), -1), planWriter(rng, -1), rng) {
			return
		}
	}

	// fault sequences
	all := len(p) <= 20
	// (a) encryption source fails after k bytes (k = len(p): fails instead of EOF)
	for _, k := range faultPositions(rng, len(p)+1, all) {
		rp, wp := planReader(rng, len(p), k), planWriter(rng, -1)
		rd, sp, _ := rp.build(p, rng)
		snk := wp.build(len(p) + 16)
		err, ok := t.encStream(snk.w, rd, s, sStr)
		if !ok {
			return
		}
		c.Logf("EncryptStreamTo(writer{%s}, reader{%s}) -> %s", wp, rp, errStr(err))
		if sp.runaway || snk.runaway() {
			c.Failf("stream-runaway", "EncryptStreamTo did not stop after its source failed (reader{%s}, %d Read calls)", rp, sp.calls)
			return
		}
		if err == nil {
			c.Failf("stream-fault-swallowed/enc-reader", "EncryptStreamTo(writer{%s}, reader{%s}) returned nil although its source failed after %d of %d bytes", wp, rp, k, len(p))
			return
		}
		c.Add("stream_faults_injected", 1)
		c.Add("stream_fault_enc_reader", 1)
	}
	// (b) encryption sink fails at offset k: header 0..7, salt 8..15, body 16..
	for _, k := range faultPositions(rng, len(p)+16, all) {
		rp, wp := planReader(rng, len(p), -1), planWriter(rng, k)
		rd, sp, _ := rp.build(p, rng)
		snk := wp.build(len(p) + 16)
		err, ok := t.encStream(snk.w, rd, s, sStr)
		if !ok {
			return
		}
		c.Logf("EncryptStreamTo(writer{%s}, reader{%s}) -> %s", wp, rp, errStr(err))
		if sp.runaway || snk.runaway() {
			c.Failf("stream-runaway", "EncryptStreamTo did not stop after its sink failed (writer{%s})", wp)
			return
		}
		reg := "body"
		if k < 8 {
			reg = "header"
		} else if k < 16 {
			reg = "salt"
		}
		if err == nil {
			c.Failf("stream-fault-swallowed/enc-writer", "EncryptStreamTo(writer{%s}, reader{%s}) returned nil although its sink failed at byte offset %d (%s) of the %d-byte output for plaintext %s", wp, rp, k, reg, len(p)+16, q(p))
			return
		}
		c.Add("stream_faults_injected", 1)
		c.Add("stream_fault_writer_"+reg, 1)
	}
	// (c) decryption source fails after k bytes of the stream
	for _, k := range faultPositions(rng, len(ct)+1, all) {
		rp, wp := planReader(rng, len(ct), k), planWriter(rng, -1)
		rd, sp, _ := rp.build(ct, rng)
		snk := wp.build(len(ct))
		err, ok := t.decStream(snk.w, rd, s, sStr)
		if !ok {
			return
		}
		c.Logf("DecryptStreamTo(writer{%s}, reader{%s}) -> %s", wp, rp, errStr(err))
		if sp.runaway || snk.runaway() {
			c.Failf("stream-runaway", "DecryptStreamTo did not stop after its source failed (reader{%s}, %d Read calls)", rp, sp.calls)
			return
		}
		if err == nil {
			c.Failf("stream-fault-swallowed/dec-reader", "DecryptStreamTo(writer{%s}, reader{%s}) returned nil although its source failed after %d of %d bytes", wp, rp, k, len(ct))
			return
		}
		c.Add("stream_faults_injected", 1)
		c.Add("stream_fault_dec_reader", 1)
	}
	// (d) decryption sink fails at offset k of the plaintext; the source hands
	// the header over in one piece so that only the sink is at fault
	for _, k := range faultPositions(rng, len(p), all) {
		rp := readerPlan{kind: rng.Pick(0, 3), failAt: -1}
		wp := planWriter(rng, k)
		rd, sp, _ := rp.build(ct, rng)
		snk := wp.build(len(ct))
		err, ok := t.decStream(snk.w, rd, s, sStr)
		if !ok {
			return
		}
		c.Logf("DecryptStreamTo(writer{%s}, reader{%s}) -> %s", wp, rp, errStr(err))
		if sp.runaway || snk.runaway() {
			c.Failf("stream-runaway", "DecryptStreamTo did not stop after its sink failed (writer{%s})", wp)
			return
		}
		if err == nil {
			c.Failf("stream-fault-swallowed/dec-writer", "DecryptStreamTo(writer{%s}, reader{%s}) returned nil although its sink failed at byte offset %d of the %d-byte plaintext", wp, rp, k, len(p))
			return
		}
		c.Add("stream_faults_injected", 1)
		c.Add("stream_fault_dec_writer", 1)
	}

	// truncated streams: shorter than the header -> error; longer -> no panic, no verdict (CTR has no authentication)
	for L := 0; L < len(ct); L++ {
		if L > 20 && !rng.Chance(1, 8) {
			continue
		}
		rp, wp := planReader(rng, L, -1), planWriter(rng, -1)
		rd, sp, _ := rp.build(ct[:L], rng)
		snk := wp.build(len(ct))
		err, ok := t.decStream(snk.w, rd, s, sStr)
		if !ok {
			return
		}
		c.Logf("DecryptStreamTo(first %d of %d stream bytes via reader{%s}) -> %s", L, len(ct), rp, errStr(err))
		if sp.runaway || snk.runaway() {
			c.Failf("stream-runaway", "DecryptStreamTo did not stop on a %d-byte truncated stream (reader{%s})", L, rp)
			return
		}
		if L < 16 {
			if err == nil {
				c.Failf("stream-short-accepted", "DecryptStreamTo(reader{%s}) returned nil on the first %d bytes of a stream (shorter than the 16-byte Salted__ header): %x", rp, L, ct[:L])
				return
			}
			c.Add("stream_truncated_in_header", 1)
		} else if err == nil {
			c.Add("stream_truncated_body_accepted", 1)
		} else if !sp.headerClean() {
			c.Add("stream_truncated_body_error_header_chunked", 1)
		} else {
			c.Add("stream_truncated_body_error", 1)
		}
	}
	if c.WantSample() {
		c.Sample(fmt.Sprintf("stream: %d-byte plaintext %s, secret %s; encrypted via reader{%s} writer{%s}; decrypted under 6+ chunk scripts; faults at reader/writer offsets; truncations",
			len(p), q(p), q(s), erp, ewp))
	}
}

// streamLargeCase crosses io.Copy's 32 KiB buffer and bytes.Buffer growth.
func streamLargeCase(c *ev.Case) {
	rng := c.Rng
	t := sut{c}
	n := rng.Pick(32*1024-17, 32*1024-16, 32*1024-1, 32*1024, 32*1024+1, 32*1024+16, 64*1024, 70001, 200000)
	if c.Thorough() && rng.Chance(1, 20) {
		n = rng.Range(1<<20, 3<<20)
	}
	p := genPlainN(rng, n)
	s := genSecret(rng)
	sStr := rng.Bool()
	pick := func(total int) readerPlan {
		for {
			rp := planReader(rng, total, -1)
			// one-byte scripts over megabytes only cost time
			if (rp.kind == 8 || (rp.kind == 4 && rp.chunk < 7) || rp.kind == 5 || rp.kind == 12) && total > 100000 {
				continue
			}
			return rp
		}
	}
	erp, ewp := pick(n), planWriter(rng, -1)
	ct := streamEnc(c, t, p, s, sStr, erp, ewp, rng)
	if ct == nil {
		return
	}
	for k := 0; k < 2; k++ {
		if !streamDec(c, t, ct, p, s, rng.Bool(), pick(len(ct)), planWriter(rng, -1), rng) {
			return
		}
	}
	c.Add("stream_large_round_trips", 1)
	c.Max("max_stream_len", int64(n))
	c.Distinct(ev.Mix(ev.HashString("stream/large"), ev.HashBytes(p), ev.HashBytes(s), ev.HashString(erp.String())))
	if c.WantSample() {
		c.Sample(fmt.Sprintf("stream/large: %d bytes via reader{%s} writer{%s}, decrypted twice under other scripts", n, erp, ewp))
	}
}

func sinkErr(err error) string {
	if err == nil {
		return ""
	}
	return "; reading the destination back: " + err.Error()
}
