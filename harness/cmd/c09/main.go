// C09 — Secret-based encryption: round-trip, OpenSSL format, tamper evidence, chunking.
//
// Engines (all run the real cryptz code; every golib call is guarded):
//
//	cbc       Encrypt/Decrypt/SaltBySecretCBC*: round trip; wire format by an independent
//	          EVP_BytesToKey(MD5,1)+stdlib CBC derivation in both directions; every prefix,
//	          single-character / single-byte corruptions and crafted paddings judged
//	          against the reference decoder (error exactly where it says "invalid")
//	gcm       GCMEncrypt/GCMDecrypt/SaltBySecretGCM*: round trip; every byte of the decoded
//	          message altered, secret and additional data altered, every truncation -> error
//	stream    EncryptStreamTo/DecryptStreamTo through scripted readers/writers (all
//	          chunkings, (0,nil) reads, data+EOF, hidden/custom WriterTo/ReaderFrom) and
//	          fault sequences (reader fails after k bytes, writer fails at offset k)
//	garbage   arbitrary and near-valid input into all five decryption entry points
//	openssl   the openssl CLI as external oracle in both directions (skipped if absent)
//	wrapped-interop  Decrypt on base64 laid out in lines of 64 as `openssl enc -a` prints it
//	          (independent derivation on every case, the openssl binary on a sample)
//	long-args secrets / additional data of hundreds to thousands of bytes, altered in the tail
//	*/checkptr  cbc, gcm and stream again in a -race (checkptr) build
package main

import (
	"bytes"
	"fmt"
	"io"
	"os/exec"

	"github.com/welllog/golib/cryptz"

	"verif/ev"
)

// ---------- generators ----------

var secretWords = []string{"whaterror", "123456", "im a pass", "测试", "пароль", "🔑key", "p@ss w0rd!", "a", "S", "Salted__", "é"}

func genSecret(rng *ev.Rand) []byte {
	switch rng.Intn(14) {
	case 12, 13: // a secret that reads as an encoding of something (hex digits, base64) is still the secret itself
		alpha := rng.PickStr("0123456789abcdef", "0123456789ABCDEF", "ABCDEFGHIJKLMNOPQRSTUVWXYZabcdefghijklmnopqrstuvwxyz0123456789+/", "0123456789")
		b := make([]byte, rng.Pick(16, 24, 32, 32, 44, 48, 64))
		for i := range b {
			b[i] = alpha[rng.Intn(len(alpha))]
		}
		if rng.Chance(1, 4) && len(b) >= 2 {
			b[len(b)-1], b[len(b)-2] = '=', '='
		}
		return b
	case 0:
		return []byte{}
	case 1:
		return []byte{byte(rng.Intn(256))}
	case 2, 3:
		return []byte(secretWords[rng.Intn(len(secretWords))])
	case 4: // multi-byte runes: byte length != rune count
		n := rng.Range(1, 6)
		var b []byte
		for i := 0; i < n; i++ {
			b = append(b, []byte(rng.PickStr("测", "试", "é", "🔑", "ß", "x", "界"))...)
		}
		return b
	case 5: // MD5 block boundaries of secret||salt and digest||secret||salt
		return rng.Bytes(rng.Pick(39, 40, 41, 47, 48, 49, 55, 56, 57, 63, 64, 65, 119, 120))
	case 6: // binary with NULs
		b := rng.Bytes(rng.Range(1, 24))
		b[rng.Intn(len(b))] = 0
		return b
	case 7:
		return rng.Bytes(rng.Range(100, 300))
	case 8: // printable
		n := rng.Range(1, 32)
		b := make([]byte, n)
		for i := range b {
			b[i] = byte(rng.Range(0x20, 0x7e))
		}
		return b
	default:
		return rng.Bytes(rng.Range(1, 40))
	}
}

var plainBoundary = []int{0, 1, 15, 16, 17, 31, 32, 33, 47, 48, 49, 63, 64, 65, 79, 80, 81, 95, 96, 97, 100}

func genLen(rng *ev.Rand) int {
	switch rng.Intn(20) {
	case 0, 1, 2:
		return plainBoundary[rng.Intn(len(plainBoundary))]
	case 3:
		return rng.Range(101, 600)
	case 4, 5, 6, 7:
		return rng.Range(0, 48)
	default:
		return rng.Range(0, 100)
	}
}

func genPlainN(rng *ev.Rand, n int) []byte {
	p := rng.Bytes(n)
	switch rng.Intn(8) {
	case 0:
		for i := range p {
			p[i] = 0
		}
	case 1, 2: // every block ends in something that looks like PKCS#7 padding
		for e := 16; e <= len(p); e += 16 {
			k := rng.Pick(1, 1, 2, 3, 8, 15, 16)
			for i := e - k; i < e; i++ {
				p[i] = byte(k)
			}
		}
		if n > 0 && rng.Bool() {
			p[n-1] = byte(rng.Pick(0, 1, 16, 17))
		}
	case 3:
		for i := range p {
			p[i] = byte(rng.Range(0x20, 0x7e))
		}
	case 4: // UTF-8 text cut to n bytes
		src := []byte("👋，世界 hello, this is a test!!! ")
		for i := range p {
			p[i] = src[i%len(src)]
		}
	case 5:
		for i := range p {
			p[i] = byte(rng.Pick(0, 1, 15, 16, 17, 255))
		}
	}
	return p
}

func genPlain(rng *ev.Rand) []byte { return genPlainN(rng, genLen(rng)) }

func genAD(rng *ev.Rand) []byte {
	switch rng.Intn(8) {
	case 0, 1:
		return []byte{}
	case 2:
		return []byte("im a additional data")
	case 3:
		return []byte{byte(rng.Intn(256))}
	case 4:
		return rng.Bytes(rng.Range(60, 200))
	case 5:
		return []byte(rng.PickStr("测试", "ad", "Salted__", "\x00"))
	default:
		return rng.Bytes(rng.Range(1, 32))
	}
}

// differentBytes returns a value != b obtained by a small edit.
func differentBytes(rng *ev.Rand, b []byte) ([]byte, string) {
	for try := 0; try < 8; try++ {
		o := append([]byte{}, b...)
		how := ""
		switch rng.Intn(7) {
		case 0:
			if len(o) == 0 {
				continue
			}
			i := rng.Intn(len(o))
			o[i] ^= 1 << uint(rng.Intn(8))
			how = fmt.Sprintf("bit flipped in byte %d", i)
		case 1:
			o = append(o, byte(rng.Intn(256)))
			how = "one byte appended"
		case 2:
			if len(o) == 0 {
				continue
			}
			o = o[:len(o)-1]
			how = "last byte dropped"
		case 3:
			if len(o) == 0 {
				continue
			}
			o = o[1:]
			how = "first byte dropped"
		case 4:
			o = append([]byte{0}, o...)
			how = "NUL prepended"
		case 5:
			if len(o) == 0 {
				o = []byte{' '}
				how = "empty -> one space"
			} else {
				o = []byte{}
				how = "replaced by empty"
			}
		default:
			if len(o) < 2 || o[0] == o[len(o)-1] {
				continue
			}
			o[0], o[len(o)-1] = o[len(o)-1], o[0]
			how = "first and last byte swapped"
		}
		if !bytes.Equal(o, b) {
			return o, how
		}
	}
	return append(append([]byte{}, b...), 'x'), "x appended"
}

// Everything handed to Logf/Failf is formatted lazily (fmt.Stringer values):
// the witness log is only rendered on the logging re-run of a failing case.

type Q []byte

func (b Q) String() string {
	if len(b) > 72 {
		return fmt.Sprintf("%q…(%d bytes)", []byte(b[:72]), len(b))
	}
	return fmt.Sprintf("%q", []byte(b))
}

func q(b []byte) Q { return Q(b) }

type E struct{ err error }

func (e E) String() string {
	if e.err == nil {
		return "nil"
	}
	return "error(" + e.err.Error() + ")"
}

func errStr(err error) E { return E{err} }

type lazy struct {
	f string
	a []any
}

func lz(f string, a ...any) lazy { return lazy{f, a} }
func (l lazy) String() string    { return fmt.Sprintf(l.f, l.a...) }

// cl clones b. alt: capacity exactly len(b) (nil when empty), so that slicing
// past the length faults; otherwise a non-nil slice with spare capacity.
func cl(b []byte, alt bool) []byte {
	if alt {
		if len(b) == 0 {
			return nil
		}
		o := make([]byte, len(b))
		copy(o, b)
		return o[:len(b):len(b)]
	}
	o := make([]byte, len(b), len(b)+24)
	copy(o, b)
	spare := o[len(b):cap(o)]
	for i := range spare {
		spare[i] = 0xEE
	}
	return o
}

// clArena clones the arguments of one call. alt: each in memory of its own with
// capacity == length. Otherwise all of them lie back to back in one array (in a
// rotated order), each slice's capacity running on over the arguments behind it: a
// caller that keeps secret, message and additional data in one buffer. A callee that
// appends to one argument "because there is room" then overwrites the next one.
func clArena(alt bool, parts ...[]byte) [][]byte {
	out := make([][]byte, len(parts))
	if alt {
		for i, b := range parts {
			out[i] = cl(b, true)
		}
		return out
	}
	total := 0
	for _, b := range parts {
		total += len(b)
	}
	arena := make([]byte, total, total+24)
	for i := total; i < cap(arena); i++ {
		arena[:cap(arena)][i] = 0xEE
	}
	off := 0
	for k := range parts {
		i := (k + total) % len(parts)
		copy(arena[off:], parts[i])
		out[i] = arena[off : off+len(parts[i])]
		off += len(parts[i])
	}
	return out
}

// ---------- golib call wrappers (type combinations, clones, guards) ----------

// combo bits: 1 = first argument as string, 2 = secret as string,
// 4 = additional data as string, 8 = clone style.
var comboTab [2][16]string

func init() {
	for i := 0; i < 16; i++ {
		comboTab[0][i] = comboStrSlow(i, false)
		comboTab[1][i] = comboStrSlow(i, true)
	}
}

func comboStr(combo int, ad bool) string {
	if ad {
		return comboTab[1][combo&15]
	}
	return comboTab[0][combo&15]
}

func comboStrSlow(combo int, ad bool) string {
	k := func(bit int) string {
		if combo&bit != 0 {
			return "string"
		}
		return "[]byte"
	}
	if ad {
		return "(" + k(1) + "," + k(2) + "," + k(4) + ")"
	}
	return "(" + k(1) + "," + k(2) + ")"
}

type sut struct{ c *ev.Case }

func (t sut) encrypt(p, s []byte, combo int) (out []byte, err error, ok bool) {
	alt := combo&8 != 0
	ar := clArena(alt, p, s)
	pc, sc := ar[0], ar[1]
	ok = t.c.Guard("Encrypt", func() {
		switch combo & 3 {
		case 0:
			out, err = cryptz.Encrypt(pc, sc)
		case 1:
			out, err = cryptz.Encrypt(string(pc), sc)
		case 2:
			out, err = cryptz.Encrypt(pc, string(sc))
		default:
			out, err = cryptz.Encrypt(string(pc), string(sc))
		}
	})
	t.c.Add("calls_Encrypt", 1)
	t.c.Add(tcEncrypt[combo&3], 1)
	return
}

func (t sut) decrypt(ct, s []byte, combo int) (out []byte, err error, ok bool) {
	alt := combo&8 != 0
	ar := clArena(alt, ct, s)
	cc, sc := ar[0], ar[1]
	ok = t.c.Guard("Decrypt", func() {
		switch combo & 3 {
		case 0:
			out, err = cryptz.Decrypt(cc, sc)
		case 1:
			out, err = cryptz.Decrypt(string(cc), sc)
		case 2:
			out, err = cryptz.Decrypt(cc, string(sc))
		default:
			out, err = cryptz.Decrypt(string(cc), string(sc))
		}
	})
	t.c.Add("calls_Decrypt", 1)
	t.c.Add(tcDecrypt[combo&3], 1)
	if ok && (!bytes.Equal(cc, ct) || !bytes.Equal(sc, s)) {
		t.c.Failf("input-modified/Decrypt", "Decrypt overwrote its caller's message or secret buffer (a message must stay decryptable, e.g. to try another secret): message now %+q", string(cc))
		ok = false
	}
	return
}

func (t sut) rawCBCEnc(p, s []byte, combo int) (out []byte, err error, ok bool) {
	alt := combo&8 != 0
	ar := clArena(alt, p, s)
	pc, sc := ar[0], ar[1]
	ok = t.c.Guard("SaltBySecretCBCEncrypt", func() {
		switch combo & 3 {
		case 0:
			out, err = cryptz.SaltBySecretCBCEncrypt(pc, sc)
		case 1:
			out, err = cryptz.SaltBySecretCBCEncrypt(string(pc), sc)
		case 2:
			out, err = cryptz.SaltBySecretCBCEncrypt(pc, string(sc))
		default:
			out, err = cryptz.SaltBySecretCBCEncrypt(string(pc), string(sc))
		}
	})
	t.c.Add("calls_SaltBySecretCBCEncrypt", 1)
	t.c.Add(tcRawCBCEnc[combo&3], 1)
	return
}

// rawCBCDec: combo bit 2 = secret as string, bit 1 = reuseCipherText.
func (t sut) rawCBCDec(raw, s []byte, combo int) (out []byte, err error, ok bool) {
	alt := combo&8 != 0
	ar := clArena(alt, raw, s)
	rc, sc := ar[0], ar[1]
	reuse := combo&1 != 0
	ok = t.c.Guard("SaltBySecretCBCDecrypt", func() {
		if combo&2 != 0 {
			out, err = cryptz.SaltBySecretCBCDecrypt(rc, string(sc), reuse)
		} else {
			out, err = cryptz.SaltBySecretCBCDecrypt(rc, sc, reuse)
		}
	})
	t.c.Add(tcRawCBCDec[(combo>>1)&1], 1)
	if reuse {
		t.c.Add("calls_SaltBySecretCBCDecrypt_reuse", 1)
	} else {
		t.c.Add("calls_SaltBySecretCBCDecrypt_copy", 1)
	}
	return
}

func (t sut) gcmEncrypt(p, s, a []byte, combo int) (out []byte, err error, ok bool) {
	alt := combo&8 != 0
	ar := clArena(alt, p, s, a)
	pc, sc, ac := ar[0], ar[1], ar[2]
	ok = t.c.Guard("GCMEncrypt", func() {
		switch combo & 7 {
		case 0:
			out, err = cryptz.GCMEncrypt(pc, sc, ac)
		case 1:
			out, err = cryptz.GCMEncrypt(string(pc), sc, ac)
		case 2:
			out, err = cryptz.GCMEncrypt(pc, string(sc), ac)
		case 3:
			out, err = cryptz.GCMEncrypt(string(pc), string(sc), ac)
		case 4:
			out, err = cryptz.GCMEncrypt(pc, sc, string(ac))
		case 5:
			out, err = cryptz.GCMEncrypt(string(pc), sc, string(ac))
		case 6:
			out, err = cryptz.GCMEncrypt(pc, string(sc), string(ac))
		default:
			out, err = cryptz.GCMEncrypt(string(pc), string(sc), string(ac))
		}
	})
	t.c.Add("calls_GCMEncrypt", 1)
	t.c.Add(tcGCMEncrypt[combo&7], 1)
	return
}

func (t sut) gcmDecrypt(ct, s, a []byte, combo int) (out []byte, err error, ok bool) {
	alt := combo&8 != 0
	ar := clArena(alt, ct, s, a)
	cc, sc, ac := ar[0], ar[1], ar[2]
	ok = t.c.Guard("GCMDecrypt", func() {
		switch combo & 7 {
		case 0:
			out, err = cryptz.GCMDecrypt(cc, sc, ac)
		case 1:
			out, err = cryptz.GCMDecrypt(string(cc), sc, ac)
		case 2:
			out, err = cryptz.GCMDecrypt(cc, string(sc), ac)
		case 3:
			out, err = cryptz.GCMDecrypt(string(cc), string(sc), ac)
		case 4:
			out, err = cryptz.GCMDecrypt(cc, sc, string(ac))
		case 5:
			out, err = cryptz.GCMDecrypt(string(cc), sc, string(ac))
		case 6:
			out, err = cryptz.GCMDecrypt(cc, string(sc), string(ac))
		default:
			out, err = cryptz.GCMDecrypt(string(cc), string(sc), string(ac))
		}
	})
	t.c.Add("calls_GCMDecrypt", 1)
	t.c.Add(tcGCMDecrypt[combo&7], 1)
	if ok && (!bytes.Equal(cc, ct) || !bytes.Equal(sc, s) || !bytes.Equal(ac, a)) {
		t.c.Failf("input-modified/GCMDecrypt", "GCMDecrypt overwrote its caller's message, secret or additional-data buffer (a message must stay decryptable, e.g. to try another secret): message now %+q", string(cc))
		ok = false
	}
	return
}

func (t sut) rawGCMEnc(p, s, a []byte, combo int) (out []byte, err error, ok bool) {
	alt := combo&8 != 0
	ar := clArena(alt, p, s, a)
	pc, sc, ac := ar[0], ar[1], ar[2]
	ok = t.c.Guard("SaltBySecretGCMEncrypt", func() {
		switch combo & 7 {
		case 0:
			out, err = cryptz.SaltBySecretGCMEncrypt(pc, sc, ac)
		case 1:
			out, err = cryptz.SaltBySecretGCMEncrypt(string(pc), sc, ac)
		case 2:
			out, err = cryptz.SaltBySecretGCMEncrypt(pc, string(sc), ac)
		case 3:
			out, err = cryptz.SaltBySecretGCMEncrypt(string(pc), string(sc), ac)
		case 4:
			out, err = cryptz.SaltBySecretGCMEncrypt(pc, sc, string(ac))
		case 5:
			out, err = cryptz.SaltBySecretGCMEncrypt(string(pc), sc, string(ac))
		case 6:
			out, err = cryptz.SaltBySecretGCMEncrypt(pc, string(sc), string(ac))
		default:
			out, err = cryptz.SaltBySecretGCMEncrypt(string(pc), string(sc), string(ac))
		}
	})
	t.c.Add("calls_SaltBySecretGCMEncrypt", 1)
	t.c.Add(tcRawGCMEnc[combo&7], 1)
	return
}

// rawGCMDec: combo bit 1 = reuseCipherText, 2 = secret as string, 4 = ad as string.
func (t sut) rawGCMDec(raw, s, a []byte, combo int) (out []byte, err error, ok bool) {
	alt := combo&8 != 0
	ar := clArena(alt, raw, s, a)
	rc, sc, ac := ar[0], ar[1], ar[2]
	reuse := combo&1 != 0
	ok = t.c.Guard("SaltBySecretGCMDecrypt", func() {
		switch (combo >> 1) & 3 {
		case 0:
			out, err = cryptz.SaltBySecretGCMDecrypt(rc, sc, ac, reuse)
		case 1:
			out, err = cryptz.SaltBySecretGCMDecrypt(rc, string(sc), ac, reuse)
		case 2:
			out, err = cryptz.SaltBySecretGCMDecrypt(rc, sc, string(ac), reuse)
		default:
			out, err = cryptz.SaltBySecretGCMDecrypt(rc, string(sc), string(ac), reuse)
		}
	})
	t.c.Add(tcRawGCMDec[(combo>>1)&3], 1)
	if reuse {
		t.c.Add("calls_SaltBySecretGCMDecrypt_reuse", 1)
	} else {
		t.c.Add("calls_SaltBySecretGCMDecrypt_copy", 1)
	}
	return
}

func (t sut) encStream(w io.Writer, r io.Reader, s []byte, asString bool) (err error, ok bool) {
	sc := cl(s, false)
	ok = t.c.Guard("EncryptStreamTo", func() {
		if asString {
			err = cryptz.EncryptStreamTo(w, r, string(sc))
		} else {
			err = cryptz.EncryptStreamTo(w, r, sc)
		}
	})
	t.c.Add("calls_EncryptStreamTo", 1)
	t.c.Add(tcEncStream[b2i(asString)], 1)
	return
}

func (t sut) decStream(w io.Writer, r io.Reader, s []byte, asString bool) (err error, ok bool) {
	sc := cl(s, false)
	ok = t.c.Guard("DecryptStreamTo", func() {
		if asString {
			err = cryptz.DecryptStreamTo(w, r, string(sc))
		} else {
			err = cryptz.DecryptStreamTo(w, r, sc)
		}
	})
	t.c.Add("calls_DecryptStreamTo", 1)
	t.c.Add(tcDecStream[b2i(asString)], 1)
	return
}

// judgeCBC compares one golib CBC decryption result with the reference
// decoder's verdict on the same input. It returns false after a Failf.
func judgeCBC(c *ev.Case, api, input fmt.Stringer, got []byte, err error, refPT []byte, refBad string) bool {
	switch {
	case refBad != "" && err == nil:
		c.Failf("cbc-accepts-invalid", "%s returned %s, nil on %s; an OpenSSL-compatible decoder rejects it: %s", api, q(got), input, refBad)
		return false
	case refBad == "" && err != nil:
		c.Failf("cbc-rejects-valid", "%s returned %s on %s, which is a valid Salted__/AES-256-CBC/MD5 message for plaintext %s", api, errStr(err), input, q(refPT))
		return false
	case refBad == "" && !bytes.Equal(got, refPT):
		c.Failf("cbc-wrong-plaintext", "%s returned %s on %s; the message decrypts to %s", api, q(got), input, q(refPT))
		return false
	}
	if refBad == "" {
		c.Add("cbc_judged_valid", 1)
	} else {
		c.Add("cbc_judged_invalid", 1)
	}
	return true
}

// judgeLooseCBC: Decrypt on a text about which the statement does not say whether
// it is to be accepted. Rejecting is fine; accepting is fine unless the text
// carries a valid message and something else comes back.
func judgeLooseCBC(c *ev.Case, api, input fmt.Stringer, got []byte, err error, refPT []byte, refBad, loose string) bool {
	if loose != "crlf" && err == nil && refBad == "" && !bytes.Equal(got, refPT) {
		c.Failf("cbc-wrong-plaintext", "%s returned %s on %s; the message in it decrypts to %s", api, q(got), input, q(refPT))
		return false
	}
	c.Add("cbc_no_verdict_"+loose, 1)
	if err == nil {
		c.Add("cbc_no_verdict_"+loose+"_accepted", 1)
	}
	return true
}

var opensslPath string

func main() {
	r := ev.New("C09")
	r.Rule("one case = one (plaintext, secret[, additional data]) triple with a choice of argument types (string/[]byte) " +
		"and, per engine, its derived family of inputs: all prefixes / corruptions / crafted paddings (cbc), every byte of the decoded " +
		"message altered plus altered secret/AD (gcm), one reader/writer chunk script per direction plus fault positions (stream), " +
		"one arbitrary input fed to all five decryption entry points (garbage), one openssl CLI round trip per direction (openssl); " +
		"distinct = distinct hash of engine + plaintext + secret + AD + type/chunk choices; non-trivial = the golib encryption " +
		"succeeded (or, for garbage, the input reached an entry point) and at least one oracle comparison was made")
	r.Assume("crypto/aes, crypto/cipher, crypto/md5, encoding/base64 of the Go standard library and the harness's EVP_BytesToKey(MD5, count 1) derivation, written from the OpenSSL description, are the reference for the Salted__ CBC format")
	r.Assume("a forged or altered GCM message, secret or additional data is accepted by a correct implementation only with probability 2^-128; the oracle treats acceptance as a violation")
	r.Assume("stream mode (CTR) and CBC carry no authentication: truncated or altered messages that are still structurally valid are allowed to decrypt (CBC: to exactly what the reference decoder yields)")
	r.Assume("scripted readers/writers stay within the io.Reader/io.Writer contracts; an injected reader/writer error must surface as a non-nil error of the stream call (DESIGN C09 (4))")
	if p, err := exec.LookPath("openssl"); err == nil {
		opensslPath = p
	}

	hv := ev.Opt{HangViolation: true, MaxCaseSeconds: 120}
	r.Cases("cbc", r.N(5000, 250000), hv, cbcCase)
	r.Cases("gcm", r.N(3000, 150000), hv, gcmCase)
	r.Cases("stream", r.N(6000, 300000), hv, streamCase)
	r.Cases("garbage", r.N(40000, 2000000), hv, garbageCase)
	r.Cases("openssl", r.N(300, 15000), ev.Opt{HangViolation: true, MaxCaseSeconds: 120, Workers: 16}, opensslCase)
	r.Cases("stream/large", r.N(12, 600), hv, streamLargeCase)
	r.Cases("secret-buffer-reuse", r.N(4000, 150000), ev.Opt{HangViolation: true, Serial: true}, secretReuseCase)
	r.Cases("big", r.N(12, 300), ev.Opt{Workers: 6, MaxCaseSeconds: 300}, bigCase)
	r.CasesProc("cold-start", 8, ev.Opt{Procs: 8}, coldCase)
	r.Cases("wrapped-interop", r.N(1500, 60000), ev.Opt{HangViolation: true, MaxCaseSeconds: 120, Workers: 16}, wrappedCase)
	r.Cases("long-args", r.N(500, 20000), hv, longCase)
	r.Cases("named-types", r.N(2000, 60000), hv, namedCase)
	r.Cases("stream/iv-carry", r.N(12, 120), ev.Opt{Workers: 6, MaxCaseSeconds: 300, HangViolation: true}, ivCarryCase)
	r.Require("ivcarry_cases", 10)
	r.Require("ivcarry_decrypts", 40)
	r.Require("named_type_cases", 1500)
	r.Require("wrapped_decrypted", 1200)
	r.Require("wrapped_multi_line", 800)
	r.Require("wrapped_three_or_more_lines", 500)
	r.Require("wrapped_last_line_full", 30)
	r.Require("long_secret_cases", 250)
	r.Require("long_ad_cases", 250)
	r.Require("long_secret_altered_cbc", 1500)
	r.Require("long_secret_altered_gcm", 1500)
	r.Require("long_ad_altered", 1500)
	r.Require("secret_buffer_reuse_cases", 2000)
	r.Require("big_cases", 10)
	r.Require("cold_start_cases", 8)
	// zero-copy string<->[]byte views under every entry point: one pass with checkptr (-race build)
	r.CasesProc("cbc/checkptr", r.N(60, 1200), ev.Opt{Bin: "race", Procs: 8}, cbcCase)
	r.CasesProc("gcm/checkptr", r.N(60, 1200), ev.Opt{Bin: "race", Procs: 8}, gcmCase)
	r.CasesProc("stream/checkptr", r.N(80, 1600), ev.Opt{Bin: "race", Procs: 8}, streamCase)
	// the same three workloads on parallel workers of a -race child: state shared between
	// independent calls (lazily built tables, pooled buffers, batched salts) is reported from
	// the happens-before relation, and the first calls of the process are made concurrently
	rp := ev.Opt{Bin: "race", Procs: 4, Workers: 8, AlwaysLog: true, HangViolation: true, MaxCaseSeconds: 120}
	r.CasesProc("cbc/race-parallel", r.N(160, 3000), rp, cbcCase)
	r.CasesProc("gcm/race-parallel", r.N(160, 3000), rp, gcmCase)
	r.CasesProc("stream/race-parallel", r.N(160, 3000), rp, streamCase)

	r.Require("cbc_round_trips", 3000)
	r.Require("cbc_format_checked", 3000)
	r.Require("cbc_reverse_decrypted", 3000)
	r.Require("cbc_judged_valid", 5000)
	r.Require("cbc_judged_invalid", 100000)
	r.Require("cbc_trunc_valid_by_padding_luck", 200)
	r.Require("cbc_crafted_padding_invalid", 3000)
	r.Require("cbc_empty_plaintext", 20)
	r.Require("cbc_block_aligned_plaintext", 200)
	r.Require("empty_secret", 300)
	r.Require("gcm_round_trips", 2000)
	r.Require("gcm_tampered_bytes", 100000)
	r.Require("gcm_tamper_magic", 10000)
	r.Require("gcm_tamper_salt", 10000)
	r.Require("gcm_tamper_ct", 20000)
	r.Require("gcm_tamper_tag", 20000)
	r.Require("gcm_secret_altered", 4000)
	r.Require("gcm_ad_altered", 4000)
	r.Require("gcm_truncations", 50000)
	r.Require("stream_round_trips", 10000)
	r.Require("stream_dec_header_split", 2000)
	r.Require("stream_dec_one_byte_reads", 300)
	r.Require("stream_zero_reads", 2000)
	r.Require("stream_eof_with_data", 2000)
	r.Require("stream_dec_eof_with_header", 20)
	r.Require("stream_faults_injected", 20000)
	r.Require("stream_fault_writer_header", 500)
	r.Require("stream_fault_writer_salt", 500)
	r.Require("stream_fault_writer_body", 500)
	r.Require("stream_large_round_trips", 8)
	r.Require("garbage_inputs", 30000)
	r.Require("garbage_short_with_magic", 1000)
	r.Require("calls_SaltBySecretCBCDecrypt_copy", 10000)
	r.Require("calls_SaltBySecretGCMDecrypt_copy", 10000)
	if opensslPath != "" {
		r.Require("openssl_decrypted_golib", 200)
		r.Require("golib_decrypted_openssl", 200)
		r.Require("golib_decrypted_openssl_wrapped", 100)
		r.Require("golib_decrypted_openssl_multi_line", 50)
	} else {
		r.Add("openssl_binary_absent", 1)
	}
	requireAuditFloors(r)
	r.Assume("white space around an otherwise untouched text, and base64 whose last quantum carries non-zero trailing bits, are outside the statement: golib may accept or reject them (an accepted one must yield the right plaintext)")
	r.Assume("the high-level entry points leave the caller's message, secret and additional-data buffers intact (a message may be decrypted more than once, e.g. when trying several secrets), and use the secret bytes as they are at the time of each call")
	r.Finish()
}
