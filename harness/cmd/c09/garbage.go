package main

import (
	"bytes"
	"encoding/base64"
	"fmt"

	"verif/ev"
)

// genGarbage draws one hostile input and says how it was built.
func genGarbage(rng *ev.Rand) ([]byte, string) {
	alignedLen := func() int {
		if rng.Chance(2, 3) {
			return rng.Pick(0, 1, 7, 8, 15, 16, 24, 32, 40, 48, 56, 64) // with the 8-byte magic: 8..72
		}
		return rng.Range(0, 80)
	}
	switch rng.Intn(14) {
	case 0:
		return rng.Bytes(rng.Range(0, 80)), "random bytes"
	case 1:
		n := rng.Range(0, 120)
		if rng.Bool() {
			n &^= 3
		}
		b := make([]byte, n)
		for i := range b {
			b[i] = b64alpha[rng.Intn(64)]
		}
		return b, "random base64 alphabet"
	case 2:
		return b64(append(append([]byte{}, magic...), rng.Bytes(alignedLen())...)), "base64 of magic + random"
	case 3:
		return b64(rng.Bytes(rng.Pick(0, 1, 8, 15, 16, 17, 31, 32, 33, 48, 64))), "base64 of random without magic"
	case 4:
		n := rng.Range(0, 130)
		b := make([]byte, n)
		for i := range b {
			b[i] = "0123456789abcdefABCDEF"[rng.Intn(22)]
		}
		return b, "random hex digits"
	case 5:
		return hexEncode(append(append([]byte{}, magic...), rng.Bytes(alignedLen())...), rng.Bool()), "hex of magic + random"
	case 6:
		return hexEncode(rng.Bytes(rng.Pick(0, 1, 8, 15, 16, 17, 31, 32, 33, 48)), rng.Bool()), "hex of random without magic"
	case 7:
		return append(append([]byte{}, magic...), rng.Bytes(alignedLen())...), "raw magic + random"
	case 8: // a prefix of the magic, or the magic slightly wrong
		m := append([]byte{}, magic...)
		switch rng.Intn(4) {
		case 0:
			m = m[:rng.Intn(8)]
		case 1:
			m[rng.Intn(8)] ^= 0x20
		case 2:
			m = []byte("salted__")
		default:
			m = []byte("Salted_")
		}
		m = append(m, rng.Bytes(rng.Pick(0, 8, 9, 24, 40))...)
		switch rng.Intn(3) {
		case 0:
			return m, "raw near-magic"
		case 1:
			return b64(m), "base64 of near-magic"
		}
		return hexEncode(m, false), "hex of near-magic"
	case 9: // exactly header-sized pieces in every encoding
		m := append(append([]byte{}, magic...), rng.Bytes(8)...)
		m = m[:rng.Pick(8, 9, 15, 16)]
		switch rng.Intn(3) {
		case 0:
			return m, "raw header fragment"
		case 1:
			return b64(m), "base64 of header fragment"
		}
		return hexEncode(m, false), "hex of header fragment"
	case 10:
		b := b64(append(append([]byte{}, magic...), rng.Bytes(alignedLen())...))
		if len(b) > 0 {
			switch rng.Intn(4) {
			case 0:
				b = b[:rng.Intn(len(b))]
			case 1:
				b[rng.Intn(len(b))] = byte(rng.Pick('=', '*', ' ', 0, 0xff))
			case 2:
				b = append(b, byte(rng.Pick('=', 'A', '\n')))
			default:
				b = append([]byte{byte(rng.Pick('=', ' ', 'A'))}, b...)
			}
		}
		return b, "damaged base64 of magic + random"
	case 11:
		b := hexEncode(append(append([]byte{}, magic...), rng.Bytes(alignedLen())...), false)
		switch rng.Intn(3) {
		case 0:
			b = b[:rng.Intn(len(b)+1)]
		case 1:
			b[rng.Intn(len(b))] = byte(rng.Pick('g', 'x', ' ', 0, 0xff))
		default:
			b = append(b, byte(rng.Pick('0', 'f', 'z')))
		}
		return b, "damaged hex of magic + random"
	case 12:
		return []byte{}, "empty"
	default:
		n := rng.Range(1, 40)
		return bytes.Repeat([]byte{byte(rng.Pick(0, '=', 'A', 'f', 0xff, 'S'))}, n), "one byte repeated"
	}
}

func garbageCase(c *ev.Case) {
	rng := c.Rng
	t := sut{c}
	x, how := genGarbage(rng)
	s := genSecret(rng)
	a := genAD(rng)
	c.Distinct(ev.Mix(ev.HashString("garbage"), ev.HashBytes(x), ev.HashBytes(s)))
	c.Add("garbage_inputs", 1)
	c.Add("garbage_class_"+how, 1)
	c.Logf("input (%s): %s   secret %s", how, q(x), q(s))
	rawForm := x
	if d, ok := refHexDecode(x); ok && (how[:3] == "hex" || how[:3] == "dam") {
		rawForm = d
	}
	shortMagic := func(b []byte) bool { return len(b) >= 8 && len(b) < 16 && bytes.Equal(b[:8], magic) }
	if d, bad := refDecodeB64(x); shortMagic(x) || shortMagic(rawForm) || (bad == "" && shortMagic(d)) {
		c.Add("garbage_short_with_magic", 1)
	}

	// Decrypt: exact verdict from the reference decoder
	refPT, refBad, loose := refOpenText(x, s)
	combo := rng.Intn(16)
	got, err, ok := t.decrypt(x, s, combo)
	if !ok {
		return
	}
	c.Logf("Decrypt%s -> %s, %s  [reference: %s]", comboStr(combo, false), q(got), errStr(err), refVerdict(refPT, refBad))
	if loose == "" {
		if !judgeCBC(c, lz("Decrypt%s", comboStr(combo, false)), lz("%s input %s (secret %s)", how, q(x), q(s)), got, err, refPT, refBad) {
			return
		}
	} else if !judgeLooseCBC(c, lz("Decrypt%s", comboStr(combo, false)), lz("%s input %s (secret %s)", how, q(x), q(s)), got, err, refPT, refBad, loose) {
		return
	}
	// SaltBySecretCBCDecrypt on the bytes themselves
	refPT, refBad = refOpenRaw(x, s)
	combo = rng.Intn(16)
	got, err, ok = t.rawCBCDec(x, s, combo)
	if !ok {
		return
	}
	c.Logf("SaltBySecretCBCDecrypt(reuse=%v) -> %s, %s  [reference: %s]", combo&1 != 0, q(got), errStr(err), refVerdict(refPT, refBad))
	if !judgeCBC(c, lz("SaltBySecretCBCDecrypt(reuse=%v)", combo&1 != 0), lz("%s input %x (secret %s)", how, x, q(s)), got, err, refPT, refBad) {
		return
	}
	// a second copy of the input decoded from base64, so that the raw entry points see the near-valid bytes too
	if d, bad := refDecodeB64(x); bad == "" && len(d) > 0 {
		refPT, refBad = refOpenRaw(d, s)
		combo = rng.Intn(16)
		got, err, ok = t.rawCBCDec(d, s, combo)
		if !ok {
			return
		}
		if !judgeCBC(c, lz("SaltBySecretCBCDecrypt(reuse=%v)", combo&1 != 0), lz("%x (secret %s)", d, q(s)), got, err, refPT, refBad) {
			return
		}
		combo = rng.Intn(16)
		got, err, ok = t.rawGCMDec(d, s, a, combo)
		if !ok {
			return
		}
		if err == nil {
			c.Failf("gcm-garbage-accepted", "SaltBySecretGCMDecrypt(reuse=%v) returned %s, nil on unauthenticated input %x (secret %s, additional data %s)", combo&1 != 0, q(got), d, q(s), q(a))
			return
		}
	}

	// GCM entry points: nothing here was produced with the key, so every input must be rejected
	combo = rng.Intn(16)
	got, err, ok = t.gcmDecrypt(x, s, a, combo)
	if !ok {
		return
	}
	c.Logf("GCMDecrypt%s -> %s, %s", comboStr(combo, true), q(got), errStr(err))
	if err == nil {
		c.Failf("gcm-garbage-accepted", "GCMDecrypt%s returned %s, nil on %s input %s (secret %s, additional data %s)", comboStr(combo, true), q(got), how, q(x), q(s), q(a))
		return
	}
	for _, in := range [][]byte{x, rawForm} {
		combo = rng.Intn(16)
		got, err, ok = t.rawGCMDec(in, s, a, combo)
		if !ok {
			return
		}
		c.Logf("SaltBySecretGCMDecrypt(%x, reuse=%v) -> %s, %s", in, combo&1 != 0, q(got), errStr(err))
		if err == nil {
			c.Failf("gcm-garbage-accepted", "SaltBySecretGCMDecrypt(reuse=%v) returned %s, nil on unauthenticated input %x (secret %s, additional data %s)", combo&1 != 0, q(got), in, q(s), q(a))
			return
		}
	}

	// DecryptStreamTo: shorter than the header or without the magic -> error; otherwise no verdict
	for _, in := range [][]byte{x, rawForm} {
		rp, wp := planReader(rng, len(in), -1), planWriter(rng, -1)
		rd, sp, _ := rp.build(in, rng)
		snk := wp.build(len(in) + 16)
		err, ok := t.decStream(snk.w, rd, s, rng.Bool())
		if !ok {
			return
		}
		c.Logf("DecryptStreamTo(reader{%s} over %x) -> %s", rp, in, errStr(err))
		if sp.runaway || snk.runaway() {
			c.Failf("stream-runaway", "DecryptStreamTo did not stop on %d bytes of garbage (reader{%s}, %d Read calls)", len(in), rp, sp.calls)
			return
		}
		switch {
		case len(in) < 16:
			if err == nil {
				c.Failf("stream-short-accepted", "DecryptStreamTo(reader{%s}) returned nil on a %d-byte stream (shorter than the 16-byte header): %x", rp, len(in), in)
				return
			}
			c.Add("garbage_stream_short", 1)
		case !bytes.Equal(in[:8], magic):
			if err == nil {
				c.Failf("stream-magic-accepted", "DecryptStreamTo(reader{%s}) returned nil on a stream that does not start with Salted__: %x", rp, in)
				return
			}
			c.Add("garbage_stream_no_magic", 1)
		default:
			c.Add("garbage_stream_structurally_valid", 1)
		}
		if bytes.Equal(in, x) && bytes.Equal(rawForm, x) {
			break
		}
	}
	if c.WantSample() {
		c.Sample(fmt.Sprintf("garbage (%s): %s with secret %s into Decrypt, SaltBySecretCBCDecrypt, GCMDecrypt, SaltBySecretGCMDecrypt, DecryptStreamTo", how, q(x), q(s)))
	}
}

// refDecodeB64 is the strict single-line decode used to hand the raw entry
// points the bytes behind a base64 garbage text.
func refDecodeB64(x []byte) ([]byte, string) {
	if !isStdBase64Line(x) {
		return nil, "not base64"
	}
	d, err := base64.StdEncoding.DecodeString(string(x))
	if err != nil {
		return nil, err.Error()
	}
	return d, ""
}
