package main

import (
	"bytes"
	"fmt"

	"verif/ev"
)

// "For every ... secret", "the secret or the additional data differs": the other
// engines draw secrets up to 300 and additional data up to 200 bytes. Here they are
// hundreds to thousands of bytes long (passphrases read from key files, JSON
// headers as additional data), and the alterations sit in the tail, behind every
// plausible fixed-size scratch buffer.

func genLongLen(rng *ev.Rand) int {
	if rng.Chance(1, 3) {
		return rng.Pick(301, 511, 512, 513, 1023, 1024, 1025, 2047, 2048, 2049, 4095, 4096, 4097, 8192, 16384)
	}
	return rng.Range(301, 6000)
}

type alteration struct {
	b   []byte
	how string
}

// tailAlterations: values that differ from b only at or behind position len(b)/2.
func tailAlterations(rng *ev.Rand, b []byte) []alteration {
	n := len(b)
	cp := func() []byte { return append([]byte{}, b...) }
	var out []alteration
	o := cp()
	o[n-1] ^= 1 << uint(rng.Intn(8))
	out = append(out, alteration{o, "one bit of the last byte flipped"})
	out = append(out, alteration{cp()[:n-1], "last byte dropped"})
	out = append(out, alteration{append(cp(), byte(rng.Intn(256))), "one byte appended"})
	i := rng.Range(n/2, n-1)
	o = cp()
	o[i] ^= byte(1 + rng.Intn(255))
	out = append(out, alteration{o, fmt.Sprintf("byte %d of %d changed", i, n)})
	for _, cut := range []int{256, 512, 1024, 2048, 4096} {
		if cut < n {
			out = append(out, alteration{cp()[:cut], fmt.Sprintf("cut to its first %d of %d bytes", cut, n)})
		}
	}
	return out
}

func longCase(c *ev.Case) {
	rng := c.Rng
	t := sut{c}
	which := rng.Intn(3) // 0: long secret, 1: long additional data, 2: both
	s, a := genSecret(rng), genAD(rng)
	if which != 1 {
		s = rng.Bytes(genLongLen(rng))
	}
	if which != 0 {
		a = rng.Bytes(genLongLen(rng))
	}
	p := genPlainN(rng, rng.Pick(0, 1, 15, 16, 17, 40, 100))
	longS, longA := which != 1, which != 0
	c.Distinct(ev.Mix(ev.HashString("long-args"), ev.HashBytes(p), ev.HashBytes(s), ev.HashBytes(a)))
	c.Max("max_secret_len", int64(len(s)))
	c.Max("max_ad_len", int64(len(a)))

	if longS {
		// CBC: format under the whole secret, both directions
		encCombo, decCombo := rng.Intn(16), rng.Intn(16)
		ct, err, ok := t.encrypt(p, s, encCombo)
		if !ok {
			return
		}
		c.Logf("Encrypt%s(%s, %d-byte secret) -> %s, %s", comboStr(encCombo, false), q(p), len(s), q(ct), errStr(err))
		if err != nil {
			c.Failf("enc-error", "Encrypt%s(%s, %d-byte secret %s) returned %s", comboStr(encCombo, false), q(p), len(s), q(s), errStr(err))
			return
		}
		raw := checkFormat(c, fmt.Sprintf("Encrypt%s with a %d-byte secret", comboStr(encCombo, false), len(s)), ct, p, s, true)
		if raw == nil {
			return
		}
		got, err, ok := t.decrypt(ct, s, decCombo)
		if !ok {
			return
		}
		if err != nil || !bytes.Equal(got, p) {
			c.Failf("round-trip", "Decrypt%s(Encrypt%s(%s, %d-byte secret %s)) = %s, %s", comboStr(decCombo, false), comboStr(encCombo, false), q(p), len(s), q(s), q(got), errStr(err))
			return
		}
		msg := refSealRaw(p, s, rng.Bytes(8))
		rcombo := rng.Intn(16)
		got, err, ok = t.decrypt(b64(msg), s, rcombo)
		if !ok {
			return
		}
		if err != nil || !bytes.Equal(got, p) {
			c.Failf("reverse", "Decrypt%s rejects or mis-decrypts an OpenSSL-format message under a %d-byte secret: plaintext %s, secret %s, text %s -> %s, %s", comboStr(rcombo, false), len(s), q(p), q(s), q(b64(msg)), q(got), errStr(err))
			return
		}
		// a secret that differs in its tail only: whatever the reference decoder says
		for _, alt := range tailAlterations(rng, s) {
			c.Logf("CBC: secret altered (%s)", alt.how)
			if !decryptBoth(c, t, lz("genuine message under a %d-byte secret altered in its tail (%s)", len(s), alt.how), raw, alt.b, rng) {
				return
			}
			c.Add("long_secret_altered_cbc", 1)
		}
		// stream mode under the long secret
		sct := streamEnc(c, t, p, s, rng.Bool(), planReader(rng, len(p), -1), planWriter(rng, -1), rng)
		if sct == nil {
			return
		}
		if !streamDec(c, t, sct, p, s, rng.Bool(), planReader(rng, len(sct), -1), planWriter(rng, -1), rng) {
			return
		}
		c.Add("long_secret_cases", 1)
	}

	// GCM: round trip; tail-altered secret / additional data must be rejected
	encCombo, decCombo := rng.Intn(16), rng.Intn(16)
	ct, err, ok := t.gcmEncrypt(p, s, a, encCombo)
	if !ok {
		return
	}
	c.Logf("GCMEncrypt%s(%s, %d-byte secret, %d-byte additional data) -> %s, %s", comboStr(encCombo, true), q(p), len(s), len(a), q(ct), errStr(err))
	if err != nil {
		c.Failf("enc-error", "GCMEncrypt%s(%s, %d-byte secret, %d-byte additional data) returned %s", comboStr(encCombo, true), q(p), len(s), len(a), errStr(err))
		return
	}
	got, err, ok := t.gcmDecrypt(ct, s, a, decCombo)
	if !ok {
		return
	}
	if err != nil || !bytes.Equal(got, p) {
		c.Failf("gcm-round-trip", "GCMDecrypt%s(GCMEncrypt%s(%s, %d-byte secret %s, %d-byte additional data %s)) = %s, %s", comboStr(decCombo, true), comboStr(encCombo, true), q(p), len(s), q(s), len(a), q(a), q(got), errStr(err))
		return
	}
	msg, isHex := refHexDecode(ct)
	if !isHex {
		msg = nil // text level only
	}
	if longS {
		for _, alt := range tailAlterations(rng, s) {
			if !gcmMustReject(c, t, "gcm-secret", lz("the genuine message under a %d-byte secret altered in its tail (%s)", len(s), alt.how), msg, alt.b, a, rng, ct) {
				return
			}
			c.Add("long_secret_altered_gcm", 1)
		}
	}
	if longA {
		for _, alt := range tailAlterations(rng, a) {
			if !gcmMustReject(c, t, "gcm-ad", lz("the genuine message with its %d-byte additional data altered in the tail (%s)", len(a), alt.how), msg, s, alt.b, rng, ct) {
				return
			}
			c.Add("long_ad_altered", 1)
		}
		c.Add("long_ad_cases", 1)
	}
	if c.WantSample() {
		c.Sample(fmt.Sprintf("long-args: %d-byte secret, %d-byte additional data, %d-byte plaintext: CBC format + round trip, GCM round trip, every tail alteration of the long argument rejected (GCM) / judged by the reference (CBC)", len(s), len(a), len(p)))
	}
}
