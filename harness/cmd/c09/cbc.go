package main

import (
	"bytes"
	"encoding/base64"
	"fmt"

	"verif/ev"
)

// checkFormat verifies the statement's wire format on one Encrypt output and
// returns the decoded message (nil after a Failf).
func checkFormat(c *ev.Case, api string, ct, p, s []byte, isText bool) []byte {
	raw := ct
	if isText {
		if !isStdBase64Line(ct) {
			c.Failf("format", "%s output %s is not single-line standard (padded) base64", api, q(ct))
			return nil
		}
		var err error
		raw, err = base64.StdEncoding.DecodeString(string(ct))
		if err != nil {
			c.Failf("format", "%s output %s does not base64-decode: %v", api, q(ct), err)
			return nil
		}
	}
	want := 16 + (len(p)/16+1)*16
	if len(raw) != want {
		c.Failf("format", "%s: decoded message is %d bytes for a %d-byte plaintext; Salted__ + salt + PKCS#7-padded AES-CBC is %d", api, len(raw), len(p), want)
		return nil
	}
	if !bytes.Equal(raw[:8], magic) {
		c.Failf("format", "%s: message starts with %q, not \"Salted__\"", api, raw[:8])
		return nil
	}
	pt, bad := refOpenRaw(raw, s)
	if bad != "" {
		c.Failf("format", "%s(%s, secret %s): AES-256-CBC decryption under EVP_BytesToKey(MD5,1)(secret, salt %x) fails: %s", api, q(p), q(s), raw[8:16], bad)
		return nil
	}
	if !bytes.Equal(pt, p) {
		c.Failf("format", "%s(%s, secret %s): independent OpenSSL-style decryption yields %s", api, q(p), q(s), q(pt))
		return nil
	}
	c.Add("cbc_format_checked", 1)
	return raw
}

const b64alpha = "ABCDEFGHIJKLMNOPQRSTUVWXYZabcdefghijklmnopqrstuvwxyz0123456789+/"

// decryptBoth feeds one decoded message to Decrypt (as base64) and to
// SaltBySecretCBCDecrypt and judges both against the reference.
func decryptBoth(c *ev.Case, t sut, what fmt.Stringer, msg, s []byte, rng *ev.Rand) bool {
	refPT, refBad := refOpenRaw(msg, s)
	text := b64(msg)
	combo := rng.Intn(16)
	got, err, ok := t.decrypt(text, s, combo)
	if !ok {
		return false
	}
	c.Logf("Decrypt%s(b64(%s)) -> %s, %s   [reference: %s]", comboStr(combo, false), what, q(got), errStr(err), refVerdict(refPT, refBad))
	if !judgeCBC(c, lz("Decrypt%s", comboStr(combo, false)), lz("base64 of %s = %s (secret %s)", what, q(text), q(s)), got, err, refPT, refBad) {
		return false
	}
	combo = rng.Intn(16)
	got, err, ok = t.rawCBCDec(msg, s, combo)
	if !ok {
		return false
	}
	c.Logf("SaltBySecretCBCDecrypt(%s, reuse=%v) -> %s, %s", what, combo&1 != 0, q(got), errStr(err))
	return judgeCBC(c, lz("SaltBySecretCBCDecrypt(reuse=%v)", combo&1 != 0), lz("%s = %x (secret %s)", what, msg, q(s)), got, err, refPT, refBad)
}

func refVerdict(pt []byte, bad string) fmt.Stringer {
	if bad != "" {
		return lz("invalid, %s", bad)
	}
	return lz("valid, plaintext %s", q(pt))
}

func cbcCase(c *ev.Case) {
	rng := c.Rng
	t := sut{c}
	p, s := genPlain(rng), genSecret(rng)
	encCombo, decCombo := rng.Intn(16), rng.Intn(16)
	c.Distinct(ev.Mix(ev.HashString("cbc"), ev.HashBytes(p), ev.HashBytes(s), uint64(encCombo), uint64(decCombo)))
	if len(s) == 0 {
		c.Add("empty_secret", 1)
	}
	if len(p) == 0 {
		c.Add("cbc_empty_plaintext", 1)
	}
	if len(p)%16 == 0 {
		c.Add("cbc_block_aligned_plaintext", 1)
	}
	c.Max("max_plaintext_len", int64(len(p)))

	// 1. Encrypt, wire format, round trip
	ct, err, ok := t.encrypt(p, s, encCombo)
	if !ok {
		return
	}
	c.Logf("Encrypt%s(%s, %s) -> %s, %s", comboStr(encCombo, false), q(p), q(s), q(ct), errStr(err))
	if err != nil {
		c.Failf("enc-error", "Encrypt%s(%s, %s) returned %s", comboStr(encCombo, false), q(p), q(s), errStr(err))
		return
	}
	raw := checkFormat(c, "Encrypt"+comboStr(encCombo, false), ct, p, s, true)
	if raw == nil {
		return
	}
	got, err, ok := t.decrypt(ct, s, decCombo)
	if !ok {
		return
	}
	c.Logf("Decrypt%s(ct, secret) -> %s, %s", comboStr(decCombo, false), q(got), errStr(err))
	if err != nil || !bytes.Equal(got, p) {
		c.Failf("round-trip", "Decrypt%s(Encrypt%s(%s, %s)) = %s, %s", comboStr(decCombo, false), comboStr(encCombo, false), q(p), q(s), q(got), errStr(err))
		return
	}
	c.Add("cbc_round_trips", 1)

	// a second encryption of the same input: fresh salt (coverage only)
	if ct2, err2, ok2 := t.encrypt(p, s, rng.Intn(16)); ok2 && err2 == nil {
		if r2 := checkFormat(c, "Encrypt", ct2, p, s, true); r2 == nil {
			return
		} else if !bytes.Equal(r2[8:16], raw[8:16]) {
			c.Add("salts_differ_between_calls", 1)
		} else {
			c.Add("salts_equal_between_calls", 1)
		}
	} else if !ok2 {
		return
	}

	// 2. raw API: SaltBySecretCBCEncrypt -> format, SaltBySecretCBCDecrypt (reuse and copy)
	rc := rng.Intn(16)
	raw2, err, ok := t.rawCBCEnc(p, s, rc)
	if !ok {
		return
	}
	c.Logf("SaltBySecretCBCEncrypt%s -> %x, %s", comboStr(rc, false), raw2, errStr(err))
	if err != nil {
		c.Failf("enc-error", "SaltBySecretCBCEncrypt(%s, %s) returned %s", q(p), q(s), errStr(err))
		return
	}
	if checkFormat(c, "SaltBySecretCBCEncrypt", raw2, p, s, false) == nil {
		return
	}
	for _, reuse := range []int{0, 1} {
		dc := rng.Intn(16)&^1 | reuse
		got, err, ok = t.rawCBCDec(raw2, s, dc)
		if !ok {
			return
		}
		c.Logf("SaltBySecretCBCDecrypt(raw, reuse=%v) -> %s, %s", reuse == 1, q(got), errStr(err))
		if err != nil || !bytes.Equal(got, p) {
			c.Failf("raw-round-trip", "SaltBySecretCBCDecrypt(SaltBySecretCBCEncrypt(%s, %s), reuse=%v) = %s, %s", q(p), q(s), reuse == 1, q(got), errStr(err))
			return
		}
	}

	// 3. reverse direction: harness-built OpenSSL message -> golib
	salt := rng.Bytes(8)
	if rng.Chance(1, 10) {
		salt = make([]byte, 8)
	}
	msg := refSealRaw(p, s, salt)
	rcombo := rng.Intn(16)
	got, err, ok = t.decrypt(b64(msg), s, rcombo)
	if !ok {
		return
	}
	c.Logf("Decrypt%s(harness-encrypted, salt %x) -> %s, %s", comboStr(rcombo, false), salt, q(got), errStr(err))
	if err != nil || !bytes.Equal(got, p) {
		c.Failf("reverse", "Decrypt%s rejects or mis-decrypts an OpenSSL-format message: plaintext %s, secret %s, salt %x, text %s -> %s, %s", comboStr(rcombo, false), q(p), q(s), salt, q(b64(msg)), q(got), errStr(err))
		return
	}
	rcombo = rng.Intn(16)
	got, err, ok = t.rawCBCDec(msg, s, rcombo)
	if !ok {
		return
	}
	if err != nil || !bytes.Equal(got, p) {
		c.Failf("reverse", "SaltBySecretCBCDecrypt(reuse=%v) rejects or mis-decrypts an OpenSSL-format message: plaintext %s, secret %s, message %x -> %s, %s", rcombo&1 != 0, q(p), q(s), msg, q(got), errStr(err))
		return
	}
	c.Add("cbc_reverse_decrypted", 1)

	// 4. wrong secret: whatever the reference decoder says
	s2, how := differentBytes(rng, s)
	c.Logf("secret altered (%s): %s", how, q(s2))
	if !decryptBoth(c, t, lz("message under altered secret"), raw, s2, rng) {
		return
	}
	c.Add("cbc_wrong_secret", 1)

	// 5. every prefix of the decoded message (all, or a sample for long ones)
	full := len(raw) <= 96
	for L := 0; L < len(raw); L++ {
		if !full && L > 40 && L%16 != 0 && L%16 != 15 && L%16 != 1 && !rng.Chance(1, 8) {
			continue
		}
		_, bad := refOpenRaw(raw[:L], s)
		if bad == "" {
			c.Add("cbc_trunc_valid_by_padding_luck", 1)
		}
		if !decryptBoth(c, t, lz("first %d of %d message bytes", L, len(raw)), raw[:L], s, rng) {
			return
		}
		c.Add("cbc_truncations_decoded", 1)
	}
	// ... and of the base64 text
	for L := 0; L < len(ct); L++ {
		if len(ct) > 140 && L > 48 && L%4 != 0 && !rng.Chance(1, 6) {
			continue
		}
		refPT, refBad, _ := refOpenText(ct[:L], s)
		combo := rng.Intn(16)
		got, err, ok = t.decrypt(ct[:L], s, combo)
		if !ok {
			return
		}
		c.Logf("Decrypt(first %d of %d base64 characters) -> %s, %s  [reference: %s]", L, len(ct), q(got), errStr(err), refVerdict(refPT, refBad))
		if !judgeCBC(c, lz("Decrypt%s", comboStr(combo, false)), lz("the first %d characters of %s (secret %s)", L, q(ct), q(s)), got, err, refPT, refBad) {
			return
		}
		c.Add("cbc_truncations_text", 1)
	}

	// 6. single-character corruptions of the text
	pos := map[int]bool{}
	for i := 0; i < 24 && i < len(ct); i++ {
		pos[i] = true
	}
	for k := 0; k < 16; k++ {
		pos[rng.Intn(len(ct))] = true
	}
	pos[len(ct)-1], pos[len(ct)-2] = true, true
	for i := 0; i < len(ct); i++ {
		if !pos[i] {
			continue
		}
		mut := append([]byte{}, ct...)
		var ch byte
		switch rng.Intn(8) {
		case 0:
			ch = '='
		case 1:
			ch = byte(rng.Pick('*', ' ', '-', '_', 0, 0x80, 0xff, '.'))
		case 2:
			ch = byte(rng.Pick('\n', '\r'))
		default:
			ch = b64alpha[rng.Intn(64)]
		}
		if ch == ct[i] {
			continue
		}
		mut[i] = ch
		refPT, refBad, loose := refOpenText(mut, s)
		combo := rng.Intn(16)
		got, err, ok = t.decrypt(mut, s, combo)
		if !ok {
			return
		}
		c.Logf("Decrypt(text with character %d %q -> %q) -> %s, %s  [reference: %s]", i, ct[i], ch, q(got), errStr(err), refVerdict(refPT, refBad))
		if loose != "" {
			if !judgeLooseCBC(c, lz("Decrypt%s", comboStr(combo, false)), lz("%s (character %d of a valid ciphertext changed from %q to %q; secret %s)", q(mut), i, ct[i], ch, q(s)), got, err, refPT, refBad, loose) {
				return
			}
			continue
		}
		if !judgeCBC(c, lz("Decrypt%s", comboStr(combo, false)), lz("%s (character %d of a valid ciphertext changed from %q to %q; secret %s)", q(mut), i, ct[i], ch, q(s)), got, err, refPT, refBad) {
			return
		}
		c.Add("cbc_char_corruptions", 1)
	}

	// 6b. characters appended to / prepended to the valid text
	for _, extra := range []string{"=", "A", "*", "AAAA", "====", "A===", " ", "\x00"} {
		for side := 0; side < 2; side++ {
			var mut []byte
			if side == 0 {
				mut = append(append([]byte{}, ct...), extra...)
			} else {
				mut = append([]byte(extra), ct...)
			}
			refPT, refBad, loose := refOpenText(mut, s)
			combo := rng.Intn(16)
			got, err, ok = t.decrypt(mut, s, combo)
			if !ok {
				return
			}
			c.Logf("Decrypt(valid text with %q added at side %d) -> %s, %s  [reference: %s]", extra, side, q(got), errStr(err), refVerdict(refPT, refBad))
			if loose != "" {
				if !judgeLooseCBC(c, lz("Decrypt%s", comboStr(combo, false)), lz("%s (a valid ciphertext with %q added at the %s; secret %s)", q(mut), extra, []string{"end", "front"}[side], q(s)), got, err, refPT, refBad, loose) {
					return
				}
				continue
			}
			if !judgeCBC(c, lz("Decrypt%s", comboStr(combo, false)), lz("%s (a valid ciphertext with %q added at the %s; secret %s)", q(mut), extra, []string{"end", "front"}[side], q(s)), got, err, refPT, refBad) {
				return
			}
			c.Add("cbc_text_extensions", 1)
		}
	}

	// 7. single-byte corruptions of the decoded message: all of magic + salt, a sample of the body
	for i := 0; i < len(raw); i++ {
		if i >= 16 && !rng.Chance(8, len(raw)) && i < len(raw)-2 {
			continue
		}
		mut := append([]byte{}, raw...)
		mut[i] ^= 1 << uint(rng.Intn(8))
		if !decryptBoth(c, t, lz("message with byte %d changed %#02x->%#02x", i, raw[i], mut[i]), mut, s, rng) {
			return
		}
		if i < 8 {
			c.Add("cbc_magic_byte_corrupted", 1)
		}
		c.Add("cbc_byte_corruptions", 1)
	}

	// 8. crafted final blocks: valid and invalid paddings that no encryptor produces
	for k := 0; k < 4; k++ {
		nb := rng.Range(1, 3)
		body := rng.Bytes(16 * nb)
		class := rng.Intn(7)
		desc := ""
		switch class {
		case 0:
			n := rng.Range(1, 16)
			for i := len(body) - n; i < len(body); i++ {
				body[i] = byte(n)
			}
			desc = fmt.Sprintf("valid padding %d", n)
		case 1:
			body[len(body)-1] = 0
			desc = "last byte 0"
		case 2:
			n := rng.Pick(17, 18, 32, 127, 128, 255, 240)
			for i := range body[len(body)-16:] {
				body[len(body)-16+i] = byte(n)
			}
			desc = fmt.Sprintf("last block all %d", n)
		case 3: // n >= 2 with the first padding byte wrong
			n := rng.Range(2, 16)
			for i := len(body) - n; i < len(body); i++ {
				body[i] = byte(n)
			}
			body[len(body)-n] ^= byte(1 + rng.Intn(255))
			desc = fmt.Sprintf("padding %d with its first byte wrong", n)
		case 4: // n >= 3 with a middle padding byte wrong
			n := rng.Range(3, 16)
			for i := len(body) - n; i < len(body); i++ {
				body[i] = byte(n)
			}
			body[len(body)-1-rng.Range(1, n-2)] ^= byte(1 + rng.Intn(255))
			desc = fmt.Sprintf("padding %d with a middle byte wrong", n)
		case 5: // full block of padding, nothing else
			body = bytes.Repeat([]byte{16}, 16)
			desc = "single block of 16s (empty plaintext)"
		default:
			body[len(body)-1] = byte(rng.Pick(0, 1, 16, 17))
			desc = fmt.Sprintf("random block with last byte %d", body[len(body)-1])
		}
		m := refSealBlocks(body, s, rng.Bytes(8))
		if _, bad := refOpenRaw(m, s); bad != "" {
			c.Add("cbc_crafted_padding_invalid", 1)
		} else {
			c.Add("cbc_crafted_padding_valid", 1)
		}
		if !decryptBoth(c, t, lz("crafted message (%s)", desc), m, s, rng) {
			return
		}
	}
	// header-only and header+partial messages built by the harness
	for _, L := range []int{0, 7, 8, 15, 16, 17, 31} {
		m := append(append([]byte{}, magic...), rng.Bytes(24)...)[:L]
		if !decryptBoth(c, t, lz("%d-byte fragment starting with the magic", L), m, s, rng) {
			return
		}
	}
	if c.WantSample() {
		c.Sample(fmt.Sprintf("Encrypt%s(%s, %s) -> %s; format verified by independent derivation; %d prefixes, corruptions and crafted paddings judged against the reference decoder",
			comboStr(encCombo, false), q(p), q(s), q(ct), len(raw)+len(ct)))
	}
}
