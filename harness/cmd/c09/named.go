package main

// Engine "named-types": plaintext, secret, ciphertext and additional data handed over as
// defined types whose underlying type is string or []byte (type ctx string, type payload
// []byte). The functions are generic over ~string | ~[]byte; "string or bytes" in the
// statement does not stop at the predeclared types. Judged: the round trips, agreement with
// the same content passed as plain string / []byte, and GCM's sensitivity to the additional
// data and the secret.

import (
	"bytes"
	"fmt"
	"io"

	"github.com/welllog/golib/cryptz"

	"verif/ev"
)

type nStr string
type nBytes []byte
type nStr2 string

func namedCase(c *ev.Case) {
	rng := c.Rng
	p := rng.Bytes(rng.Pick(0, 1, 15, 16, 17, 40, 100))
	s := rng.Bytes(rng.Pick(0, 1, 8, 16, 33))
	a := rng.Bytes(rng.Pick(0, 1, 5, 16, 40))
	a2 := append([]byte(nil), a...)
	a2 = append(a2, 'x')
	fail := func(sig, format string, args ...any) { c.Failf("named/"+sig, format, args...) }
	ok := c.Guard("named-types", func() {
		// CBC: named plaintext and secret, decrypted with plain ones and the other way round
		ct, err := cryptz.Encrypt(nStr(p), nBytes(s))
		if err != nil {
			fail("encrypt-error", "Encrypt(named string, named bytes) failed: %v", err)
			return
		}
		if pt, err := cryptz.Decrypt(ct, string(s)); err != nil || !bytes.Equal(pt, p) {
			fail("cbc-round-trip", "Decrypt(Encrypt(named string plaintext %q, named bytes secret), same secret as string) = %q, %v", p, pt, err)
			return
		}
		ct, err = cryptz.Encrypt(nBytes(p), nStr2(s))
		if err != nil {
			fail("encrypt-error", "Encrypt(named bytes, named string) failed: %v", err)
			return
		}
		if pt, err := cryptz.Decrypt(nBytes(ct), nStr(s)); err != nil || !bytes.Equal(pt, p) {
			fail("cbc-round-trip", "Decrypt(named bytes ciphertext, named string secret) = %q, %v; plaintext %q", pt, err, p)
			return
		}
		if pt, err := cryptz.Decrypt(nStr(ct), s); err != nil || !bytes.Equal(pt, p) {
			fail("cbc-round-trip", "Decrypt(named string ciphertext, bytes secret) = %q, %v; plaintext %q", pt, err, p)
			return
		}
		// GCM: named additional data
		g, err := cryptz.GCMEncrypt(nStr(p), nStr2(s), nStr(a))
		if err != nil {
			fail("encrypt-error", "GCMEncrypt(named types) failed: %v", err)
			return
		}
		if pt, err := cryptz.GCMDecrypt(g, s, string(a)); err != nil || !bytes.Equal(pt, p) {
			fail("gcm-round-trip", "GCMEncrypt with additional data %q of a named string type, GCMDecrypt with the same bytes as a plain string: %q, %v (plaintext %q)", a, pt, err, p)
			return
		}
		if pt, err := cryptz.GCMDecrypt(nBytes(g), nBytes(s), nBytes(a)); err != nil || !bytes.Equal(pt, p) {
			fail("gcm-round-trip", "GCMDecrypt(named bytes everywhere) = %q, %v (plaintext %q)", pt, err, p)
			return
		}
		if _, err := cryptz.GCMDecrypt(g, s, nStr(a2)); err == nil {
			fail("gcm-ad-ignored", "GCMDecrypt accepted additional data %q (named string type) for a message sealed with %q", a2, a)
			return
		}
		if _, err := cryptz.GCMDecrypt(g, s, nBytes(a2)); err == nil {
			fail("gcm-ad-ignored", "GCMDecrypt accepted additional data %q (named bytes type) for a message sealed with %q", a2, a)
			return
		}
		if _, err := cryptz.GCMDecrypt(g, nStr(append(append([]byte(nil), s...), 'k')), nStr(a)); err == nil {
			fail("gcm-secret-ignored", "GCMDecrypt accepted a different secret of a named string type")
			return
		}
		g2, err := cryptz.GCMEncrypt(nBytes(p), nBytes(s), nBytes(a))
		if err != nil {
			fail("encrypt-error", "GCMEncrypt(named bytes) failed: %v", err)
			return
		}
		if pt, err := cryptz.GCMDecrypt(string(g2), string(s), a); err != nil || !bytes.Equal(pt, p) {
			fail("gcm-round-trip", "GCMEncrypt(named bytes everywhere), GCMDecrypt(plain types) = %q, %v (plaintext %q)", pt, err, p)
			return
		}
		// the salted forms
		sc, err := cryptz.SaltBySecretCBCEncrypt(nStr(p), nStr2(s))
		if err == nil {
			var pt []byte
			pt, err = cryptz.SaltBySecretCBCDecrypt(sc, nBytes(s), false)
			if err != nil || !bytes.Equal(pt, p) {
				fail("salted-round-trip", "SaltBySecretCBCDecrypt(SaltBySecretCBCEncrypt(named)) = %q, %v (plaintext %q)", pt, err, p)
				return
			}
		} else {
			fail("encrypt-error", "SaltBySecretCBCEncrypt(named) failed: %v", err)
			return
		}
		sg, err := cryptz.SaltBySecretGCMEncrypt(nBytes(p), nStr(s), nStr2(a))
		if err != nil {
			fail("encrypt-error", "SaltBySecretGCMEncrypt(named) failed: %v", err)
			return
		}
		if _, err := cryptz.SaltBySecretGCMDecrypt(append([]byte(nil), sg...), nStr(s), nStr2(a2), false); err == nil {
			fail("gcm-ad-ignored", "SaltBySecretGCMDecrypt accepted additional data %q (named type) for a message sealed with %q", a2, a)
			return
		}
		if pt, err := cryptz.SaltBySecretGCMDecrypt(sg, s, a, false); err != nil || !bytes.Equal(pt, p) {
			fail("salted-round-trip", "SaltBySecretGCMDecrypt(plain types) of a message sealed with named types = %q, %v (plaintext %q)", pt, err, p)
			return
		}
		// streams with a named secret
		var enc, dec bytes.Buffer
		if err := cryptz.EncryptStreamTo(&enc, bytes.NewReader(p), nStr(s)); err != nil {
			fail("encrypt-error", "EncryptStreamTo(named secret) failed: %v", err)
			return
		}
		if err := cryptz.DecryptStreamTo(&dec, io.Reader(bytes.NewReader(enc.Bytes())), nBytes(s)); err != nil || !bytes.Equal(dec.Bytes(), p) {
			fail("stream-round-trip", "DecryptStreamTo(EncryptStreamTo(p, named string secret), named bytes secret) = %q, %v (plaintext %q)", dec.Bytes(), err, p)
			return
		}
	})
	if !ok || c.Failed() {
		return
	}
	c.Add("named_type_cases", 1)
	c.Distinct(ev.Mix(ev.HashBytes(p), ev.HashBytes(s), ev.HashBytes(a)))
	if c.WantSample() {
		c.Sample(fmt.Sprintf("named-types: plaintext %d bytes, secret %d bytes, additional data %d bytes passed as defined string / []byte types: CBC, GCM, salted and stream round trips agree with the plain types; different additional data or secret rejected", len(p), len(s), len(a)))
	}
}
