package main

// Engine "stress/typed" (LESSONS class 14): the free-running streaming monitors of
// stressCase over SyncList[T] for element types other than int — structs of 80, 256 and
// 1024 bytes, strings, pointers, interface values — and with consumers that block in
// PopWait(-1) (several of them on one list), in PopWait(0) or spin on Pop. An
// implementation may recycle nodes or hand values over directly depending on the element
// size or on who is waiting; exactly-once, per-producer order seen by each consumer, and the
// quiescent length do not depend on T.

import (
	"fmt"
	"sync"
	"sync/atomic"

	"github.com/welllog/golib/listz"

	"verif/ev"
)

type e80 struct {
	A  [4]int64
	ID int64
	B  [5]int64
}
type e256 [32]int64
type e1k struct {
	Pad [127]int64
	ID  int64
}

type scodec[T any] struct {
	name string
	mk   func(id int) T
	rd   func(T) int
}

func typedStress[T any](c *ev.Case, cd scodec[T]) {
	rng := c.Rng
	l := listz.NewSync[T]()
	P, Q := rng.Range(1, 4), rng.Range(2, 8)
	per := c.Run().N(6000, 60000)
	total := P * per
	mode := rng.Intn(3) // 0 Pop, 1 PopWait(0), 2 PopWait(-1)
	if rng.Chance(1, 3) {
		mode = 2
	}
	var popped atomic.Int64
	got := make([][]int32, Q)
	var wg, cons sync.WaitGroup
	for p := 0; p < P; p++ {
		wg.Add(1)
		go func(p int) {
			defer wg.Done()
			for j := 0; j < per; j++ {
				l.Push(cd.mk(p*per + j))
			}
		}(p)
	}
	const poison = -7
	for q := 0; q < Q; q++ {
		cons.Add(1)
		go func(q int) {
			defer cons.Done()
			for {
				var v T
				var ok bool
				switch mode {
				case 0:
					v, ok = l.Pop()
				case 1:
					v, ok = l.PopWait(0)
				default:
					v, ok = l.PopWait(-1)
				}
				if !ok {
					if mode != 2 && popped.Load() >= int64(total) {
						return
					}
					continue
				}
				id := cd.rd(v)
				if id == poison {
					return
				}
				popped.Add(1)
				got[q] = append(got[q], int32(id))
			}
		}(q)
	}
	wg.Wait()
	if mode == 2 { // wake the consumers that block for ever: one poison value each, behind everything else
		for q := 0; q < Q; q++ {
			l.Push(cd.mk(poison))
		}
	}
	cons.Wait()
	desc := fmt.Sprintf("SyncList[%s] P=%d Q=%d per=%d consumers=%s", cd.name, P, Q, per, [...]string{"Pop", "PopWait(0)", "PopWait(-1)"}[mode])
	c.Logf("typed stress %s", desc)
	seen := make([]uint8, total)
	n := 0
	for q := range got {
		last := make([]int, P)
		for i := range last {
			last[i] = -1
		}
		for _, v32 := range got[q] {
			v := int(v32)
			n++
			if v < 0 || v >= total {
				c.Failf("invented", "stress %s: popped value %d was never pushed (or came back damaged)", desc, v)
				return
			}
			if seen[v] != 0 {
				c.Failf("duplicate", "stress %s: value %d popped twice", desc, v)
				return
			}
			seen[v] = 1
			p, j := v/per, v%per
			if j < last[p] {
				c.Failf("fifo-order", "stress %s: consumer %d received producer %d's value #%d after its value #%d", desc, q, p, j, last[p])
				return
			}
			last[p] = j
		}
	}
	if n != total {
		c.Failf("lost", "stress %s: %d values pushed, %d popped", desc, total, n)
		return
	}
	if mode != 2 { // in mode 2 unconsumed poison values may remain
		if l.Len() != 0 {
			c.Failf("quiescent-len", "stress %s: drained list reports Len=%d", desc, l.Len())
			return
		}
	} else {
		left := 0
		for {
			v, ok := l.Pop()
			if !ok {
				break
			}
			if cd.rd(v) != poison {
				c.Failf("invented", "stress %s: a value other than the end markers was left behind", desc)
				return
			}
			left++
		}
		if l.Len() != 0 {
			c.Failf("quiescent-len", "stress %s: drained list reports Len=%d", desc, l.Len())
			return
		}
	}
	c.Add("typed_stress_runs", 1)
	c.Add("typed_stress_values", int64(total))
	c.Add("typed_stress "+cd.name, 1)
	c.Add("typed_stress_mode_"+[...]string{"Pop", "PopWait0", "PopWaitForever"}[mode], 1)
	c.Distinct(ev.HashString(desc))
	if c.WantSample() {
		c.Sample("typed stress: " + desc + ": every value popped exactly once, per-producer order kept for every consumer, list empty afterwards")
	}
}

func typedStressCase(c *ev.Case) {
	switch c.Index % 7 {
	case 0:
		typedStress(c, scodec[e80]{"struct{80 bytes}",
			func(id int) e80 {
				return e80{A: [4]int64{int64(id), 0, 0, int64(^id)}, ID: int64(id), B: [5]int64{0, 0, 0, 0, int64(id)}}
			},
			func(v e80) int {
				if v.A[0] != v.ID || v.A[3] != ^v.ID || v.B[4] != v.ID {
					return -1
				}
				return int(v.ID)
			}})
	case 1:
		typedStress(c, scodec[e256]{"[32]int64",
			func(id int) e256 {
				var v e256
				v[0], v[15], v[31] = int64(id), int64(^id), int64(id)
				return v
			},
			func(v e256) int {
				if v[0] != v[31] || v[15] != ^v[0] {
					return -1
				}
				return int(v[0])
			}})
	case 2:
		typedStress(c, scodec[e1k]{"struct{1024 bytes}",
			func(id int) e1k {
				var v e1k
				v.ID, v.Pad[0], v.Pad[126] = int64(id), int64(id), int64(^id)
				return v
			},
			func(v e1k) int {
				if v.Pad[0] != v.ID || v.Pad[126] != ^v.ID {
					return -1
				}
				return int(v.ID)
			}})
	case 3:
		typedStress(c, scodec[string]{"string",
			func(id int) string { return fmt.Sprint(id) },
			func(s string) int {
				var id int
				if n, _ := fmt.Sscan(s, &id); n != 1 {
					return -1
				}
				return id
			}})
	case 4:
		typedStress(c, scodec[*int]{"*int",
			func(id int) *int { return &id },
			func(p *int) int {
				if p == nil {
					return -1
				}
				return *p
			}})
	case 5:
		typedStress(c, scodec[any]{"any",
			func(id int) any { return id },
			func(v any) int {
				id, ok := v.(int)
				if !ok {
					return -1
				}
				return id
			}})
	default:
		typedStress(c, scodec[int]{"int",
			func(id int) int { return id },
			func(v int) int { return v }})
	}
}
