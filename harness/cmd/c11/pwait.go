package main

import (
	"fmt"
	"sync"
	"time"

	"github.com/welllog/golib/listz"

	"verif/ev"
	"verif/hist"
)

// pwaitCase: PopWait with a positive wait is the one variant the controlled engine
// cannot run (it sleeps on a ticker), and in the free-running engines and in the
// "timed" engine every such call is overlapped by some other operation, so a false
// result is always excused there. Here it is judged like every other pop:
//
//	A  alone on a non-empty list: nothing overlaps the call and the list is never
//	   empty during it, so it must return the oldest value, whatever the wait;
//	B  alone on an empty list: it must return false and leave Len() == 0;
//	C  a short concurrent history of Push/Pop/Len/PopWait(0)/PopWait(d>0) calls whose
//	   threads start around the library's polling instants, judged by the same
//	   linearizability oracle as the other engines (runs in the -race build).
//
// Wall-clock time only places the calls; no verdict depends on it.
var pwaitWaits = []int{1, 20, 300, 1000, 4000, 9000, 12000, 25000} // microseconds

var pwaitKinds = []string{"Push", "Push", "Push", "PopWaitD", "PopWaitD", "PopWaitD", "Pop", "Len", "PopWait"}

func pwaitCase(c *ev.Case) {
	rng := c.Rng
	l := listz.NewSync[int]()
	k := rng.Range(1, 4)
	base := (c.Index%10000)*100 + 1
	if !c.Guard("Push", func() {
		for i := 0; i < k; i++ {
			l.Push(base + i)
		}
	}) {
		return
	}
	// A: alone, non-empty
	for i := 0; i < k; i++ {
		var d time.Duration
		if rng.Chance(1, 6) {
			d = time.Duration(rng.Range(1, 999)) * time.Nanosecond
		} else {
			d = time.Duration(pwaitWaits[rng.Intn(len(pwaitWaits))]) * time.Microsecond
		}
		var v, ln int
		var ok bool
		if !c.Guard("PopWait", func() { v, ok = l.PopWait(d) }) {
			return
		}
		if !c.Guard("Len", func() { ln = l.Len() }) {
			return
		}
		c.Logf("alone: PopWait(%v) on %d stored values -> (%d,%v), then Len()=%d", d, k-i, v, ok, ln)
		if !ok {
			c.Failf("popwait-false-nonempty", "PopWait(%v) returned false on a list holding %d values while no other operation was in flight", d, k-i)
			return
		}
		if v != base+i {
			c.Failf("popwait-fifo", "PopWait(%v) returned %d, the oldest stored value is %d (no other operation in flight)", d, v, base+i)
			return
		}
		if ln != k-i-1 {
			c.Failf("len-quiescent", "Len()=%d with %d values stored and no operation in flight (after PopWait(%v))", ln, k-i-1, d)
			return
		}
		c.Add("pwait:alone_nonempty_popwait", 1)
	}
	// B: alone, empty
	{
		d := time.Duration(pwaitWaits[rng.Intn(len(pwaitWaits))]) * time.Microsecond
		var v, ln int
		var ok bool
		if !c.Guard("PopWait", func() { v, ok = l.PopWait(d) }) {
			return
		}
		if !c.Guard("Len", func() { ln = l.Len() }) {
			return
		}
		c.Logf("alone: PopWait(%v) on the empty list -> (%d,%v), then Len()=%d", d, v, ok, ln)
		if ok {
			c.Failf("popwait-invented", "PopWait(%v) returned (%d,true) on an empty list with no other operation in flight", d, v)
			return
		}
		if ln != 0 {
			c.Failf("len-quiescent", "Len()=%d on the empty list with no operation in flight (after PopWait(%v) timed out)", ln, d)
			return
		}
		c.Add("pwait:alone_empty_popwait", 1)
	}
	// C: concurrent history
	cfg := config{Init: rng.Intn(3), Family: "pwait", Strategy: "go-runtime"}
	g := rng.Range(2, 5)
	total, pushes := 0, 0
	var delays []time.Duration
	lastWait := 10000
	for t := 0; t < g && total < 12; t++ {
		n := rng.Range(1, 3)
		if total+n > 12 {
			n = 12 - total
		}
		total += n
		var ops []opSpec
		for j := 0; j < n; j++ {
			o := opSpec{Kind: pwaitKinds[rng.Intn(len(pwaitKinds))], Val: int64(t*100 + j + 1)}
			switch o.Kind {
			case "Push":
				pushes++
			case "PopWaitD":
				lastWait = pwaitWaits[rng.Intn(len(pwaitWaits))]
				o.Val = int64(lastWait)
			}
			ops = append(ops, o)
		}
		cfg.Threads = append(cfg.Threads, ops)
		// start of the thread: at once, early, around the first/second polling instant
		// of a PopWait that started at once, or around the end of the last wait drawn
		var us int
		switch rng.Intn(5) {
		case 0:
			us = 0
		case 1:
			us = rng.Range(0, 400)
		case 2:
			us = 10000 + rng.Range(-200, 200)
		case 3:
			us = 20000 + rng.Range(-200, 200)
		default:
			us = lastWait + rng.Range(-100, 100)
		}
		if us < 0 {
			us = 0
		}
		delays = append(delays, time.Duration(us)*time.Microsecond)
	}
	l2, init := setup(&cfg)
	rec := hist.NewRecorder(len(cfg.Threads), false)
	start := make(chan struct{})
	pans := make([]any, len(cfg.Threads))
	var wg sync.WaitGroup
	for t := range cfg.Threads {
		wg.Add(1)
		go func(t int) {
			defer wg.Done()
			defer func() { pans[t] = recover() }()
			<-start
			if delays[t] > 0 {
				time.Sleep(delays[t])
			}
			for _, o := range cfg.Threads[t] {
				do(l2, rec, t, o)
			}
		}(t)
	}
	close(start)
	wg.Wait()
	c.Logf("config: %s delays=%v", cfg.String(), delays)
	for t, p := range pans {
		if p != nil {
			c.Failf("panic/pwait", "thread %d panicked in a SyncList call: %v (config %s)", t, p, cfg.String())
			return
		}
	}
	if !c.Guard("tail", func() { tail(l2, rec, len(init)+pushes) }) {
		return
	}
	ops := rec.Ops()
	for _, ln := range hist.Render(ops) {
		c.Logf("%s", ln)
	}
	c.Add("runs", 1)
	if !judge(c, cfg, init, ops, fmt.Sprintf("delays=%v", delays)) {
		return
	}
	for _, o := range ops {
		if o.Kind != "PopWait" || o.Arg == 0 || o.Client >= len(cfg.Threads) {
			continue
		}
		switch {
		case o.OK && o.Ret-o.Call >= int64(5*time.Millisecond):
			c.Add("pwait:popwait_value_after_waiting", 1) // coverage only: took at least one poll
			fallthrough
		case o.OK:
			c.Add("pwait:popwait_value", 1)
		default:
			c.Add("pwait:popwait_timed_out", 1)
		}
	}
	c.Distinct(ev.HashString(cfg.String() + "|" + hist.Canon(ops)))
	if c.WantSample() {
		c.Sample(map[string]any{"config": cfg.String(), "delays": fmt.Sprint(delays), "history": hist.Render(ops)})
	}
}
