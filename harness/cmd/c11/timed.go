package main

import (
	"fmt"
	"runtime"
	"time"

	"github.com/welllog/golib/listz"

	"verif/ev"
)

// timedCase: a timed PopWait on an empty list races with one Push placed near the
// deadline. Wall-clock time only places the Push; the verdict does not depend on it:
// whatever the timing, the pushed value is either what PopWait returned or still in
// the list afterwards, exactly once. (A PopWait that gives up while a helper of its
// own is still popping loses the value: returned by nobody, no longer stored.)
func timedCase(c *ev.Case) {
	rng := c.Rng
	l := listz.NewSync[int]()
	rounds := rng.Range(12, 30)
	for r := 0; r < rounds; r++ {
		d := time.Duration(rng.Pick(30, 100, 300, 1000, 3000)) * time.Microsecond
		// where the Push lands relative to the start of PopWait: around d, around the
		// library's own polling period, or early
		var at time.Duration
		switch rng.Intn(4) {
		case 0:
			at = d + time.Duration(rng.Range(-40, 40))*time.Microsecond
		case 1:
			at = 10*time.Millisecond + time.Duration(rng.Range(-60, 60))*time.Microsecond
		case 2:
			at = d / 2
		default:
			at = time.Duration(rng.Range(0, 200)) * time.Microsecond
		}
		if at < 0 {
			at = 0
		}
		v := c.Index*1000 + r + 1
		type pres struct {
			v   int
			ok  bool
			pan any
		}
		done := make(chan pres, 1)
		ready := make(chan time.Time, 1)
		go func() {
			var p pres
			defer func() {
				if x := recover(); x != nil {
					p.pan = x
				}
				done <- p
			}()
			ready <- time.Now()
			p.v, p.ok = l.PopWait(d)
		}()
		start := <-ready
		for time.Since(start) < at {
			runtime.Gosched()
		}
		if !c.Guard("Push", func() { l.Push(v) }) {
			<-done
			return
		}
		p := <-done
		if p.pan != nil {
			c.Failf("panic/PopWait", "PopWait(%v) panicked: %v", d, p.pan)
			return
		}
		c.Logf("round %d: PopWait(%v) with Push(%d) about %v after its start -> (%d,%v)", r, d, v, at, p.v, p.ok)
		// settle: a helper goroutine a broken PopWait may have left behind gets time to act
		if rng.Chance(1, 4) {
			time.Sleep(200 * time.Microsecond)
		}
		var rest []int
		if !c.Guard("Pop", func() {
			for {
				x, ok := l.Pop()
				if !ok {
					break
				}
				rest = append(rest, x)
			}
		}) {
			return
		}
		var ln int
		c.Guard("Len", func() { ln = l.Len() })
		switch {
		case p.ok && (p.v != v || len(rest) != 0):
			c.Failf("timed-popwait", "PopWait(%v) returned (%d,true) and the list then still held %v; exactly one value, %d, was pushed", d, p.v, rest, v)
			return
		case !p.ok && (len(rest) != 1 || rest[0] != v):
			c.Failf("timed-popwait-lost", "PopWait(%v) returned false, Push(%d) had returned, and draining the list afterwards yields %v (Len()=%d): the value was returned by nobody and is not stored", d, v, rest, ln)
			return
		}
		if ln != 0 {
			c.Failf("timed-popwait-len", "empty list after round %d reports Len()=%d", r, ln)
			return
		}
		if p.ok {
			c.Add("timed_popwait_got_value", 1)
		} else {
			c.Add("timed_popwait_timed_out", 1)
		}
	}
	c.Add("timed_rounds", int64(rounds))
	c.Distinct(ev.Mix(uint64(c.Index), uint64(rounds), 77))
	if c.WantSample() {
		c.Sample(fmt.Sprintf("timed: %d rounds of PopWait(30us..3ms) on an empty list against one Push placed near the deadline; the value was always returned or still stored, exactly once", rounds))
	}
}
