// C11 — SyncList is a linearizable unbounded FIFO queue with a sane length.
//
// Engines:
//
//	ctl        controlled schedules of the instrumented listz copy (shim binary), porcupine
//	sweep      bounded-preemption sweep of tiny fixed programs (thorough)
//	timed      PopWait(d>0) on an empty list against one Push placed near the deadline
//	pwait/*    PopWait(d>0) alone on a non-empty / empty list, and in short histories, porcupine
//	free/*     free-running short histories under the race detector, porcupine
//	stress/*   long producer/consumer runs under the race detector, streaming monitors
package main

import (
	"fmt"
	"os"
	"runtime"
	"strings"
	"sync"
	"sync/atomic"
	"time"

	"github.com/welllog/golib/listz"

	"verif/ev"
	"verif/hist"
	"verif/sched"
)

type opSpec struct {
	Kind string
	Val  int64
}

type config struct {
	Init     int
	Family   string
	Threads  [][]opSpec
	Strategy string
	Depth    int
	Sticky   int
}

func (c config) String() string {
	var b strings.Builder
	fmt.Fprintf(&b, "init=%d family=%s sched=%s/%d/%d;", c.Init, c.Family, c.Strategy, c.Depth, c.Sticky)
	for i, t := range c.Threads {
		fmt.Fprintf(&b, " T%d:", i)
		for _, o := range t {
			if o.Kind == "Push" {
				fmt.Fprintf(&b, "Push(%d),", o.Val)
			} else if o.Kind == "PopWaitD" {
				fmt.Fprintf(&b, "PopWait(%dus),", o.Val)
			} else {
				fmt.Fprintf(&b, "%s,", o.Kind)
			}
		}
	}
	return b.String()
}

func setup(c *config) (*listz.SyncList[int], []int64) {
	l := listz.NewSync[int]()
	var init []int64
	for i := 0; i < c.Init; i++ {
		l.Push(9000 + i)
		init = append(init, int64(9000+i))
	}
	return l, init
}

func do(l *listz.SyncList[int], rec *hist.Recorder, client int, o opSpec) {
	switch o.Kind {
	case "Push":
		op := rec.Begin(client, "Push", o.Val, 0)
		l.Push(int(o.Val))
		rec.End(op, 0, true, "")
	case "Pop":
		op := rec.Begin(client, "Pop", 0, 0)
		v, ok := l.Pop()
		rec.End(op, int64(v), ok, "")
	case "PopWait":
		op := rec.Begin(client, "PopWait", 0, 0)
		v, ok := l.PopWait(0)
		rec.End(op, int64(v), ok, "")
	case "PopWaitInf":
		op := rec.Begin(client, "PopWait", 0, 0)
		v, ok := l.PopWait(-1)
		rec.End(op, int64(v), ok, "")
	case "PopWaitT":
		op := rec.Begin(client, "PopWait", 0, 0)
		v, ok := l.PopWait(time.Millisecond)
		rec.End(op, int64(v), ok, "")
	case "PopWaitD":
		op := rec.Begin(client, "PopWait", o.Val, 0) // Arg (unused by the model) keeps the wait
		v, ok := l.PopWait(time.Duration(o.Val) * time.Microsecond)
		rec.End(op, int64(v), ok, "")
	case "Len":
		op := rec.Begin(client, "Len", 0, 0)
		n := l.Len()
		rec.End(op, int64(n), true, "")
	}
	sched.OpDone()
}

// engineKey is the counter prefix of an engine: its name without the GOMAXPROCS
// variant suffix, so that every engine has to reach its own floors.
func engineKey(engine string) string {
	if i := strings.Index(engine, "/P"); i > 0 {
		return engine[:i]
	}
	return engine
}

func tail(l *listz.SyncList[int], rec *hist.Recorder, maxContent int) {
	cl := rec.AddClient()
	rec.Quiesce()
	do(l, rec, cl, opSpec{Kind: "Len"})
	for i := 0; i <= maxContent+1; i++ {
		n := len(rec.Client(cl))
		do(l, rec, cl, opSpec{Kind: "Pop"})
		if !rec.Client(cl)[n].OK {
			break
		}
	}
	do(l, rec, cl, opSpec{Kind: "Len"})
	do(l, rec, cl, opSpec{Kind: "Push", Val: 8000})
	do(l, rec, cl, opSpec{Kind: "Len"})
	do(l, rec, cl, opSpec{Kind: "Pop"})
	do(l, rec, cl, opSpec{Kind: "Pop"})
	do(l, rec, cl, opSpec{Kind: "Len"})
}

var mixKinds = []string{"Push", "Push", "Push", "Pop", "Pop", "Pop", "Len", "Len", "PopWait"}

func genConfig(rng *ev.Rand, maxThreads, maxOps, maxTotal int) config {
	c := config{Init: rng.Intn(4)}
	if rng.Chance(7, 10) {
		c.Family = "mixed"
		nt := rng.Range(2, maxThreads)
		total := 0
		for t := 0; t < nt; t++ {
			n := rng.Range(1, maxOps)
			if total+n > maxTotal {
				n = maxTotal - total
			}
			if n <= 0 {
				n = 1
			}
			total += n
			var ops []opSpec
			for j := 0; j < n; j++ {
				ops = append(ops, opSpec{Kind: mixKinds[rng.Intn(len(mixKinds))], Val: int64(t*100 + j + 1)})
			}
			c.Threads = append(c.Threads, ops)
		}
	} else {
		c.Family = "prodcons"
		np, nc := rng.Range(1, 2), rng.Range(1, 2)
		per := rng.Range(1, 2)
		for p := 0; p < np; p++ {
			var ops []opSpec
			for j := 0; j < per*nc; j++ {
				ops = append(ops, opSpec{Kind: "Push", Val: int64(p*100 + j + 1)})
				if rng.Chance(1, 3) {
					ops = append(ops, opSpec{Kind: "Len"})
				}
			}
			c.Threads = append(c.Threads, ops)
		}
		for q := 0; q < nc; q++ {
			var ops []opSpec
			for j := 0; j < per*np; j++ {
				ops = append(ops, opSpec{Kind: "PopWaitInf"})
			}
			c.Threads = append(c.Threads, ops)
		}
	}
	return c
}

func judge(c *ev.Case, cfg config, init []int64, ops []hist.Op, extra string) bool {
	var overl, okPop, failStrict, failStrictConc, failExcused, lens, lensOv int64
	for _, o := range ops {
		if o.Overlapped {
			overl++
		}
		switch o.Kind {
		case "Pop", "PopWait":
			if o.OK {
				okPop++
			} else if o.Overlapped {
				failExcused++
			} else {
				failStrict++
				if o.Client < len(cfg.Threads) {
					failStrictConc++ // not one of the quiescent tail's
				}
			}
		case "Len":
			lens++
			if o.Overlapped {
				lensOv++
			}
			if o.Out < 0 {
				c.Witness = map[string]any{"config": cfg.String(), "history": hist.Render(ops), "extra": extra}
				c.Failf("len-negative", "Len() = %d is negative", o.Out)
				return false
			}
		}
	}
	c.Add("ops", int64(len(ops)))
	c.Add("ops_overlapped", overl)
	c.Add("pop_ok", okPop)
	c.Add("pop_fail_nonoverlapped", failStrict)
	c.Add("pop_fail_overlapped", failExcused)
	c.Add("len_calls", lens)
	c.Add("len_calls_overlapped", lensOv)
	// the same per engine, and the calls per named function / PopWait variant inside
	// the concurrent part (the quiescent tail is not counted here)
	ek := engineKey(c.Engine)
	c.Add(ek+":ops_overlapped", overl)
	c.Add(ek+":pop_ok", okPop)
	c.Add(ek+":pop_fail_overlapped", failExcused)
	c.Add(ek+":len_calls_overlapped", lensOv)
	c.Add(ek+":len_calls_quiescent", lens-lensOv)
	// failed pops of the concurrent part that nothing overlapped (must have met an empty list)
	c.Add(ek+":pop_fail_nonoverlapped_concurrent_part", failStrictConc)
	if cfg.Init > 0 {
		c.Add(ek+":runs_with_initial_content", 1)
	}
	for _, t := range cfg.Threads {
		for _, o := range t {
			switch o.Kind {
			case "PopWait":
				c.Add(ek+":calls_PopWait(0)", 1)
			case "PopWaitInf":
				c.Add(ek+":calls_PopWait(<0)", 1)
			case "PopWaitT", "PopWaitD":
				c.Add(ek+":calls_PopWait(>0)", 1)
			default:
				c.Add(ek+":calls_"+o.Kind, 1)
			}
		}
	}
	switch hist.Check(hist.UnboundedQueueModel(init), ops, 20*time.Second) {
	case hist.Illegal:
		c.Witness = map[string]any{"config": cfg.String(), "history": hist.Render(ops), "extra": extra}
		// tell the length clause apart from the queue clauses: re-check without Len
		var noLen []hist.Op
		for _, o := range ops {
			if o.Kind != "Len" {
				noLen = append(noLen, o)
			}
		}
		// (the Overlapped flags stay those computed on the full history)
		if hist.Check(hist.UnboundedQueueModel(init), noLen, 20*time.Second) == hist.Linearizable {
			// and the two length clauses apart: with every Len treated as overlapped
			// (lower bound only) the history passes iff only exactness at rest failed
			lower := make([]hist.Op, len(ops))
			copy(lower, ops)
			for i := range lower {
				if lower[i].Kind == "Len" {
					lower[i].Overlapped = true
				}
			}
			if hist.Check(hist.UnboundedQueueModel(init), lower, 20*time.Second) == hist.Linearizable {
				c.Failf("len-quiescent", "Push/Pop linearize as a FIFO queue and no Len() is too small, but a Len() that no operation overlapped differs from the number of stored values (config %s)", cfg.String())
			} else {
				c.Failf("len-too-small", "Push/Pop linearize as a FIFO queue but some Len() result is smaller than the number of stored values at every admissible instant (config %s)", cfg.String())
			}
		} else {
			c.Failf("nonlinearizable", "history of %d operations has no linearization as an unbounded FIFO queue (config %s)", len(ops), cfg.String())
		}
		return false
	case hist.Unknown:
		c.Add("porcupine_timeouts", 1)
		return true
	}
	c.Add("histories_checked", 1)
	return true
}

func controlled(c *ev.Case, cfg config, sc sched.Config) {
	l, init := setup(&cfg)
	rec := hist.NewRecorder(len(cfg.Threads), true)
	bodies := make([]func(), len(cfg.Threads))
	// inPush[t]: thread t is inside a Push call (read after an aborted run)
	inPush := make([]atomic.Bool, len(cfg.Threads))
	pushes := 0
	for t := range cfg.Threads {
		t := t
		for _, o := range cfg.Threads[t] {
			if o.Kind == "Push" {
				pushes++
			}
		}
		bodies[t] = func() {
			for _, o := range cfg.Threads[t] {
				inPush[t].Store(o.Kind == "Push")
				do(l, rec, t, o)
				inPush[t].Store(false)
			}
		}
	}
	c.Logf("config: %s", cfg.String())
	res := sched.Run(sc, bodies)
	tr := sched.TraceString(res.Trace)
	c.Logf("trace: %s", tr)
	c.Add("runs", 1)
	c.Add("steps", int64(res.Steps))
	c.Add("switches", int64(res.Switches))
	if res.Panic != nil {
		c.Witness = map[string]any{"config": cfg.String(), "trace": tr}
		c.Failf("panic/ctl", "panic in a SyncList call under schedule %s: %v\n%s", tr, res.Panic, res.PanicStack)
		return
	}
	if res.Aborted {
		if res.NoProgress {
			c.Witness = map[string]any{"config": cfg.String(), "trace": tr, "history": hist.Render(rec.Ops())}
			c.Failf("no-progress", "bounded progress: every live thread spins without completing an operation under a fair schedule (config %s)", cfg.String())
			return
		}
		// The same clause for a Push that does not announce its spinning with Gosched:
		// every strategy has a starvation guard (no thread takes more than 64 steps in
		// a row while another one can run), so every in-flight push was allowed to
		// finish many times over within the step bound, and the programs have at most
		// 10 operations of a few steps each.
		stuck := -1
		for t := range inPush {
			if inPush[t].Load() && sc.Strategy != sched.Sweep { // the sweep's fixed prefix has no such guard
				stuck = t
			}
		}
		if stuck >= 0 {
			c.Witness = map[string]any{"config": cfg.String(), "trace": tr, "history": hist.Render(rec.Ops())}
			c.Failf("no-progress", "bounded progress: thread %d is still inside Push after %d scheduling steps of a fair schedule (at most 64 consecutive steps per thread) (config %s)", stuck, res.Steps, cfg.String())
			return
		}
		c.Add("aborted_runs", 1)
		return
	}
	tail(l, rec, len(init)+pushes)
	ops := rec.Ops()
	for _, ln := range hist.Render(ops) {
		c.Logf("%s", ln)
	}
	if !judge(c, cfg, init, ops, "trace="+tr) {
		return
	}
	if res.Switches > 0 {
		c.Distinct(ev.HashString(cfg.String() + "|" + tr))
	}
	if c.WantSample() {
		c.Sample(map[string]any{"config": cfg.String(), "trace": tr, "history": hist.Render(ops)})
	}
}

func ctlCase(c *ev.Case) {
	rng := c.Rng
	cfg := genConfig(rng, 4, 4, 10)
	sc := sched.Config{Seed: rng.Uint64(), MaxSteps: 6000}
	switch rng.Intn(4) {
	case 0:
		sc.Strategy = sched.RandomWalk
		cfg.Strategy = "walk"
	case 1:
		sc.Strategy = sched.RandomWalk
		sc.Sticky = rng.Pick(128, 200, 240)
		cfg.Strategy = "walk-sticky"
		cfg.Sticky = sc.Sticky
	default:
		sc.Strategy = sched.PCT
		sc.Depth = rng.Range(1, 4)
		n := 0
		for _, t := range cfg.Threads {
			n += len(t)
		}
		sc.EstSteps = n * 10
		cfg.Strategy = "pct"
		cfg.Depth = sc.Depth
	}
	controlled(c, cfg, sc)
}

var sweepOps = []string{"Push", "Pop", "Len"}

const sweepS = 30
const sweepN = sweepS * sweepS * 2 * 81 * 2

func sweepCase(c *ev.Case) {
	i := c.Index
	cutA := i % sweepS
	i /= sweepS
	cutB := i % sweepS
	i /= sweepS
	order := i % 2
	i /= 2
	prog := i % 81
	i /= 81
	init := i % 2
	cfg := config{Init: init, Family: "sweep", Strategy: "sweep"}
	a := []opSpec{{Kind: sweepOps[prog%3], Val: 1}, {Kind: sweepOps[(prog/3)%3], Val: 2}}
	b := []opSpec{{Kind: sweepOps[(prog/9)%3], Val: 101}, {Kind: sweepOps[(prog/27)%3], Val: 102}}
	cfg.Threads = [][]opSpec{a, b}
	sc := sched.Config{Strategy: sched.Sweep, MaxSteps: 4000}
	if order == 0 {
		sc.Order = []int{0, 1, 0, 1}
	} else {
		sc.Order = []int{1, 0, 1, 0}
	}
	sc.Cuts = []int{cutA, cutB, 1 << 30, 1 << 30}
	controlled(c, cfg, sc)
}

var freeKinds = []string{"Push", "Push", "Push", "Pop", "Pop", "Pop", "Len", "Len", "PopWait"}

func freeCase(c *ev.Case) {
	rng := c.Rng
	cfg := config{Init: rng.Intn(4), Family: "free", Strategy: "go-runtime"}
	g := rng.Range(2, 8)
	maxTotal := 22
	total := 0
	pushes := 0
	for t := 0; t < g; t++ {
		n := rng.Range(1, 6)
		if total+n > maxTotal {
			n = maxTotal - total
		}
		if n <= 0 {
			break
		}
		total += n
		var ops []opSpec
		for j := 0; j < n; j++ {
			k := freeKinds[rng.Intn(len(freeKinds))]
			if rng.Chance(1, 400) {
				k = "PopWaitT"
			}
			if k == "Push" {
				pushes++
			}
			ops = append(ops, opSpec{Kind: k, Val: int64(t*100 + j + 1)})
		}
		cfg.Threads = append(cfg.Threads, ops)
	}
	l, init := setup(&cfg)
	rec := hist.NewRecorder(len(cfg.Threads), false)
	start := make(chan struct{})
	var wg sync.WaitGroup
	for t := range cfg.Threads {
		wg.Add(1)
		go func(t int) {
			defer wg.Done()
			<-start
			for _, o := range cfg.Threads[t] {
				do(l, rec, t, o)
			}
		}(t)
	}
	close(start)
	wg.Wait()
	tail(l, rec, len(init)+pushes)
	ops := rec.Ops()
	c.Logf("config: %s", cfg.String())
	for _, ln := range hist.Render(ops) {
		c.Logf("%s", ln)
	}
	c.Add("runs", 1)
	if !judge(c, cfg, init, ops, "") {
		return
	}
	ov := false
	for _, o := range ops {
		if o.Overlapped {
			ov = true
			break
		}
	}
	if ov {
		c.Distinct(ev.HashString(cfg.String() + "|" + hist.Canon(ops)))
		if c.WantSample() {
			c.Sample(map[string]any{"config": cfg.String(), "history": hist.Render(ops)})
		}
	}
}

func stressCase(c *ev.Case) {
	rng := c.Rng
	l := listz.NewSync[int]()
	P, Q := rng.Range(1, 6), rng.Range(1, 6)
	per := c.Run().N(8000, 80000)
	total := P * per
	var popped, prodDone atomic.Int64
	got := make([][]int32, Q)
	var lenNeg atomic.Int64
	var lenObs atomic.Int64
	stop := make(chan struct{})
	var wg, mon sync.WaitGroup
	mon.Add(1)
	go func() {
		defer mon.Done()
		for {
			select {
			case <-stop:
				return
			default:
			}
			n := l.Len()
			if lenObs.Add(1)&15 == 0 {
				runtime.Gosched()
			}
			if n < 0 {
				lenNeg.Add(1)
			}
		}
	}()
	for p := 0; p < P; p++ {
		wg.Add(1)
		go func(p int) {
			defer wg.Done()
			defer prodDone.Add(1)
			for j := 0; j < per; j++ {
				l.Push(p*per + j)
				if n := l.Len(); n < 0 {
					lenNeg.Add(1)
				}
			}
		}(p)
	}
	useWait := rng.Bool()
	for q := 0; q < Q; q++ {
		wg.Add(1)
		go func(q int) {
			defer wg.Done()
			misses := 0
			for popped.Load() < int64(total) {
				var v int
				var ok bool
				if useWait {
					v, ok = l.PopWait(0)
				} else {
					v, ok = l.Pop()
				}
				if ok {
					misses = 0
					popped.Add(1)
					got[q] = append(got[q], int32(v))
				} else {
					runtime.Gosched() // keeps restricted GOMAXPROCS settings moving
					if prodDone.Load() == int64(P) {
						misses++
						if misses > 2000000 {
							return
						}
					}
				}
			}
		}(q)
	}
	wg.Wait()
	close(stop)
	mon.Wait()
	desc := fmt.Sprintf("P=%d Q=%d per=%d wait=%v", P, Q, per, useWait)
	c.Logf("stress %s", desc)
	c.Add("stress_runs", 1)
	c.Add("stress_values", int64(total))
	c.Add("stress_len_observations", lenObs.Load()+int64(total))
	if n := lenNeg.Load(); n > 0 {
		c.Failf("len-negative", "stress %s: Len() was observed negative %d times", desc, n)
		return
	}
	seen := make([]uint8, total)
	n := 0
	for q := range got {
		last := make([]int, P)
		for i := range last {
			last[i] = -1
		}
		for _, v32 := range got[q] {
			v := int(v32)
			n++
			if v < 0 || v >= total {
				c.Failf("invented", "stress %s: popped value %d was never pushed", desc, v)
				return
			}
			if seen[v] != 0 {
				c.Failf("duplicate", "stress %s: value %d popped twice", desc, v)
				return
			}
			seen[v] = 1
			p, j := v/per, v%per
			if j < last[p] {
				c.Failf("fifo-order", "stress %s: consumer %d saw producer %d's value #%d after #%d", desc, q, p, j, last[p])
				return
			}
			last[p] = j
		}
	}
	if n != total {
		c.Failf("lost", "stress %s: %d values pushed, %d popped", desc, total, n)
		return
	}
	if l.Len() != 0 {
		c.Failf("quiescent-len", "stress %s: drained list reports Len=%d", desc, l.Len())
		return
	}
	if _, ok := l.Pop(); ok {
		c.Failf("invented", "stress %s: Pop succeeded on a drained list", desc)
		return
	}
	c.Distinct(ev.HashString(desc))
}

func main() {
	r := ev.New("C11")
	r.Rule("controlled: one case = (initial content, per-thread operation lists, schedule trace) drawn from the seed; distinct = distinct hash of configuration+program+trace among runs with at least one context switch. free-running: distinct canonical histories with at least one overlapping pair. stress: distinct parameter sets.")
	r.Assume("plain accesses between two atomic operations run as one indivisible step in the controlled engine; the race detector covers them in the free-running engines")
	r.Assume("controlled programs: at most 4 threads and 10 operations; free-running histories: at most 8 goroutines and 22 operations")
	r.Assume("'Push always completes once other in-flight pushes are allowed to finish' is checked as bounded progress under a fair schedule (step bound 6000, no thread takes more than 64 consecutive steps while another can run): a run that hits the bound with every live thread yielding, or with a thread still inside Push, is a violation")
	r.Assume("an overlapped Len() must be >= the number of stored values at some instant inside the call; a non-overlapped Len() must be exact")
	sched.JitterOn = os.Getenv("VERIF_JITTER") == "1"

	nctl := r.N(60000, 3000000)
	r.CasesProc("ctl", nctl, ev.Opt{Bin: "shim", Procs: 14}, ctlCase)
	if r.Thorough() {
		r.CasesProc("sweep", sweepN, ev.Opt{Bin: "shim", Procs: 14}, sweepCase)
	}
	if r.HasViolations() {
		// a tree that already failed under controlled schedules is not run freely: a
		// Push that cannot complete would hold every free-running case until its watchdog
		r.Finish()
	}
	nfree := r.N(6000, 120000)
	r.CasesProc("timed", r.N(160, 3000), ev.Opt{Procs: 4, Workers: 8, AlwaysLog: true, MaxCaseSeconds: 120}, timedCase)
	r.Require("timed_popwait_timed_out", 100)
	r.Require("timed_popwait_got_value", 100)
	npw := r.N(200, 4000)
	r.CasesProc("pwait/race", npw, ev.Opt{Bin: "race", Procs: 4, Workers: 16, AlwaysLog: true, MaxCaseSeconds: 120}, pwaitCase)
	r.Require("pwait:alone_nonempty_popwait", int64(npw))
	r.Require("pwait:alone_empty_popwait", int64(npw))
	r.CasesProc("free/race", nfree, ev.Opt{Bin: "race", Procs: 6, AlwaysLog: true}, freeCase)
	r.CasesProc("free/jitter", nfree, ev.Opt{Bin: "shimrace", Procs: 6, AlwaysLog: true, Env: []string{"VERIF_JITTER=1"}}, freeCase)
	if r.HasViolations() {
		r.Finish()
	}
	// element types other than int, several consumers blocked in PopWait(-1) (typed.go)
	r.CasesProc("stress/typed", r.N(42, 210), ev.Opt{Procs: 6, AlwaysLog: true, MaxCaseSeconds: 600}, typedStressCase)
	r.CasesProc("stress/typed/race", r.N(14, 70), ev.Opt{Bin: "race", Procs: 4, AlwaysLog: true, MaxCaseSeconds: 900}, typedStressCase)
	r.Require("typed_stress_runs", 40)
	r.Require("typed_stress_mode_PopWaitForever", 10)
	r.Require("typed_stress struct{80 bytes}", 4)
	r.Require("typed_stress struct{1024 bytes}", 4)
	r.CasesProc("stress/race", r.N(12, 60), ev.Opt{Bin: "race", Procs: 3, AlwaysLog: true, MaxCaseSeconds: 1500}, stressCase)
	r.CasesProc("stress/jitter", r.N(6, 30), ev.Opt{Bin: "shimrace", Procs: 2, AlwaysLog: true, MaxCaseSeconds: 1500, Env: []string{"VERIF_JITTER=1"}}, stressCase)
	if r.Thorough() {
		for _, p := range []string{"2", "4"} {
			r.CasesProc("free/race/P"+p, nfree/2, ev.Opt{Bin: "race", Procs: 6, AlwaysLog: true, Env: []string{"GOMAXPROCS=" + p}}, freeCase)
			r.CasesProc("stress/race/P"+p, 12, ev.Opt{Bin: "race", Procs: 3, AlwaysLog: true, MaxCaseSeconds: 1500, Env: []string{"GOMAXPROCS=" + p}}, stressCase)
		}
	}
	r.Require("histories_checked", int64(nctl/2))
	r.Require("ops_overlapped", 1000)
	r.Require("pop_ok", 1000)
	r.Require("len_calls_overlapped", 500)
	// every named function and PopWait variant is really called, in every engine that
	// can run it, and every situation a clause quantifies over is produced there
	n64 := int64(nctl)
	for _, k := range []string{"Push", "Pop", "Len"} {
		r.Require("ctl:calls_"+k, n64/2)
		r.Require("free/race:calls_"+k, int64(nfree))
		r.Require("free/jitter:calls_"+k, int64(nfree))
	}
	r.Require("ctl:calls_PopWait(0)", n64/10)
	r.Require("ctl:calls_PopWait(<0)", n64/10)
	r.Require("free/race:calls_PopWait(0)", int64(nfree)/4)
	r.Require("free/jitter:calls_PopWait(0)", int64(nfree)/4)
	r.Require("pwait/race:calls_PopWait(>0)", int64(npw))
	r.Require("pwait:popwait_value", int64(npw)/4)
	r.Require("pwait:popwait_timed_out", int64(npw)/8)
	r.Require("pwait/race:ops_overlapped", int64(npw)/2)
	r.Require("ctl:ops_overlapped", n64/2)
	r.Require("ctl:pop_ok", n64)
	r.Require("ctl:pop_fail_overlapped", n64/40)                    // the excused kind of failure
	r.Require("ctl:pop_fail_nonoverlapped_concurrent_part", n64/40) // the kind that must have met an empty list
	r.Require("ctl:len_calls_overlapped", n64/20)                   // lower bound only
	r.Require("ctl:len_calls_quiescent", n64)                       // must be exact
	r.Require("ctl:runs_with_initial_content", n64/4)
	r.Require("free/race:ops_overlapped", int64(nfree)/100)
	r.Require("free/jitter:ops_overlapped", int64(nfree)/2)
	r.Require("free/race:pop_ok", int64(nfree))
	r.Require("free/jitter:pop_ok", int64(nfree))
	r.Require("free/race:len_calls_quiescent", int64(nfree))
	r.Require("free/jitter:len_calls_quiescent", int64(nfree))
	r.Require("stress_runs", int64(r.N(12, 60)+r.N(6, 30)))
	r.Finish()
}
