package main

import (
	"errors"
	"fmt"
	"math"

	"github.com/welllog/golib/slicez"

	"verif/ev"
)

// ---- helpers: comparison by identity of the elements ----
//
// The references select with == (NaN equals nothing, +0 equals -0); what was
// selected is compared bit by bit, so that "the first occurrence" of 0 / -0 and
// a NaN that was kept are told apart from any other value.

func eqSeqBy[T any](a, b []T, same func(T, T) bool) bool {
	if len(a) != len(b) {
		return false
	}
	for i := range a {
		if !same(a[i], b[i]) {
			return false
		}
	}
	return true
}

func sameMultisetBy[T any](a, b []T, same func(T, T) bool) bool {
	if len(a) != len(b) {
		return false
	}
	used := make([]bool, len(b))
outer:
	for i := range a {
		for j := range b {
			if !used[j] && same(a[i], b[j]) {
				used[j] = true
				continue outer
			}
		}
		return false
	}
	return true
}

func refUniqueByKeyC[T any, K comparable](a []T, key func(T) K) []T {
	var out []T
	for i, v := range a {
		k := key(v)
		first := true
		for j := 0; j < i; j++ {
			if key(a[j]) == k {
				first = false
				break
			}
		}
		if first {
			out = append(out, v)
		}
	}
	return out
}

// ---- setops/float ----

type fkey struct {
	K  float64
	ID int
}

var floatTable = [...]float64{math.NaN(), 0, math.Copysign(0, -1), 1, 2, math.Inf(1), -1}

func sameF(a, b float64) bool { return math.Float64bits(a) == math.Float64bits(b) }
func sameFK(a, b fkey) bool   { return sameF(a.K, b.K) && a.ID == b.ID }

const (
	fmIndep = iota
	fmSame
	fmSub
)

var fmNames = [...]string{"independent", "s2==s1", "s2=s1[a:b]"}

const (
	flNil = iota
	flFresh
	flS1
	flS2
)

var flNames = [...]string{"nil", "fresh-spare-cap", "s1[:0]", "s2[:0]"}

type fcase[T comparable] struct {
	c        *ev.Case
	tname    string
	v1, v2   []T
	mode     int
	a, b     int
	sp, off  int
	same     func(T, T) bool
	poison   T
	pred     func(T) bool
	predName string
}

func (k *fcase[T]) build() (s1, s2 []T) {
	s1 = mkLive(k.v1, k.sp, k.off, k.poison, k.mode == fmIndep && k.sp == 0)
	switch k.mode {
	case fmSame:
		s2 = s1
	case fmSub:
		s2 = s1[k.a:k.b]
	default:
		s2 = mkLive(k.v2, k.off, k.sp, k.poison, k.off == 0)
	}
	return
}

func (k *fcase[T]) ctx() string {
	return fmt.Sprintf("T=%s s1=%v s2=%v inputs:%s", k.tname, k.v1, k.v2, fmNames[k.mode])
}

func (k *fcase[T]) dst(l int, s1, s2 []T) []T {
	switch l {
	case flFresh:
		return make([]T, 0, len(s1)+1)
	case flS1:
		return s1[:0]
	case flS2:
		return s2[:0]
	}
	return nil
}

func (k *fcase[T]) out(fn, param string, l int, got, want []T) bool {
	c := k.c
	if c.Logging() {
		c.Logf("%s%s(dst=%s, %s) -> %v", fn, param, flNames[l], k.ctx(), got)
	}
	c.Add("float_calls", 1)
	if !eqSeqBy(got, want, k.same) {
		c.Failf("result/"+fn, "%s%s with dst=%s, %s: got %v, definition (selection with ==, NaN equals nothing, 0 == -0) gives %v", fn, param, flNames[l], k.ctx(), got, want)
		return false
	}
	return true
}

func (k *fcase[T]) inpl(fn, param string, got, want, arg []T) bool {
	c := k.c
	if c.Logging() {
		c.Logf("%s%s(%s) -> %v ; argument afterwards %v", fn, param, k.ctx(), got, arg)
	}
	c.Add("float_calls", 1)
	if !sameMultisetBy(got, want, k.same) {
		c.Failf("result/"+fn, "%s%s(%s): got %v, definition (selection with ==) selects the multiset %v", fn, param, k.ctx(), got, want)
		return false
	}
	if !sameMultisetBy(arg, k.v1, k.same) {
		c.Failf("argperm/"+fn, "%s%s(%s): argument slice afterwards is %v, not a permutation of its original content %v", fn, param, k.ctx(), arg, k.v1)
		return false
	}
	return true
}

func (k *fcase[T]) run() bool {
	c := k.c
	for l := flNil; l <= flS2; l++ {
		if l == flS2 && k.mode == fmSub && k.a > 0 {
			continue
		}
		s1, s2 := k.build()
		d := k.dst(l, s1, s2)
		var got []T
		if !c.Guard("Diff", func() { got = slicez.Diff(d, s1, s2) }) || !k.out("Diff", "", l, got, refDiff(k.v1, k.v2)) {
			return false
		}
		s1, s2 = k.build()
		d = k.dst(l, s1, s2)
		if !c.Guard("Intersect", func() { got = slicez.Intersect(d, s1, s2) }) || !k.out("Intersect", "", l, got, refIntersect(k.v1, k.v2)) {
			return false
		}
	}
	for l := flNil; l <= flS1; l++ {
		s1, s2 := k.build()
		d := k.dst(l, s1, s2)
		var got []T
		if !c.Guard("Unique", func() { got = slicez.Unique(d, s1) }) || !k.out("Unique", "", l, got, refUnique(k.v1)) {
			return false
		}
		s1, s2 = k.build()
		d = k.dst(l, s1, s2)
		if !c.Guard("Filter", func() { got = slicez.Filter(d, s1, k.pred) }) || !k.out("Filter", k.predName, l, got, refFilter(k.v1, k.pred)) {
			return false
		}
	}
	{
		s1, s2 := k.build()
		var got []T
		if !c.Guard("DiffInPlaceFirst", func() { got = slicez.DiffInPlaceFirst(s1, s2) }) || !k.inpl("DiffInPlaceFirst", "", got, refDiff(k.v1, k.v2), s1) {
			return false
		}
		s1, s2 = k.build()
		if !c.Guard("IntersectInPlaceFirst", func() { got = slicez.IntersectInPlaceFirst(s1, s2) }) || !k.inpl("IntersectInPlaceFirst", "", got, refIntersect(k.v1, k.v2), s1) {
			return false
		}
		s1, _ = k.build()
		if !c.Guard("UniqueInPlace", func() { got = slicez.UniqueInPlace(s1) }) || !k.inpl("UniqueInPlace", "", got, refUnique(k.v1), s1) {
			return false
		}
		s1, _ = k.build()
		if !c.Guard("FilterInPlace", func() { got = slicez.FilterInPlace(s1, k.pred) }) || !k.inpl("FilterInPlace", k.predName, got, refFilter(k.v1, k.pred), s1) {
			return false
		}
	}
	return true
}

// floatInput: one (s1, s2, aliasing) input over {NaN, 0, -0, 1, 2, +Inf, -1}.
func floatInput(c *ev.Case, keyed bool) bool {
	rng := c.Rng
	vr := rng.Pick(2, 3, 4, 7, 7)
	n1 := rng.Pick(0, 1, 2, 3, 4, 5, 6, 8, 10)
	n2 := rng.Pick(0, 1, 1, 2, 3, 4, 6)
	code := func(n int) []int {
		out := make([]int, n)
		for i := range out {
			out[i] = rng.Intn(vr)
		}
		return out
	}
	c1, c2 := code(n1), code(n2)
	mode := rng.Pick(fmIndep, fmIndep, fmSame, fmSame, fmSub)
	a, b := 0, 0
	switch mode {
	case fmSame:
		c2 = c1
	case fmSub:
		a = rng.Intn(n1 + 1)
		b = rng.Range(a, n1)
		c2 = c1[a:b]
	}
	sp, off := rng.Pick(0, 0, 1, 4), rng.Pick(0, 0, 2)
	hasNaN, pos0, neg0 := false, false, false
	for _, v := range c1 {
		switch v {
		case 0:
			hasNaN = true
		case 1:
			pos0 = true
		case 2:
			neg0 = true
		}
	}
	c.Add("float_inputs", 1)
	if hasNaN {
		c.Add("float_s1_with_nan", 1)
		if mode == fmSame {
			c.Add("float_same_memory_with_nan", 1)
		}
	}
	if pos0 && neg0 {
		c.Add("float_s1_with_both_zeros", 1)
	}
	h := ev.Mix(hashInts(hashInts(0xf1, c1), c2), uint64(mode), uint64(a), uint64(b))
	if !keyed {
		conv := func(cs []int) []float64 {
			out := make([]float64, len(cs))
			for i, v := range cs {
				out[i] = floatTable[v]
			}
			return out
		}
		pi := rng.Intn(3)
		k := &fcase[float64]{c: c, tname: "float64", v1: conv(c1), v2: conv(c2), mode: mode, a: a, b: b, sp: sp, off: off,
			same: sameF, poison: -777.5,
			pred: []func(float64) bool{
				func(v float64) bool { return v == v },
				func(v float64) bool { return !math.Signbit(v) },
				func(v float64) bool { return v > 0 },
			}[pi],
			predName: []string{"[v==v]", "[!signbit]", "[v>0]"}[pi]}
		if !k.run() {
			return false
		}
		if n1 > 1 || n2 > 0 {
			c.Distinct(ev.Mix(h, uint64(pi)))
		}
		if c.WantSample() {
			c.Sample(fmt.Sprintf("float: %s: Diff=%v Intersect=%v Unique=%v", k.ctx(), refDiff(k.v1, k.v2), refIntersect(k.v1, k.v2), refUnique(k.v1)))
		}
		return true
	}
	conv := func(cs []int, base int) []fkey {
		out := make([]fkey, len(cs))
		for i, v := range cs {
			out[i] = fkey{floatTable[v], (base + i) % 2}
		}
		return out
	}
	v1 := conv(c1, 0)
	v2 := conv(c2, a)
	k := &fcase[fkey]{c: c, tname: "{K float64; ID int}", v1: v1, v2: v2, mode: mode, a: a, b: b, sp: sp, off: off,
		same: sameFK, poison: fkey{-777.5, -7},
		pred:     func(p fkey) bool { return p.K == p.K && p.ID == 0 },
		predName: "[K==K && ID==0]"}
	if !k.run() {
		return false
	}
	// UniqueByKey with a float key: a NaN key equals no other key
	keyK := func(p fkey) float64 { return p.K }
	want := refUniqueByKeyC(v1, keyK)
	for l := flNil; l <= flS1; l++ {
		s1, s2 := k.build()
		d := k.dst(l, s1, s2)
		var got []fkey
		if !c.Guard("UniqueByKey", func() { got = slicez.UniqueByKey(d, s1, keyK) }) || !k.out("UniqueByKey", "[K]", l, got, want) {
			return false
		}
	}
	{
		s1, _ := k.build()
		var got []fkey
		if !c.Guard("UniqueByKeyInPlace", func() { got = slicez.UniqueByKeyInPlace(s1, keyK) }) || !k.inpl("UniqueByKeyInPlace", "[K]", got, want, s1) {
			return false
		}
	}
	if hasNaN {
		c.Add("float_nan_keys", 1)
	}
	if n1 > 1 || n2 > 0 {
		c.Distinct(ev.Mix(h, 0x6b))
	}
	return true
}

func floatSetCase(c *ev.Case) {
	for j := 0; j < 6; j++ {
		if !floatInput(c, (c.Index+j)%3 == 2) {
			return
		}
	}
}

// ---- sizes on both sides of the powers of two ----

func bigSize(rng *ev.Rand) int {
	switch rng.Intn(16) {
	case 0:
		return rng.Pick(65535, 65536, 65537, 70001)
	case 1:
		return rng.Pick(16383, 16384, 16385, 32769)
	case 2, 3, 4:
		return rng.Pick(4095, 4096, 4097, 8191, 8193)
	case 5, 6, 7:
		return rng.Pick(511, 512, 513, 1023, 1024, 1025, 2047, 2049)
	default:
		return rng.Pick(15, 16, 17, 31, 32, 33, 63, 64, 65, 127, 128, 129, 255, 256, 257)
	}
}

// firstDiff: index of the first difference (or -1).
func firstDiff(a, b []int) int {
	for i := 0; i < len(a) && i < len(b); i++ {
		if a[i] != b[i] {
			return i
		}
	}
	if len(a) != len(b) {
		return minInt(len(a), len(b))
	}
	return -1
}

// sameCounts: a and b hold every value of 0..V-1 equally often (counting table).
func sameCounts(a, b []int, V int) bool {
	if len(a) != len(b) {
		return false
	}
	cnt := make([]int, V)
	for _, v := range a {
		if v < 0 || v >= V {
			return false
		}
		cnt[v]++
	}
	for _, v := range b {
		if v < 0 || v >= V {
			return false
		}
		cnt[v]--
	}
	for _, n := range cnt {
		if n != 0 {
			return false
		}
	}
	return true
}

// ---- setops/big ----

// bigSetCase: int inputs of 15 .. 70001 elements. The references use a table
// indexed by value (values are 0..V-1) instead of nested loops.
func bigSetCase(c *ev.Case) {
	rng := c.Rng
	n1, n2 := bigSize(rng), bigSize(rng)
	if rng.Chance(1, 6) {
		n2 = rng.Pick(0, 1, 7, 8, 9)
	}
	if rng.Chance(1, 8) {
		n1 = rng.Pick(1, 2, 9)
	}
	V := rng.Pick(8, 300, n1/2+1, n1+1, 2*n1+1, n2+1)
	mode := rng.Pick(aliasNone, aliasNone, aliasNone, aliasNone, aliasSame, aliasS2inS1)
	v1 := make([]int, n1)
	for i := range v1 {
		v1[i] = rng.Intn(V)
	}
	var v2 []int
	a, b := 0, 0
	switch mode {
	case aliasSame:
		v2 = clone(v1)
	case aliasS2inS1:
		a = rng.Intn(n1 + 1)
		b = rng.Range(a, n1)
		v2 = clone(v1[a:b])
	default:
		v2 = make([]int, n2)
		for i := range v2 {
			v2[i] = rng.Intn(V)
		}
	}
	n2 = len(v2)
	sp1, sp2 := rng.Pick(0, 1, 100), rng.Pick(0, 1, 100)
	build := func() (s1, s2 []int) {
		s1 = mkLive(v1, sp1, 0, poisonInt, false)
		switch mode {
		case aliasSame:
			s2 = s1
		case aliasS2inS1:
			s2 = s1[a:b]
		default:
			s2 = mkLive(v2, sp2, 0, poisonInt, false)
		}
		return
	}
	// references
	present := make([]bool, V)
	for _, v := range v2 {
		present[v] = true
	}
	var wDiff, wInter, wUniq, wUBK, wFilt []int
	seen := make([]bool, V)
	K := rng.Pick(2, 17, 1000, V)
	key := func(v int) int { return v % K }
	seenK := make([]bool, K)
	pm := rng.Pick(2, 3, 50)
	pred := func(v int) bool { return v%pm != 0 }
	for _, v := range v1 {
		if present[v] {
			wInter = append(wInter, v)
		} else {
			wDiff = append(wDiff, v)
		}
		if !seen[v] {
			seen[v] = true
			wUniq = append(wUniq, v)
		}
		if !seenK[v%K] {
			seenK[v%K] = true
			wUBK = append(wUBK, v)
		}
		if pred(v) {
			wFilt = append(wFilt, v)
		}
	}
	c.Add("setops_big_inputs", 1)
	if n1 >= 4096 {
		c.Add("setops_big_s1_ge_4096", 1)
	}
	if n1 >= 65536 {
		c.Add("setops_big_s1_ge_65536", 1)
	}
	if n2 >= 4096 && n2 > n1 {
		c.Add("setops_big_s2_ge_4096_longer_than_s1", 1)
	}
	if n2 >= 65536 {
		c.Add("setops_big_s2_ge_65536", 1)
	}
	if n2 >= 1 && n2 <= 9 && n1 >= 512 {
		c.Add("setops_big_s1_tiny_s2", 1)
	}
	ctx := fmt.Sprintf("len(s1)=%d len(s2)=%d values 0..%d inputs:%s[%d:%d] s1=%s s2=%s", n1, n2, V-1, aliasNames[mode], a, b, abbr(v1), abbr(v2))
	out := func(fn string, l lay, got, want []int) bool {
		c.Logf("%s(dst=%s, %s) -> %d elements", fn, layNames[l], ctx, len(got))
		c.Add("setops_big_calls", 1)
		if i := firstDiff(got, want); i >= 0 {
			c.Failf("result/"+fn, "%s with dst=%s, %s: got %d elements %s, definition gives %d elements %s; first difference at index %d", fn, layNames[l], ctx, len(got), abbr(got), len(want), abbr(want), i)
			return false
		}
		return true
	}
	inpl := func(fn string, got, want, arg []int) bool {
		c.Logf("%s(%s) -> %d elements", fn, ctx, len(got))
		c.Add("setops_big_calls", 1)
		if !sameCounts(got, want, V) {
			c.Failf("result/"+fn, "%s(%s): got %d elements %s, definition selects %d elements %s (as a multiset)", fn, ctx, len(got), abbr(got), len(want), abbr(want))
			return false
		}
		if !sameCounts(arg, v1, V) {
			c.Failf("argperm/"+fn, "%s(%s): argument slice afterwards %s is not a permutation of its original content", fn, ctx, abbr(arg))
			return false
		}
		return true
	}
	dst := func(l lay, s1, s2 []int, single bool) ([]int, lay) {
		if l == layS2 && (single || (mode == aliasS2inS1 && a > 0)) {
			l = layS1
		}
		switch l {
		case layNil:
			return nil, l
		case layShort:
			return make([]int, 0, 3), l
		case layS1:
			return s1[:0], l
		default:
			return s2[:0], layS2
		}
	}
	lays := func() []lay {
		return []lay{lay(rng.Pick(int(layNil), int(layShort))), lay(rng.Pick(int(layS1), int(layS1), int(layS2)))}
	}
	var got []int
	for _, l := range lays() {
		s1, s2 := build()
		d, ll := dst(l, s1, s2, false)
		if !c.Guard("Diff", func() { got = slicez.Diff(d, s1, s2) }) || !out("Diff", ll, got, wDiff) {
			return
		}
	}
	for _, l := range lays() {
		s1, s2 := build()
		d, ll := dst(l, s1, s2, false)
		if !c.Guard("Intersect", func() { got = slicez.Intersect(d, s1, s2) }) || !out("Intersect", ll, got, wInter) {
			return
		}
	}
	for _, l := range lays() {
		s1, s2 := build()
		d, ll := dst(l, s1, s2, true)
		if !c.Guard("Unique", func() { got = slicez.Unique(d, s1) }) || !out("Unique", ll, got, wUniq) {
			return
		}
	}
	for _, l := range lays() {
		s1, s2 := build()
		d, ll := dst(l, s1, s2, true)
		if !c.Guard("UniqueByKey", func() { got = slicez.UniqueByKey(d, s1, key) }) || !out("UniqueByKey", ll, got, wUBK) {
			return
		}
	}
	for _, l := range lays() {
		s1, s2 := build()
		d, ll := dst(l, s1, s2, true)
		if !c.Guard("Filter", func() { got = slicez.Filter(d, s1, pred) }) || !out("Filter", ll, got, wFilt) {
			return
		}
	}
	s1, s2 := build()
	if !c.Guard("DiffInPlaceFirst", func() { got = slicez.DiffInPlaceFirst(s1, s2) }) || !inpl("DiffInPlaceFirst", got, wDiff, s1) {
		return
	}
	s1, s2 = build()
	if !c.Guard("IntersectInPlaceFirst", func() { got = slicez.IntersectInPlaceFirst(s1, s2) }) || !inpl("IntersectInPlaceFirst", got, wInter, s1) {
		return
	}
	s1, _ = build()
	if !c.Guard("UniqueInPlace", func() { got = slicez.UniqueInPlace(s1) }) || !inpl("UniqueInPlace", got, wUniq, s1) {
		return
	}
	s1, _ = build()
	if !c.Guard("UniqueByKeyInPlace", func() { got = slicez.UniqueByKeyInPlace(s1, key) }) || !inpl("UniqueByKeyInPlace", got, wUBK, s1) {
		return
	}
	s1, _ = build()
	if !c.Guard("FilterInPlace", func() { got = slicez.FilterInPlace(s1, pred) }) || !inpl("FilterInPlace", got, wFilt, s1) {
		return
	}
	c.Distinct(ev.Mix(hashInts(hashInts(0xb16, v1[:minInt(n1, 64)]), v2[:minInt(n2, 64)]), uint64(n1), uint64(n2), uint64(V), uint64(mode), uint64(a), uint64(b)))
	if c.WantSample() {
		c.Sample(fmt.Sprintf("setops big: len(s1)=%d len(s2)=%d values 0..%d %s: |Diff|=%d |Intersect|=%d |Unique|=%d, 5 functions x 2 dst layouts + 5 in-place variants", n1, n2, V-1, aliasNames[mode], len(wDiff), len(wInter), len(wUniq)))
	}
}

// ---- big/bounds ----

func boundsBigCase(c *ev.Case) {
	rng := c.Rng
	n := bigSize(rng)
	vals := make([]int, n)
	distinct := rng.Bool()
	for i := range vals {
		if distinct {
			vals[i] = 100 + i
		} else {
			vals[i] = rng.Intn(50)
		}
	}
	spare := rng.Pick(0, 1, 8)
	fresh := func() []int { return mkLive(vals, spare, 0, poisonInt, false) }
	c.Add("bounds_big_cases", 1)
	if n >= 4096 {
		c.Add("bounds_big_len_ge_4096", 1)
	}
	ctx := fmt.Sprintf("s=%s (len %d, cap %d)", abbr(vals), n, n+spare)

	// Equal: equal copies, and copies differing in exactly one position
	s := fresh()
	eq := func(t []int, want bool, what string) bool {
		for pass := 0; pass < 2; pass++ {
			var got bool
			a, b := s, t
			if pass == 1 {
				a, b = t, s
			}
			if !c.Guard("Equal", func() { got = slicez.Equal(a, b) }) {
				return false
			}
			c.Logf("Equal(s, t) pass %d [%s] -> %v", pass, what, got)
			if got != want {
				c.Failf("Equal", "%s: Equal with t = %s (argument order %d) = %v, want %v", ctx, what, pass, got, want)
				return false
			}
		}
		c.Add("bounds_big_equal_calls", 2)
		return true
	}
	if !eq(fresh(), true, "an equal copy") || !eq(s[:n-1], false, "its own prefix of len-1") {
		return
	}
	for _, p := range []int{0, n - 1, n - 2, n - 3, n / 2, rng.Intn(n)} {
		t := fresh()
		t[p]++
		if !eq(t, false, fmt.Sprintf("a copy differing at index %d only", p)) {
			return
		}
		c.Add("bounds_big_equal_one_difference", 1)
		if p >= n-3 && n >= 64 {
			c.Add("bounds_big_equal_difference_in_last_3", 1)
		}
	}

	// Index / Contains
	for _, x := range []int{vals[n-1], vals[0], vals[n/2], -1, 100 + n, poisonInt} {
		var gi, gf int
		var gc, gcf bool
		if !c.Guard("Index", func() { gi = slicez.Index(s, x); gc = slicez.Contains(s, x) }) ||
			!c.Guard("IndexFunc", func() {
				gf = slicez.IndexFunc(s, func(y int) bool { return y == x })
				gcf = slicez.ContainsFunc(s, func(y int) bool { return y == x })
			}) {
			return
		}
		want := refIndex(vals, x)
		c.Logf("Index(s, %d) -> %d, IndexFunc -> %d, Contains -> %v, ContainsFunc -> %v", x, gi, gf, gc, gcf)
		if gi != want || gf != want || gc != (want >= 0) || gcf != (want >= 0) {
			c.Failf("Index", "%s: Index(s, %d) = %d, IndexFunc = %d, Contains = %v, ContainsFunc = %v; first occurrence is at %d", ctx, x, gi, gf, gc, gcf, want)
			return
		}
	}

	// SubSlice / Copy
	for i := 0; i < 8; i++ {
		st := rng.Pick(-1, 0, 1, n/2, n-2, n-1, n, n+1, math.MinInt, math.MaxInt)
		en := rng.Pick(-1, 0, 1, n/2, n-1, n, n+1, math.MaxInt, math.MinInt)
		t := fresh()
		var got []int
		if !c.Guard("SubSlice", func() { got = slicez.SubSlice(t, st, en) }) {
			return
		}
		if want := refSub(vals, st, en); !eqSeq(got, want) {
			c.Failf("SubSlice", "%s: SubSlice(s, %d, %d) = %s, documented window is %s", ctx, st, en, abbr(got), abbr(want))
			return
		}
		t = fresh()
		if !c.Guard("Copy", func() { got = slicez.Copy(t, st, en) }) {
			return
		}
		want := refCopy(vals, st, en)
		c.Logf("SubSlice / Copy (s, %d, %d) -> Copy has %d elements", st, en, len(got))
		if !eqSeq(got, want) {
			c.Failf("Copy", "%s: Copy(s, start=%d, length=%d) = %s, documented result is %s", ctx, st, en, abbr(got), abbr(want))
			return
		}
		if len(got) > 0 {
			got[0], got[len(got)-1] = -5000, -5001
			if !eqSeq(t, vals) {
				c.Failf("Copy-not-fresh", "%s: Copy(s, %d, %d): writing to the result changed the input", ctx, st, en)
				return
			}
		}
		c.Add("bounds_big_subslice_copy_calls", 2)
	}

	// Remove
	for _, ix := range []int{0, 1, n / 2, n - 2, n - 1, n, -1} {
		t := fresh()
		var r []int
		var v int
		var ok bool
		if !c.Guard("Remove", func() { r, v, ok = slicez.Remove(t, ix) }) {
			return
		}
		c.Logf("Remove(s, %d) -> %d elements, %d, %v", ix, len(r), v, ok)
		if ix >= 0 && ix < n {
			want := append(clone(vals[:ix]), vals[ix+1:]...)
			if !ok || v != vals[ix] || !eqSeq(r, want) {
				c.Failf("Remove", "%s: Remove(s, %d) = (%s, %d, %v), want (%s, %d, true)", ctx, ix, abbr(r), v, ok, abbr(want), vals[ix])
				return
			}
		} else if ok || !eqSeq(r, vals) {
			c.Failf("Remove-out-of-range", "%s: Remove(s, %d) = (%s, %d, %v), want the slice unchanged and false", ctx, ix, abbr(r), v, ok)
			return
		}
		c.Add("bounds_big_remove_calls", 1)
	}

	// Chunk / ChunkProcess
	sizes := []int{rng.Pick(1, 2, 3, 7, 8), rng.Pick(127, 128, 129, 1000), rng.Pick(n/2, n/2+1, n/3, n-1), rng.Pick(n, n+1, math.MaxInt, 0, -1)}
	for _, size := range sizes {
		t := fresh()
		var pieces [][]int
		if !c.Guard("Chunk", func() { pieces = slicez.Chunk(t, size) }) {
			return
		}
		c.Logf("Chunk(s, %d) -> %d pieces", size, len(pieces))
		if !checkPieces(c, "Chunk", pieces, vals, size) {
			return
		}
		t = fresh()
		var seen [][]int
		limit := n + 3
		var err error
		if !c.Guard("ChunkProcess", func() {
			err = slicez.ChunkProcess(t, size, func(p []int) error {
				seen = append(seen, p)
				if len(seen) > limit {
					return errors.New("harness: too many callbacks")
				}
				return nil
			})
		}) {
			return
		}
		c.Logf("ChunkProcess(s, %d) -> %d callbacks, err %v", size, len(seen), err)
		if err != nil {
			c.Failf("ChunkProcess-error", "%s: ChunkProcess(s, %d) returned %v although every callback returned nil (%d callbacks)", ctx, size, err, len(seen))
			return
		}
		if !checkPieces(c, "ChunkProcess", seen, vals, size) {
			return
		}
		if len(seen) > 1 {
			k := rng.Pick(1, len(seen)-1, len(seen), 1+rng.Intn(len(seen)))
			boom := fmt.Errorf("boom at callback %d", k)
			calls := 0
			t = fresh()
			if !c.Guard("ChunkProcess", func() {
				err = slicez.ChunkProcess(t, size, func(p []int) error {
					calls++
					if calls == k {
						return boom
					}
					if calls > limit {
						return errors.New("harness: too many callbacks")
					}
					return nil
				})
			}) {
				return
			}
			if calls != k || err != boom {
				c.Failf("ChunkProcess-continued-after-error", "%s: ChunkProcess(s, %d): callback %d of %d returned an error; %d callbacks were made and %v was returned", ctx, size, k, len(seen), calls, err)
				return
			}
		}
		if len(seen) >= 128 {
			c.Add("bounds_big_chunk_ge_128_pieces", 1)
		}
		c.Add("bounds_big_chunk_calls", 2)
	}

	// Values over the two halves
	{
		t := fresh()
		var got []int
		if !c.Guard("Values", func() { got = slicez.Values(func(x int) int { return x }, t[:n/2], nil, t[n/2:]) }) {
			return
		}
		if !eqSeq(got, vals) {
			c.Failf("Values", "%s: Values(identity, s[:%d], nil, s[%d:]) = %s", ctx, n/2, n/2, abbr(got))
			return
		}
		got[0] = -5000
		if t[0] != vals[0] {
			c.Failf("Values-not-fresh", "%s: writing to the result of Values changed the input", ctx)
			return
		}
	}
	c.Distinct(ev.Mix(hashInts(0xbb, vals[:minInt(n, 64)]), uint64(n), uint64(spare)))
	if c.WantSample() {
		c.Sample(fmt.Sprintf("bounds big: len %d cap %d: Equal with one differing position (first, middle, the last three), Index of the last element, SubSlice/Copy/Remove at the ends, Chunk sizes %v", n, n+spare, sizes))
	}
}

// ---- setops/keep: the same buffers used call after call ----

var keepOps = [...]string{"Diff", "Intersect", "Unique", "UniqueByKey", "Filter",
	"DiffInPlaceFirst", "IntersectInPlaceFirst", "UniqueInPlace", "UniqueByKeyInPlace", "FilterInPlace"}

type keptResult struct {
	res, want []int
	what      string
}

// keepCase (run with Serial: no other call of the package happens between two
// steps): one caller-owned s1 buffer, s2 buffer and dst buffer are used for a
// series of calls; between calls the caller changes the content of a buffer in
// place. Every call is judged on the content at the time of the call. With a
// destination that is separate memory the inputs must come back unchanged, and
// a result in memory of its own is not changed by later calls on other memory.
func keepCase(c *ev.Case) {
	rng := c.Rng
	V := rng.Pick(3, 5, 9)
	n1, n2, nd := rng.Range(2, 14), rng.Range(1, 10), rng.Range(0, 16)
	if rng.Chance(1, 3) {
		// operands past any plausible "worth caching / worth a map" threshold
		n1, n2, nd = rng.Range(30, 160), rng.Range(32, 140), rng.Range(0, 200)
		V = rng.Pick(9, 40, 200)
		c.Add("keep_cases_with_operands_of_32_or_more", 1)
	}
	buf1 := make([]int, n1)
	buf2 := make([]int, n2)
	dstbuf := make([]int, nd)
	for i := range buf1 {
		buf1[i] = rng.Intn(V)
	}
	for i := range buf2 {
		buf2[i] = rng.Intn(V)
	}
	for i := range dstbuf {
		dstbuf[i] = poisonInt
	}
	s1, s2 := buf1, buf2
	K := rng.Pick(2, 3)
	key := func(v int) int { return v % K }
	pm := rng.Pick(2, 3)
	pred := func(v int) bool { return v%pm == 0 }
	var kept []keptResult
	checkKept := func(after string) bool {
		for _, k := range kept {
			if !eqSeq(k.res, k.want) {
				c.Failf("kept-result-changed", "the result %v of %s (returned in memory of its own) reads %v after the later call %s on other slices", k.want, k.what, k.res, after)
				return false
			}
			c.Add("keep_kept_results_rechecked", 1)
		}
		return true
	}
	h := uint64(0x4b)
	prevOp := -1
	s1Changed, s2Changed := false, false
	steps := rng.Range(6, 14)
	for step := 0; step < steps; step++ {
		// the caller refills its buffers in place
		ev0 := rng.Intn(8)
		h = ev.Mix(h, uint64(ev0))
		switch ev0 {
		case 0:
			s2[rng.Intn(len(s2))] = rng.Intn(V)
			s2Changed = true
			kept = nil
		case 1:
			for i := range s2 {
				s2[i] = rng.Intn(V)
			}
			s2Changed = true
			kept = nil
		case 2:
			if len(s1) > 0 {
				s1[rng.Intn(len(s1))] = rng.Intn(V)
			}
			s1Changed = true
			kept = nil
		case 3:
			for i := range s1 {
				s1[i] = rng.Intn(V)
			}
			s1Changed = true
			kept = nil
		case 4:
			s1 = buf1[:rng.Range(1, len(buf1))]
			s2 = buf2[:rng.Range(1, len(buf2))]
			s1Changed, s2Changed = true, true
		}
		op := rng.Intn(len(keepOps))
		if prevOp >= 0 && rng.Bool() {
			op = prevOp
		}
		layout := rng.Pick(0, 0, 1, 2, 2, 3) // nil, fresh, dstbuf, s1[:0]
		v1, v2 := clone(s1), clone(s2)
		var want []int
		switch op % 5 {
		case 0:
			want = refDiff(v1, v2)
		case 1:
			want = refIntersect(v1, v2)
		case 2:
			want = refUnique(v1)
		case 3:
			want = refUniqueByKey(v1, key)
		default:
			want = refFilter(v1, pred)
		}
		h = ev.Mix(h, uint64(op), uint64(layout), hashInts(hashInts(1, v1), v2))
		var got []int
		name := keepOps[op]
		if op < 5 {
			var d []int
			lname := "nil"
			switch layout {
			case 1:
				d, lname = make([]int, 0, rng.Intn(len(s1)+2)), "a new empty slice"
			case 2:
				d, lname = dstbuf[:rng.Intn(len(dstbuf)+1)], "the caller's own dst buffer"
			case 3:
				d, lname = s1[:0], "s1[:0]"
			}
			ok := false
			switch op {
			case 0:
				ok = c.Guard(name, func() { got = slicez.Diff(d, s1, s2) })
			case 1:
				ok = c.Guard(name, func() { got = slicez.Intersect(d, s1, s2) })
			case 2:
				ok = c.Guard(name, func() { got = slicez.Unique(d, s1) })
			case 3:
				ok = c.Guard(name, func() { got = slicez.UniqueByKey(d, s1, key) })
			default:
				ok = c.Guard(name, func() { got = slicez.Filter(d, s1, pred) })
			}
			if !ok {
				return
			}
			what := fmt.Sprintf("%s(dst=%s, s1=%v, s2=%v) [step %d, same s1/s2 buffers as in the steps before]", name, lname, v1, v2, step)
			c.Logf("%s -> %v", what, got)
			c.Add("keep_calls", 1)
			if !eqSeq(got, want) {
				c.Failf("result/"+name, "%s: got %v, definition gives %v", what, got, want)
				return
			}
			if layout != 3 {
				if !eqSeq(s1, v1) || !eqSeq(s2, v2) {
					c.Failf("input-modified/"+name, "%s: the destination is separate memory, yet afterwards s1 = %v, s2 = %v", what, s1, s2)
					return
				}
				c.Add("keep_inputs_checked_unmodified", 1)
				if len(want) > 0 && len(want) < len(v1) && !eqSeq(want, v1[:len(want)]) {
					c.Add("keep_inputs_unmodified_result_not_a_prefix", 1)
				}
				if !checkKept(what) {
					return
				}
				if layout < 2 && len(got) > 0 {
					kept = append(kept, keptResult{got, clone(want), what})
				}
			} else {
				if !eqSeq(s2, v2) {
					c.Failf("input-modified/"+name, "%s: afterwards s2 = %v", what, s2)
					return
				}
				kept = nil
			}
		} else {
			ok := false
			switch op {
			case 5:
				ok = c.Guard(name, func() { got = slicez.DiffInPlaceFirst(s1, s2) })
			case 6:
				ok = c.Guard(name, func() { got = slicez.IntersectInPlaceFirst(s1, s2) })
			case 7:
				ok = c.Guard(name, func() { got = slicez.UniqueInPlace(s1) })
			case 8:
				ok = c.Guard(name, func() { got = slicez.UniqueByKeyInPlace(s1, key) })
			default:
				ok = c.Guard(name, func() { got = slicez.FilterInPlace(s1, pred) })
			}
			if !ok {
				return
			}
			what := fmt.Sprintf("%s(s1=%v, s2=%v) [step %d, same s1/s2 buffers as in the steps before]", name, v1, v2, step)
			c.Logf("%s -> %v ; s1 afterwards %v", what, got, s1)
			c.Add("keep_calls", 1)
			if !sameMultiset(got, want) {
				c.Failf("result/"+name, "%s: got %v, definition selects the multiset %v", what, got, want)
				return
			}
			if !sameMultiset(s1, v1) {
				c.Failf("argperm/"+name, "%s: s1 afterwards is %v, not a permutation of its original content", what, s1)
				return
			}
			if !eqSeq(s2, v2) {
				c.Failf("input-modified/"+name, "%s: afterwards s2 = %v", what, s2)
				return
			}
			kept = nil
		}
		if op == prevOp {
			switch {
			case s2Changed && !s1Changed:
				c.Add("keep_same_call_again_only_s2_content_changed", 1)
			case s1Changed && !s2Changed:
				c.Add("keep_same_call_again_only_s1_content_changed", 1)
			case !s1Changed && !s2Changed:
				c.Add("keep_same_call_again_nothing_changed", 1)
			}
		}
		prevOp = op
		s1Changed, s2Changed = op >= 5 || (op < 5 && layout == 3), false
	}
	c.Distinct(h)
	if c.WantSample() {
		c.Sample(fmt.Sprintf("keep: %d calls on one s1 buffer (%d), one s2 buffer (%d) and one dst buffer, contents rewritten in place between calls", steps, len(buf1), len(buf2)))
	}
}
