package main

import (
	"fmt"
	"math"

	"github.com/welllog/golib/slicez"

	"verif/ev"
)

// equalNaNCase: Equal is defined by element-wise == on comparable elements; a
// NaN is not equal to itself, so a slice holding one is not Equal to anything,
// not even to the very same memory (Equal(s, s), Equal(s[:n], s[0:n:n])). The
// same calls without NaN must be true. Also Index/Contains of NaN (never found).
type fpair struct {
	K int
	F float64
}

func equalNaNCase(c *ev.Case) {
	rng := c.Rng
	n := rng.Range(1, 8)
	s := make([]float64, n, n+rng.Intn(3))
	ps := make([]fpair, n)
	for i := range s {
		s[i] = float64(rng.Intn(4))
		ps[i] = fpair{i, s[i]}
	}
	nan := rng.Chance(2, 3)
	pos := rng.Intn(n)
	if nan {
		s[pos] = math.NaN()
		ps[pos].F = math.NaN()
	}
	ref := func(a, b []float64) bool {
		if len(a) != len(b) {
			return false
		}
		for i := range a {
			if a[i] != b[i] {
				return false
			}
		}
		return true
	}
	cp := append([]float64(nil), s...)
	type tc struct {
		name string
		a, b []float64
	}
	for _, t := range []tc{{"Equal(s, s)", s, s}, {"Equal(s[:n], s[0:n:n])", s[:n], s[0:n:n]}, {"Equal(s, copy of s)", s, cp}, {"Equal(copy, s)", cp, s}} {
		var got bool
		if !c.Guard("Equal", func() { got = slicez.Equal(t.a, t.b) }) {
			return
		}
		want := ref(t.a, t.b)
		c.Logf("%s with s=%v -> %v (element-wise ==: %v)", t.name, s, got, want)
		if got != want {
			c.Failf("Equal/self-aliased", "%s with s=%v returned %v; comparing element by element with == gives %v", t.name, s, got, want)
			return
		}
	}
	var gp bool
	if !c.Guard("Equal", func() { gp = slicez.Equal(ps, ps) }) {
		return
	}
	if gp == nan {
		c.Failf("Equal/self-aliased", "Equal(ps, ps) on structs holding %v returned %v", ps, gp)
		return
	}
	if nan {
		var idx int
		var has bool
		if !c.Guard("Index/Contains", func() { idx = slicez.Index(s, math.NaN()); has = slicez.Contains(s, math.NaN()) }) {
			return
		}
		if idx != -1 || has {
			c.Failf("Index/NaN", "Index(s, NaN) = %d, Contains = %v on %v: NaN equals no element", idx, has, s)
			return
		}
		c.Add("equal_nan_cases", 1)
	}
	c.Add("equal_selfaliased_calls", 5)
	c.Distinct(ev.Mix(uint64(n), uint64(pos), ev.HashString(fmt.Sprint(s))))
	if c.WantSample() {
		c.Sample(fmt.Sprintf("equal-nan: s=%v: Equal on the same memory, on a capacity-limited view and on a copy vs. element-wise ==", s))
	}
}
