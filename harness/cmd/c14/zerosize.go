package main

import (
	"errors"
	"fmt"
	"math"

	"github.com/welllog/golib/slicez"

	"verif/ev"
)

// Engine zero-size: the functions of the statement over element types that
// occupy no memory (struct{}, [0]int, a struct of such). Such slices are legal
// inputs ("for all slices"), all their elements are equal, address arithmetic
// on them divides by a size of zero, and they may be astronomically long
// without using memory (make([]struct{}, math.MaxInt)), which puts lengths and
// chunk arithmetic at the top of the int range. Every element is the same
// value, so an expected result is fully described by its length.

type unit2 struct {
	a struct{}
	b [0]string
}

func zeroSizeCase(c *ev.Case) {
	switch c.Index % 3 {
	case 0:
		zeroSize[struct{}](c, "struct{}")
	case 1:
		zeroSize[[0]int](c, "[0]int")
	default:
		zeroSize[unit2](c, "struct{a struct{}; b [0]string}")
	}
}

func zeroSize[T comparable](c *ev.Case, tn string) {
	rng := c.Rng
	var zero T
	h := ev.Mix(ev.HashString("zero-size"), ev.HashString(tn))

	// ---- set operations: small lengths, every dst layout ----
	for round := 0; round < 6; round++ {
		n1, n2 := rng.Intn(6), rng.Intn(5)
		mk := func(n int) []T {
			if n == 0 && rng.Bool() {
				return nil
			}
			return make([]T, n, n+rng.Pick(0, 0, 3))
		}
		s1, s2 := mk(n1), mk(n2)
		h = ev.Mix(h, uint64(n1), uint64(n2))
		keep := rng.Bool() // predicate / key behaviour
		pred := func(T) bool { return keep }
		key := func(T) int { return 7 }
		type res struct {
			fn   string
			want int
			run  func(dst []T) []T
		}
		wantDiff := len(refDiff(s1, s2))
		wantInter := len(refIntersect(s1, s2))
		wantUniq := len(refUnique(s1))
		wantFilter := len(refFilter(s1, pred))
		fns := []res{
			{"Diff", wantDiff, func(d []T) []T { return slicez.Diff(d, s1, s2) }},
			{"Intersect", wantInter, func(d []T) []T { return slicez.Intersect(d, s1, s2) }},
			{"Unique", wantUniq, func(d []T) []T { return slicez.Unique(d, s1) }},
			{"UniqueByKey", wantUniq, func(d []T) []T { return slicez.UniqueByKey(d, s1, key) }},
			{"Filter", wantFilter, func(d []T) []T { return slicez.Filter(d, s1, pred) }},
		}
		for _, f := range fns {
			for lay := 0; lay < 5; lay++ {
				var dst []T
				var ln string
				switch lay {
				case 0:
					dst, ln = nil, "nil"
				case 1:
					dst, ln = make([]T, 0, 4), "empty, capacity 4"
				case 2:
					dst, ln = make([]T, 2, 9), "two elements, capacity 9"
				case 3:
					dst, ln = s1[:0], "s1[:0]"
				default:
					dst, ln = s2[:0], "s2[:0]"
				}
				if lay == 4 && f.fn != "Diff" && f.fn != "Intersect" {
					continue
				}
				var got []T
				if !c.Guard(f.fn, func() { got = f.run(dst) }) {
					return
				}
				c.Logf("%s[%s](dst %s, s1 of %d, s2 of %d) -> %d elements", f.fn, tn, ln, n1, n2, len(got))
				if len(got) != f.want {
					c.Failf("zero-size/"+f.fn, "%s over []%s: dst %s, s1 has %d elements, s2 has %d (keep=%v): result has %d elements, the definition selects %d", f.fn, tn, ln, n1, n2, keep, len(got), f.want)
					return
				}
				if len(s1) != n1 || len(s2) != n2 {
					c.Run().HarnessFailure("zero-size: argument headers changed")
					return
				}
				c.Add("zero_size_setop_calls/"+f.fn, 1)
				if cap(dst) > 0 && n1 > 0 && n2 > 0 {
					c.Add("zero_size_setop_nonempty_inputs_dst_with_capacity", 1)
				}
			}
		}
		// in-place variants: same multiset (= same length), the argument keeps its length
		inpl := []res{
			{"DiffInPlaceFirst", wantDiff, func([]T) []T { return slicez.DiffInPlaceFirst(s1, s2) }},
			{"IntersectInPlaceFirst", wantInter, func([]T) []T { return slicez.IntersectInPlaceFirst(s1, s2) }},
			{"UniqueInPlace", wantUniq, func([]T) []T { return slicez.UniqueInPlace(s1) }},
			{"UniqueByKeyInPlace", wantUniq, func([]T) []T { return slicez.UniqueByKeyInPlace(s1, key) }},
			{"FilterInPlace", wantFilter, func([]T) []T { return slicez.FilterInPlace(s1, pred) }},
		}
		for _, f := range inpl {
			var got []T
			if !c.Guard(f.fn, func() { got = f.run(nil) }) {
				return
			}
			if len(got) != f.want {
				c.Failf("zero-size/"+f.fn, "%s over []%s: s1 has %d elements, s2 has %d (keep=%v): result has %d elements, the definition selects %d", f.fn, tn, n1, n2, keep, len(got), f.want)
				return
			}
			c.Add("zero_size_inplace_calls", 1)
		}
		// Equal / Index / Contains / Remove / Copy / SubSlice on the short slices
		var eq bool
		var ix int
		if !c.Guard("Equal", func() { eq = slicez.Equal(s1, s2) }) {
			return
		}
		if eq != (n1 == n2) {
			c.Failf("zero-size/Equal", "Equal over []%s of %d and %d elements = %v", tn, n1, n2, eq)
			return
		}
		if !c.Guard("Index", func() { ix = slicez.Index(s1, zero) }) {
			return
		}
		if (n1 == 0 && ix != -1) || (n1 > 0 && ix != 0) {
			c.Failf("zero-size/Index", "Index over []%s of %d elements = %d", tn, n1, ix)
			return
		}
		for i := -1; i <= n1+1; i++ {
			var rest []T
			var ok bool
			src := make([]T, n1)
			if !c.Guard("Remove", func() { rest, _, ok = slicez.Remove(src, i) }) {
				return
			}
			in := i >= 0 && i < n1
			if ok != in || (in && len(rest) != n1-1) || (!in && len(rest) != n1) {
				c.Failf("zero-size/Remove", "Remove([]%s of %d elements, %d) = %d elements, ok=%v", tn, n1, i, len(rest), ok)
				return
			}
			c.Add("zero_size_remove_calls", 1)
		}
	}

	// ---- Chunk / ChunkProcess / SubSlice / Copy with lengths up to MaxInt ----
	lens := []int{0, 1, 2, 7, 1000, 1 << 31, math.MaxInt/2 - 1, math.MaxInt / 2, math.MaxInt/2 + 1, math.MaxInt - 1, math.MaxInt}
	for _, L := range lens {
		s := make([]T, L)
		sizes := []int{math.MinInt, -1, 0, 1, 2, 3, L/5 + 1, L/3 + 1, L / 2, L/2 + 1, L - 1, L, math.MaxInt/2 + 1, math.MaxInt - 1, math.MaxInt}
		if L < math.MaxInt {
			sizes = append(sizes, L+1)
		}
		for _, size := range sizes {
			if size >= 1 && L/size > 3000 {
				continue // would be millions of pieces
			}
			h = ev.Mix(h, uint64(L), uint64(size))
			var pieces [][]T
			if !c.Guard("Chunk", func() { pieces = slicez.Chunk(s, size) }) {
				return
			}
			if !zeroPieces(c, tn, "Chunk", lensOf(pieces), L, size) {
				return
			}
			var seen []int
			var err error
			if !c.Guard("ChunkProcess", func() {
				err = slicez.ChunkProcess(s, size, func(p []T) error {
					seen = append(seen, len(p))
					if len(seen) > 10000 {
						return errors.New("harness: too many pieces")
					}
					return nil
				})
			}) {
				return
			}
			if err != nil {
				c.Failf("zero-size/ChunkProcess-error", "ChunkProcess([]%s of %d elements, %d) returned %v although every callback returned nil (%d callbacks)", tn, L, size, err, len(seen))
				return
			}
			if !zeroPieces(c, tn, "ChunkProcess", seen, L, size) {
				return
			}
			c.Add("zero_size_chunk_calls", 1)
			if L > math.MaxInt/2 && size > 1 && size < L {
				c.Add("zero_size_chunk_len_plus_size_overflows", 1)
			}
		}
		// SubSlice / Copy: clamping at the top of the int range
		idx := []int{math.MinInt, -1, 0, 1, L / 2, L - 1, L, math.MaxInt}
		for _, a := range idx {
			for _, b := range idx {
				var sub, cp []T
				if !c.Guard("SubSlice", func() { sub = slicez.SubSlice(s, a, b) }) {
					return
				}
				if w := len(refSub(s, a, b)); len(sub) != w {
					c.Failf("zero-size/SubSlice", "SubSlice([]%s of %d elements, %d, %d) has %d elements, the documented clamping gives %d", tn, L, a, b, len(sub), w)
					return
				}
				if !c.Guard("Copy", func() { cp = slicez.Copy(s, a, b) }) {
					return
				}
				if w := len(refCopy(s, a, b)); len(cp) != w {
					c.Failf("zero-size/Copy", "Copy([]%s of %d elements, %d, %d) has %d elements, the documented clamping gives %d", tn, L, a, b, len(cp), w)
					return
				}
				c.Add("zero_size_window_calls", 1)
			}
		}
	}

	// ---- FlexSlice over a zero-size element type ----
	var f slicez.FlexSlice[T]
	n := 0
	for step := 0; step < 40; step++ {
		op := rng.Intn(6)
		h = ev.Mix(h, uint64(op))
		ok, want := true, true
		if !c.Guard("FlexSlice", func() {
			switch op {
			case 0:
				k := rng.Intn(20)
				f.Append(make([]T, k)...)
				n += k
			case 1:
				k := rng.Intn(20)
				f.Prepend(make([]T, k)...)
				n += k
			case 2:
				_, ok = f.Pop()
				want = n > 0
			case 3:
				_, ok = f.Shift()
				want = n > 0
			case 4:
				i := rng.Intn(n + 2)
				_, ok = f.Remove(i)
				want = i < n
			default:
				i := rng.Range(-1, n+1)
				_, ok = f.Get(i)
				want = i >= 0 && i < n
			}
		}) {
			return
		}
		if ok != want {
			c.Failf("zero-size/flex-ok", "FlexSlice[%s] of %d elements: operation %d reported ok=%v, want %v", tn, n, op, ok, want)
			return
		}
		if op >= 2 && op <= 4 && ok {
			n--
		}
		if f.Len() != n {
			c.Failf("zero-size/flex-len", "FlexSlice[%s]: Len() = %d after step %d (operation %d), the sequence has %d elements", tn, f.Len(), step, op, n)
			return
		}
		c.Add("zero_size_flex_ops", 1)
	}
	c.Distinct(h)
	c.Add("zero_size_cases/"+tn, 1)
	if c.WantSample() {
		c.Sample(fmt.Sprintf("zero-size elements (%s): set operations on 0..5 elements with 5 dst layouts, Chunk/ChunkProcess/SubSlice/Copy on lengths %v, a FlexSlice sequence", tn, lens))
	}
}

func lensOf[T any](p [][]T) []int {
	out := make([]int, len(p))
	for i := range p {
		out[i] = len(p[i])
	}
	return out
}

// zeroPieces: the statement's Chunk clause by lengths (all elements are equal).
func zeroPieces(c *ev.Case, tn, fn string, got []int, L, size int) bool {
	sum := 0
	for i, n := range got {
		bad := n == 0
		if size >= 1 && (n > size || (i < len(got)-1 && n != size)) {
			bad = true
		}
		if bad || n > L-sum {
			c.Failf("zero-size/"+fn+"-pieces", "%s([]%s of %d elements, %d): piece %d of %d has %d elements (piece lengths %v)", fn, tn, L, size, i, len(got), n, clipInts(got))
			return false
		}
		sum += n
	}
	if sum != L {
		c.Failf("zero-size/"+fn+"-concat", "%s([]%s of %d elements, %d): the pieces hold %d elements in all (piece lengths %v)", fn, tn, L, size, sum, clipInts(got))
		return false
	}
	return true
}

func clipInts(v []int) []int {
	if len(v) > 12 {
		return v[:12]
	}
	return v
}
