package main

import (
	"fmt"
	"math"

	"github.com/welllog/golib/slicez"

	"verif/ev"
)

// ---- flex/types: FlexSlice over element types of 2, 16, 24 and 32 bytes ----
//
// The other flex engines instantiate FlexSlice[int] only. "Behaves as a
// sequence" is promised for FlexSlice[T]: here the same plain-slice model is
// driven for elements that are narrower and wider than a machine word and that
// hold pointers (strings), including Prepend/Append whose argument is a
// sub-slice of the FlexSlice's own Values.

type wide3 [3]int

type rec32 struct {
	S string
	N int64
	B bool
}

type typedInst[T comparable] struct {
	name   string
	mk     func(id int) T // injective on 0..65535
	poison T
}

var (
	typedU16 = &typedInst[uint16]{name: "uint16", mk: func(id int) uint16 { return uint16(id) }, poison: 0xffff}
	typedStr = &typedInst[string]{name: "string", mk: func(id int) string { return fmt.Sprintf("v%d", id) }, poison: "\xffPOISON"}
	typedW3  = &typedInst[wide3]{name: "[3]int", mk: func(id int) wide3 { return wide3{id, -id, id * 7} }, poison: wide3{poisonInt, poisonInt, poisonInt}}
	typedRec = &typedInst[rec32]{name: "{string;int64;bool}", mk: func(id int) rec32 { return rec32{fmt.Sprint(id), int64(id), id%2 == 0} }, poison: rec32{"\xffPOISON", poisonInt, true}}
)

// typedCounters: the per-element-type coverage counters (flushed once per case, in this order).
var typedCounters = [...]string{"flex_typed_cases", "flex_typed_ops", "flex_typed_selfarg_prepend", "flex_typed_selfarg_prepend_within_capacity_offset_arg",
	"flex_typed_selfarg_prepend_within_capacity_arg_in_second_half", "flex_typed_selfarg_append", "flex_typed_prepend_within_capacity",
	"flex_typed_prepend_reallocating", "flex_typed_shrinks", "flex_typed_subslice_adopted", "flex_typed_get_out_of_range",
	"flex_typed_removal_out_of_range_or_empty"}

func flexTypedCase(c *ev.Case) {
	switch c.Index % 4 {
	case 0:
		flexTypedRun(c, typedU16)
	case 1:
		flexTypedRun(c, typedStr)
	case 2:
		flexTypedRun(c, typedW3)
	default:
		flexTypedRun(c, typedRec)
	}
}

func flexTypedRun[T comparable](c *ev.Case, in *typedInst[T]) {
	rng := c.Rng
	var f slicez.FlexSlice[T]
	var m []T
	next := 0
	h := ev.HashString(in.name)
	freshVals := func(k int) []T {
		out := make([]T, k)
		for i := range out {
			next++
			out[i] = in.mk(next)
		}
		return out
	}
	counts := map[string]int64{}
	add := func(key string) { counts[key]++ }
	defer func() {
		for _, key := range typedCounters {
			if n := counts[key]; n != 0 {
				c.Add(key+"/"+in.name, n)
			}
		}
	}()
	verify := func(op string) bool {
		var n int
		if !c.Guard("Len", func() { n = f.Len() }) {
			return false
		}
		vals := f.Values
		if n != len(m) || len(vals) != len(m) {
			c.Failf("flex-typed-seq/"+op, "FlexSlice[%s] after %s: Len() = %d, len(Values) = %d, sequence model has %d elements (Values %s, model %s)", in.name, op, n, len(vals), len(m), abbr(vals), abbr(m))
			return false
		}
		for i := range vals {
			if vals[i] != m[i] {
				c.Failf("flex-typed-seq/"+op, "FlexSlice[%s] after %s: Values[%d] = %v, sequence model has %v (Values %s, model %s)", in.name, op, i, vals[i], m[i], abbr(vals), abbr(m))
				return false
			}
		}
		return true
	}
	idx := func() int {
		n := len(m)
		switch rng.Intn(8) {
		case 0:
			return rng.Pick(-2, -1, n, n+1, math.MinInt, math.MaxInt)
		case 1:
			return 0
		case 2:
			return n - 1
		default:
			return rng.Intn(n + 1)
		}
	}
	removal := func(name string, i int, call func() (T, bool)) bool {
		capBefore := cap(f.Values)
		var v T
		var ok bool
		if !c.Guard(name, func() { v, ok = call() }) {
			return false
		}
		if c.Logging() {
			if c.Logging() {
				c.Logf("%s (index %d) -> %v, %v ; cap %d -> len %d cap %d", name, i, v, ok, capBefore, len(f.Values), cap(f.Values))
			}
		}
		if i >= 0 && i < len(m) {
			if !ok || v != m[i] {
				c.Failf("flex-typed-remove/"+name, "FlexSlice[%s] %s (index %d of %d) = (%v, %v), the sequence model removes %v", in.name, name, i, len(m), v, ok, m[i])
				return false
			}
			m = append(clone(m[:i]), m[i+1:]...)
			if cap(f.Values) < capBefore {
				add("flex_typed_shrinks")
			}
		} else {
			if ok {
				c.Failf("flex-typed-remove/"+name, "FlexSlice[%s] %s (index %d) = (%v, true) on a sequence of %d elements", in.name, name, i, v, len(m))
				return false
			}
			add("flex_typed_removal_out_of_range_or_empty")
		}
		return verify(name)
	}

	// start: zero value, or caller-built Values with poison in the spare capacity
	if rng.Chance(1, 4) {
		if c.Logging() {
			c.Logf("start: zero FlexSlice[%s]", in.name)
		}
	} else {
		n := rng.Intn(14)
		cp := rng.Pick(n, n+1, 2*n, 3*n+1, 4*n, 4*n+1, 9, 40)
		if cp < n {
			cp = n
		}
		base := make([]T, cp)
		for i := range base {
			base[i] = in.poison
		}
		vals := freshVals(n)
		copy(base, vals)
		f.Values = base[:n]
		m = clone(vals)
		h = ev.Mix(h, uint64(n), uint64(cp))
		if c.Logging() {
			c.Logf("start: FlexSlice[%s]{Values: %v, cap %d}", in.name, vals, cp)
		}
	}
	if !verify("start") {
		return
	}
	nops := rng.Pick(10, 25, 60)
	for i := 0; i < nops; i++ {
		op := rng.Intn(12)
		if len(m) > 200 && op < 6 {
			op = 8
		}
		h = ev.Mix(h, uint64(op))
		add("flex_typed_ops")
		switch op {
		case 0, 1: // Append / Prepend of new values, aimed at the capacity boundary
			room := cap(f.Values) - len(f.Values)
			k := rng.Pick(0, 1, 2, 3, room-1, room, room+1, rng.Range(4, 12))
			if k < 0 {
				k = 0
			}
			if k > 40 {
				k = 40
			}
			vs := freshVals(k)
			arg := clone(vs)
			cp, n2 := cap(f.Values), len(f.Values)
			name := "Append"
			if op == 0 {
				if !c.Guard("Append", func() { f.Append(arg...) }) {
					return
				}
				m = append(m, vs...)
			} else {
				name = "Prepend"
				if !c.Guard("Prepend", func() { f.Prepend(arg...) }) {
					return
				}
				m = append(clone(vs), m...)
				switch {
				case k == 0:
				case cp >= k+n2:
					add("flex_typed_prepend_within_capacity")
				default:
					add("flex_typed_prepend_reallocating")
				}
			}
			// the caller goes on using its own slice
			for j := range arg {
				arg[j] = in.poison
			}
			h = ev.Mix(h, uint64(k))
			if c.Logging() {
				c.Logf("%s(%v) on len %d cap %d -> len %d cap %d", name, vs, n2, cp, len(f.Values), cap(f.Values))
			}
			if !verify(name) {
				return
			}
		case 2, 3, 4, 5: // Prepend / Append of a sub-slice of the FlexSlice's own Values
			ln := len(m)
			if ln == 0 {
				continue
			}
			a := rng.Intn(ln + 1)
			b := rng.Range(a, ln)
			if rng.Chance(1, 3) && ln >= 2 { // a short argument far from the front
				a = rng.Range(ln/2, ln-1)
				b = rng.Range(a+1, ln)
			}
			argCopy := clone(m[a:b])
			old := m
			cp := cap(f.Values)
			arg := f.Values[a:b]
			if rng.Bool() {
				arg = f.Values[a:b:b]
			}
			h = ev.Mix(h, uint64(a), uint64(b))
			if op != 5 {
				if !c.Guard("Prepend", func() { f.Prepend(arg...) }) {
					return
				}
				m = append(clone(argCopy), m...)
				if c.Logging() {
					c.Logf("Prepend(Values[%d:%d]...) = Prepend(%v) on %v (cap %d) -> %v", a, b, argCopy, old, cp, f.Values)
				}
				add("flex_typed_selfarg_prepend")
				if cp >= ln+(b-a) && a > 0 && b > a {
					add("flex_typed_selfarg_prepend_within_capacity_offset_arg")
					if 2*a >= ln+(b-a) {
						add("flex_typed_selfarg_prepend_within_capacity_arg_in_second_half")
					}
				}
				if !eqSeq(f.Values, m) {
					c.Failf("flex-typed-selfarg/Prepend", "FlexSlice[%s]: f.Values = %v (cap %d); f.Prepend(f.Values[%d:%d]...) i.e. Prepend(%v) gives %v, a sequence gives %v", in.name, old, cp, a, b, argCopy, f.Values, m)
					return
				}
				if !verify("Prepend(own sub-slice)") {
					return
				}
			} else {
				if !c.Guard("Append", func() { f.Append(arg...) }) {
					return
				}
				m = append(clone(m), argCopy...)
				if c.Logging() {
					c.Logf("Append(Values[%d:%d]...) = Append(%v) on %v (cap %d) -> %v", a, b, argCopy, old, cp, f.Values)
				}
				add("flex_typed_selfarg_append")
				if !eqSeq(f.Values, m) {
					c.Failf("flex-typed-selfarg/Append", "FlexSlice[%s]: f.Values = %v (cap %d); f.Append(f.Values[%d:%d]...) i.e. Append(%v) gives %v, a sequence gives %v", in.name, old, cp, a, b, argCopy, f.Values, m)
					return
				}
				if !verify("Append(own sub-slice)") {
					return
				}
			}
		case 6:
			i := idx()
			var v T
			var ok bool
			if !c.Guard("Get", func() { v, ok = f.Get(i) }) {
				return
			}
			if c.Logging() {
				c.Logf("Get(%d) -> %v, %v", i, v, ok)
			}
			if i >= 0 && i < len(m) {
				if !ok || v != m[i] {
					c.Failf("flex-typed-get", "FlexSlice[%s] Get(%d) = (%v, %v) on a sequence of %d elements whose element %d is %v", in.name, i, v, ok, len(m), i, m[i])
					return
				}
			} else {
				if ok {
					c.Failf("flex-typed-get", "FlexSlice[%s] Get(%d) = (%v, true) on a sequence of %d elements", in.name, i, v, len(m))
					return
				}
				add("flex_typed_get_out_of_range")
			}
		case 7:
			i := idx()
			h = ev.Mix(h, uint64(i))
			if !removal("Remove", i, func() (T, bool) { return f.Remove(i) }) {
				return
			}
		case 8, 9:
			if !removal("Pop", len(m)-1, func() (T, bool) { return f.Pop() }) {
				return
			}
		case 10:
			i := 0
			if len(m) == 0 {
				i = -1
			}
			if !removal("Shift", i, func() (T, bool) { return f.Shift() }) {
				return
			}
		default:
			n := len(m)
			st := rng.Pick(-1, 0, 0, 1, n/2, n-1, n, n+1, math.MinInt, math.MaxInt)
			en := rng.Pick(-1, -1, 0, 1, n/2, n-1, n, n+1, math.MinInt, math.MaxInt)
			var child slicez.FlexSlice[T]
			if !c.Guard("SubSlice", func() { child = f.SubSlice(st, en) }) {
				return
			}
			want := refSub(m, st, en)
			if c.Logging() {
				c.Logf("SubSlice(%d, %d) on len %d -> %v (cap %d)", st, en, n, child.Values, cap(child.Values))
			}
			h = ev.Mix(h, uint64(st), uint64(en))
			if !eqSeq(child.Values, want) {
				c.Failf("flex-typed-subslice", "FlexSlice[%s] SubSlice(%d, %d) of %s = %s, documented window is %s", in.name, st, en, abbr(m), abbr(child.Values), abbr(want))
				return
			}
			if !verify("SubSlice (parent)") {
				return
			}
			if rng.Chance(1, 3) {
				f, m = child, want
				add("flex_typed_subslice_adopted")
				if !verify("SubSlice (child)") {
					return
				}
			}
		}
	}
	// drain: every element comes back out, from a random end
	for guard := 0; len(m) > 0 && guard < 100000; guard++ {
		if rng.Bool() {
			if !removal("Pop", len(m)-1, func() (T, bool) { return f.Pop() }) {
				return
			}
		} else if !removal("Shift", 0, func() (T, bool) { return f.Shift() }) {
			return
		}
	}
	if !removal("Pop", -1, func() (T, bool) { return f.Pop() }) || !removal("Shift", -1, func() (T, bool) { return f.Shift() }) {
		return
	}
	add("flex_typed_cases")
	c.Distinct(h)
	if c.WantSample() {
		c.Sample(fmt.Sprintf("flex types: FlexSlice[%s], %d operations incl. Prepend/Append of sub-slices of its own Values, whole sequence compared after each, drained to empty", in.name, nops))
	}
}
