package main

import (
	"fmt"
	"math"

	"github.com/welllog/golib/slicez"

	"verif/ev"
)

// ---- flex/window: unobserved-operation windows ----

// blindStep is one mutator inside a window: Append, Prepend, Pop, Shift or
// Remove. The value each removal returns is still compared with the model, but
// nothing is read back (no Len, no Get, no Values) until the window is over.
func (s *flexSut) blindStep() bool {
	rng := s.c.Rng
	k := func() int {
		switch rng.Intn(8) {
		case 0:
			return 0
		case 1:
			return rng.Range(5, 20)
		default:
			return rng.Range(1, 3)
		}
	}
	if len(s.m) > 300 {
		return s.doShift()
	}
	switch rng.Intn(10) {
	case 0, 1:
		return s.doAppend(k())
	case 2, 3, 4:
		return s.doPrepend(k())
	case 5:
		return s.doPop()
	case 6, 7:
		return s.doShift()
	default:
		return s.doRemove(s.idx())
	}
}

var flexObservers = [...]string{"Values", "Len", "Get", "SubSlice", "GetAll"}

// observeFirst makes the first observation after a window with the chosen
// observer, then compares everything.
func (s *flexSut) observeFirst(kind int) bool {
	c := s.c
	c.Add("flex_window_first_observer/"+flexObservers[kind], 1)
	switch kind {
	case 0:
		s.valuesFirst = true
	case 1:
		// verify starts with Len
	case 2:
		if !s.doGet(s.idx()) {
			return false
		}
	case 3:
		if !s.doSub(0, -1, false) {
			return false
		}
	default:
		for i := 0; i < len(s.m); i++ {
			if !s.doGet(i) {
				return false
			}
		}
	}
	return s.verify("window")
}

// reinit: the caller re-uses the same FlexSlice variable through its exported
// field: cut to [:0] keeping the capacity, cut to a prefix, set to nil, or hand
// over a newly built Values slice.
func (s *flexSut) reinit() bool {
	c, rng := s.c, s.c.Rng
	switch rng.Intn(4) {
	case 0:
		s.f.Values = s.f.Values[:0]
		s.m = s.m[:0]
		s.note('z', 0, 0)
		c.Add("flex_reinit_cut_to_empty_keeping_capacity", 1)
		c.Logf("caller: f.Values = f.Values[:0]")
	case 1:
		k := rng.Intn(len(s.m) + 1)
		s.f.Values = s.f.Values[:k]
		s.m = s.m[:k]
		s.note('z', 1, k)
		c.Add("flex_reinit_cut_to_prefix", 1)
		c.Logf("caller: f.Values = f.Values[:%d]", k)
	case 2:
		s.f.Values = nil
		s.m = nil
		s.note('z', 2, 0)
		c.Add("flex_reinit_nil", 1)
		c.Logf("caller: f.Values = nil")
	default:
		n := rng.Intn(30)
		cp := rng.Pick(n, n+1, 2*n, 4*n, 4*n+1, 9, 64)
		s.note('z', 3, n*1000+cp)
		s.preset(n, cp)
		c.Add("flex_reinit_new_values", 1)
	}
	return s.verify("re-initialisation")
}

func flexWindowCase(c *ev.Case) {
	rng := c.Rng
	s := &flexSut{c: c}
	switch rng.Intn(3) {
	case 0:
		c.Logf("start: zero FlexSlice")
	case 1:
		n := rng.Intn(20)
		s.preset(n, n)
	default:
		n := rng.Intn(40)
		s.preset(n, rng.Pick(n, n+1, 2*n, 4*n-1, 4*n, 4*n+1, 8, 9, 64, 8*n+3))
	}
	rounds := rng.Range(3, 10)
	for r := 0; r < rounds; r++ {
		w := rng.Range(2, 12)
		shifts := 0
		lastShift := false
		s.blind = true
		for i := 0; i < w; i++ {
			before := len(s.m)
			if !s.blindStep() {
				return
			}
			if lastShift && len(s.m) > before {
				c.Add("flex_window_insert_right_after_removal", 1)
			}
			lastShift = len(s.m) < before
			if lastShift {
				shifts++
			}
		}
		s.blind = false
		c.Add("flex_windows", 1)
		c.Add("flex_window_ops_unobserved", int64(w))
		if shifts > 0 {
			c.Add("flex_windows_with_removals", 1)
		}
		if !s.observeFirst(rng.Intn(len(flexObservers))) {
			return
		}
		// between windows: observed operations with arguments at the ends of int
		switch rng.Intn(4) {
		case 0:
			n := len(s.m)
			st := rng.Pick(math.MinInt, math.MinInt+1, -1, 0, 1, n/2, n-1, n, n+1, math.MaxInt-1, math.MaxInt)
			en := rng.Pick(math.MinInt, math.MinInt+1, -1, 0, 1, n/2, n-1, n, n+1, math.MaxInt-1, math.MaxInt)
			if st <= math.MinInt+1 || st >= math.MaxInt-1 || en <= math.MinInt+1 || en >= math.MaxInt-1 {
				c.Add("flex_subslice_extreme_args", 1)
				if st <= math.MinInt+1 && en > 0 && en <= n {
					c.Add("flex_subslice_minint_start_nonempty_window", 1)
				}
			}
			if !s.doSub(st, en, rng.Chance(1, 3)) {
				return
			}
		case 1:
			if !s.reinit() {
				return
			}
		}
	}
	// drain blind, then look
	s.blind = true
	for guard := 0; len(s.m) > 0 && guard < 100000; guard++ {
		if rng.Bool() {
			if !s.doPop() {
				return
			}
		} else if !s.doShift() {
			return
		}
	}
	if !s.doPop() || !s.doShift() {
		return
	}
	s.blind = false
	if !s.observeFirst(rng.Intn(2)) {
		return
	}
	c.Distinct(s.hash)
	if c.WantSample() {
		c.Sample(fmt.Sprintf("flex window: %d operations in %d unobserved windows of 2..12 mutators, first observer varied, re-initialisation through the exported field in between", s.ops, rounds))
	}
}

// ---- flex/big: capacities on both sides of 2^12 .. 2^17 ----

func flexBigCase(c *ev.Case) {
	rng := c.Rng
	s := &flexSut{c: c}
	C := rng.Pick(1<<12, 1<<14, 1<<16, 1<<16, 1<<17) + rng.Pick(-1, 0, 0, 1)
	n := rng.Pick(C, C, C-1, C/2, C/4+2, C/4+1)
	s.preset(n, C)
	c.Add("flex_big_cases", 1)
	if !s.verify("start") {
		return
	}
	steps := rng.Range(6, 12)
	for i := 0; i < steps; i++ {
		cp, ln := cap(s.f.Values), len(s.m)
		if ln > 400000 {
			break
		}
		room := cp - ln
		switch rng.Intn(6) {
		case 0, 1: // Prepend on the capacity / doubling / quarter boundaries
			k := rng.Pick(1, room-1, room, room+1, room+cp/4, room+cp/4+1, room+cp/2, 2*cp-ln, 2*cp-ln+1)
			if k < 0 {
				k = 0
			}
			if k > 300000 {
				k = 300000
			}
			nc := k + ln
			if cp >= 1<<16 && cp < nc && 2*cp >= nc {
				c.Add("flex_big_prepend_doubling_cap_ge_65536", 1)
				if nc > cp+cp/4 {
					c.Add("flex_big_prepend_doubling_more_than_a_quarter", 1)
				}
			}
			if cp >= nc && ln >= 4096 && k > 0 {
				c.Add("flex_big_prepend_in_place_shift_ge_4096", 1)
			}
			if !s.doPrepend(k) {
				return
			}
		case 2:
			k := rng.Pick(1, room-1, room, room+1, cp/4, cp)
			if k < 0 {
				k = 0
			}
			if k > 300000 {
				k = 300000
			}
			if !s.doAppend(k) {
				return
			}
		case 3: // jump to just above the shrink threshold, then walk across it
			q := cp / 4
			if ln < q+3 || cp <= 8 {
				if !s.doPop() {
					return
				}
				continue
			}
			st := rng.Pick(0, 0, 1, ln-(q+2))
			if !s.doSub(st, st+q+2, true) {
				return
			}
			how := rng.Intn(3)
			for j := 0; j < 4 && len(s.m) > 0; j++ {
				capBefore := cap(s.f.Values)
				switch how {
				case 0:
					if !s.doPop() {
						return
					}
				case 1:
					if !s.doShift() {
						return
					}
				default:
					if !s.doRemove(rng.Pick(len(s.m)-2, len(s.m)/2, 1, 0)) {
						return
					}
				}
				if cap(s.f.Values) < capBefore && capBefore >= 4096 {
					c.Add("flex_big_shrinks_cap_ge_4096", 1)
				}
			}
		case 4:
			for j := 0; j < 3; j++ {
				if !s.doRemove(s.idx()) {
					return
				}
			}
		default:
			if !s.doGet(s.idx()) || !s.doGet(len(s.m)-1) || !s.doGet(0) {
				return
			}
		}
	}
	c.Max("flex_big_max_len", int64(s.maxLen))
	c.Distinct(ev.Mix(s.hash, uint64(C), uint64(n)))
	if c.WantSample() {
		c.Sample(fmt.Sprintf("flex big: capacity %d holding %d, %d operations with Prepend/Append bursts on the room, room+cap/4 and doubling boundaries and removals across the quarter threshold", C, n, s.ops))
	}
}

// ---- flex/sparearg: the argument lives in the FlexSlice's spare capacity ----

// flexSpareArgCase: the caller built Values as the front of a bigger array of
// its own and passes another part of that array - one that lies behind
// len(Values) but inside cap(Values) - to Prepend / Append. The new sequence is
// still the argument's values at the time of the call before / behind the old
// sequence (as append(s, s[:cap(s)][x:y]...) and slices.Insert give).
func flexSpareArgCase(c *ev.Case) {
	rng := c.Rng
	for round := 0; round < 4; round++ {
		n := rng.Intn(10)
		spare := rng.Range(1, 12)
		arena := make([]int, n+spare)
		for i := range arena {
			arena[i] = 1000*(round+1) + i
		}
		f := slicez.FlexSlice[int]{Values: arena[:n]}
		old := clone(arena[:n])
		x := n + rng.Intn(spare)
		if rng.Chance(1, 2) {
			x = n + rng.Intn(minInt(spare, 3))
		}
		y := rng.Range(x+1, n+spare)
		if n > 0 && rng.Chance(1, 3) {
			// the argument starts among the live elements and runs on into the spare part
			x = rng.Intn(n)
			y = rng.Range(n+1, n+spare)
			c.Add("flex_sparearg_argument_straddles_len", 1)
		}
		k := y - x
		arg := arena[x:y]
		switch rng.Intn(3) {
		case 1:
			arg = arena[x:y:y]
		case 2:
			arg = f.Values[:cap(f.Values)][x:y]
		}
		argCopy := clone(arg)
		prepend := rng.Chance(3, 4)
		var want []int
		name := "Append"
		if prepend {
			name = "Prepend"
			want = append(clone(argCopy), old...)
			if !c.Guard("Prepend", func() { f.Prepend(arg...) }) {
				return
			}
		} else {
			want = append(clone(old), argCopy...)
			if !c.Guard("Append", func() { f.Append(arg...) }) {
				return
			}
		}
		c.Logf("Values = arena[:%d] = %v (cap %d); %s(arena[%d:%d]...) i.e. %s(%v) -> %v", n, old, n+spare, name, x, y, name, argCopy, f.Values)
		c.Add("flex_sparearg_calls", 1)
		if prepend {
			if n+k <= n+spare {
				c.Add("flex_sparearg_prepend_within_capacity", 1)
				if n > 0 && x < n+k {
					c.Add("flex_sparearg_prepend_shift_runs_into_argument", 1)
				}
			} else {
				c.Add("flex_sparearg_prepend_reallocating", 1)
			}
		}
		if !eqSeq(f.Values, want) {
			c.Failf("flex-sparearg/"+name, "arena of %d, f.Values = arena[:%d] = %v; f.%s(arena[%d:%d]...) i.e. %s(%v) gives %v, a sequence gives %v", n+spare, n, old, name, x, y, name, argCopy, f.Values, want)
			return
		}
		var ln int
		if !c.Guard("Len", func() { ln = f.Len() }) {
			return
		}
		if ln != len(want) {
			c.Failf("flex-sparearg/Len", "after f.%s(arena[%d:%d]...) on %v: Len() = %d, want %d", name, x, y, old, ln, len(want))
			return
		}
		c.Distinct(ev.Mix(uint64(n), uint64(spare), uint64(x), uint64(y), uint64(round)))
	}
	if c.WantSample() {
		c.Sample("flex sparearg: 4 x (Values = front of a caller-built array; Prepend/Append of a part of that array lying between len and cap)")
	}
}

func minInt(a, b int) int {
	if a < b {
		return a
	}
	return b
}
