package main

import (
	"fmt"
	"math"
)

const poisonInt = -777

// has is the nested-loop membership test of the reference implementations (no maps).
func has[T comparable](s []T, v T) bool {
	for i := range s {
		if s[i] == v {
			return true
		}
	}
	return false
}

// eqSeq compares two sequences by content; nil and empty are the same observation.
func eqSeq[T comparable](a, b []T) bool {
	if len(a) != len(b) {
		return false
	}
	for i := range a {
		if a[i] != b[i] {
			return false
		}
	}
	return true
}

// sameMultiset: every value occurs equally often in a and b (quadratic, no maps).
func sameMultiset[T comparable](a, b []T) bool {
	if len(a) != len(b) {
		return false
	}
	used := make([]bool, len(b))
outer:
	for i := range a {
		for j := range b {
			if !used[j] && a[i] == b[j] {
				used[j] = true
				continue outer
			}
		}
		return false
	}
	return true
}

func clone[T any](s []T) []T {
	out := make([]T, len(s))
	copy(out, s)
	return out
}

// mkLive builds the slice handed to golib: content vals, placed at offset off
// of a larger array whose other cells (and the spare capacity behind the slice)
// hold a poison value, so that reads beyond len show up in results.
func mkLive[T any](vals []T, spare, off int, poison T, nilIfEmpty bool) []T {
	if len(vals) == 0 && nilIfEmpty {
		return nil
	}
	base := make([]T, off+len(vals)+spare)
	for i := range base {
		base[i] = poison
	}
	copy(base[off:], vals)
	return base[off : off+len(vals)]
}

// ---- reference implementations written from the doc comments ----

func refDiff[T comparable](a, b []T) []T {
	var out []T
	for _, v := range a {
		if !has(b, v) {
			out = append(out, v)
		}
	}
	return out
}

func refIntersect[T comparable](a, b []T) []T {
	var out []T
	for _, v := range a {
		if has(b, v) {
			out = append(out, v)
		}
	}
	return out
}

func refUnique[T comparable](a []T) []T {
	var out []T
	for i, v := range a {
		if !has(a[:i], v) {
			out = append(out, v)
		}
	}
	return out
}

func refUniqueByKey[T any](a []T, key func(T) int) []T {
	var out []T
	for i, v := range a {
		k := key(v)
		first := true
		for j := 0; j < i; j++ {
			if key(a[j]) == k {
				first = false
				break
			}
		}
		if first {
			out = append(out, v)
		}
	}
	return out
}

func refFilter[T any](a []T, pred func(T) bool) []T {
	var out []T
	for _, v := range a {
		if pred(v) {
			out = append(out, v)
		}
	}
	return out
}

// refSub: elements from start to end; start below 0 counts as 0; a negative or
// oversized end means "to the end of s"; an empty or inverted window is empty.
func refSub[T any](s []T, start, end int) []T {
	l := len(s)
	if start < 0 {
		start = 0
	}
	if end < 0 || end > l {
		end = l
	}
	if start >= end {
		return nil
	}
	return clone(s[start:end])
}

// refCopy: length elements from start; negative length means "to the end";
// start below 0 counts as 0; whatever exceeds the slice is cut off.
func refCopy[T any](s []T, start, length int) []T {
	l := len(s)
	if start < 0 {
		start = 0
	}
	if start >= l || length == 0 {
		return nil
	}
	end := l
	if length > 0 && length < l-start {
		end = start + length
	}
	return clone(s[start:end])
}

func refIndex[T comparable](s []T, v T) int {
	for i := range s {
		if s[i] == v {
			return i
		}
	}
	return -1
}

func show[T any](s []T) string {
	if s == nil {
		return "nil"
	}
	return fmt.Sprintf("%v(cap %d)", s, cap(s))
}

// boundaryIdx: every value in -3..n+3 plus the extremes of int.
func boundaryIdx(n int) []int {
	out := make([]int, 0, n+11)
	for i := -3; i <= n+3; i++ {
		out = append(out, i)
	}
	return append(out, math.MinInt, math.MinInt+1, math.MaxInt-1, math.MaxInt)
}

func hashInts(h uint64, vs []int) uint64 {
	h = h*1099511628211 ^ uint64(len(vs)+1)
	for _, v := range vs {
		h = (h ^ uint64(v+1000)) * 1099511628211
	}
	return h
}

// abbr prints a sequence; long ones (the big-size engines) as head ... tail.
func abbr[T any](s []T) string {
	if len(s) <= 80 {
		return fmt.Sprint(s)
	}
	return fmt.Sprintf("[%d elements: %v ... %v]", len(s), s[:12], s[len(s)-6:])
}
