package main

import (
	"errors"
	"fmt"
	"strconv"

	"github.com/welllog/golib/slicez"

	"verif/ev"
)

// boundsCase: one slice; SubSlice/Copy/Remove over every start/end/length/index
// in -3..len+3 and the extremes of int; Index/Contains/Equal against nested
// loops; Chunk/ChunkProcess over every size in -2..len+3; Values over 0..3 slices.
func boundsCase(c *ev.Case) {
	rng := c.Rng
	var n int
	switch rng.Intn(12) {
	case 0:
		n = 0
	case 1:
		n = 1
	case 2:
		n = rng.Range(11, 33)
	default:
		n = rng.Range(2, 10)
	}
	vr := rng.Pick(1, 2, 3, 5, 50)
	vals := make([]int, n)
	for i := range vals {
		vals[i] = rng.Intn(vr)
	}
	if rng.Chance(1, 3) { // all different: every misplaced element is visible
		for i := range vals {
			vals[i] = 100 + i
		}
		vr = 0
	}
	spare := rng.Pick(0, 0, 1, 3, 8)
	off := rng.Pick(0, 0, 2)
	nilEmpty := rng.Bool()
	fresh := func() []int { return mkLive(vals, spare, off, poisonInt, nilEmpty) }
	switch {
	case n == 0 && nilEmpty:
		c.Add("bounds_input_nil", 1)
	case n == 0:
		c.Add("bounds_input_empty", 1)
	}
	if spare > 0 {
		c.Add("bounds_input_spare_capacity", 1)
	}
	if n > 0 {
		c.Distinct(ev.Mix(hashInts(0xb0, vals), uint64(spare), uint64(off)))
	}
	idxs := boundaryIdx(n)
	full := len(idxs)*len(idxs) <= 320

	// ---- SubSlice ----
	sub := func(start, end int) bool {
		s := fresh()
		var got []int
		if !c.Guard("SubSlice", func() { got = slicez.SubSlice(s, start, end) }) {
			return false
		}
		want := refSub(vals, start, end)
		if c.Logging() {
			c.Logf("SubSlice(%s, %d, %d) -> %s", show(vals), start, end, show(got))
		}
		c.Add("calls/SubSlice", 1)
		if !eqSeq(got, want) {
			c.Failf("SubSlice", "SubSlice(%v (cap %d), start=%d, end=%d) = %v, documented window is %v", vals, cap(s), start, end, got, want)
			return false
		}
		switch {
		case start < 0:
			c.Add("subslice_start_negative", 1)
		case start > n:
			c.Add("subslice_start_beyond_len", 1)
		case start == n:
			c.Add("subslice_start_eq_len", 1)
		}
		switch {
		case end < 0:
			c.Add("subslice_end_negative", 1)
		case end > n:
			c.Add("subslice_end_beyond_len", 1)
		}
		if start >= 0 && end >= 0 && end <= n && start > end {
			c.Add("subslice_inverted", 1)
		}
		return true
	}
	// ---- Copy ----
	cpy := func(start, length int) bool {
		s := fresh()
		var got []int
		if !c.Guard("Copy", func() { got = slicez.Copy(s, start, length) }) {
			return false
		}
		want := refCopy(vals, start, length)
		if c.Logging() {
			c.Logf("Copy(%s, %d, %d) -> %s", show(vals), start, length, show(got))
		}
		c.Add("calls/Copy", 1)
		if !eqSeq(got, want) {
			c.Failf("Copy", "Copy(%v (cap %d), start=%d, length=%d) = %v, documented result is %v", vals, cap(s), start, length, got, want)
			return false
		}
		switch {
		case start < 0:
			c.Add("copy_start_negative", 1)
		case start >= n:
			c.Add("copy_start_beyond", 1)
		}
		switch {
		case length < 0:
			c.Add("copy_length_negative", 1)
		case length == 0:
			c.Add("copy_length_zero", 1)
		case start >= 0 && start < n && length > n-start:
			c.Add("copy_length_clamped", 1)
		}
		if len(got) > 0 {
			// fresh memory: writes to the result must not reach the input, and vice versa
			for i := range got {
				got[i] = -5000 - i
			}
			if !eqSeq(s, vals) {
				c.Failf("Copy-not-fresh", "Copy(%v, %d, %d): writing to the result changed the input to %v", vals, start, length, s)
				return false
			}
			for i := range s {
				s[i] = -9000 - i
			}
			for i := range got {
				if got[i] != -5000-i {
					c.Failf("Copy-not-fresh", "Copy(%v, %d, %d): writing to the input changed the result (element %d)", vals, start, length, i)
					return false
				}
			}
			c.Add("copy_freshness_checked", 1)
		}
		return true
	}
	if full {
		for _, a := range idxs {
			for _, b := range idxs {
				if !sub(a, b) || !cpy(a, b) {
					return
				}
			}
		}
	} else {
		for i := 0; i < 320; i++ {
			a, b := idxs[rng.Intn(len(idxs))], idxs[rng.Intn(len(idxs))]
			if !sub(a, b) || !cpy(a, b) {
				return
			}
		}
	}

	// ---- Remove ----
	for _, ix := range idxs {
		s := fresh()
		var r []int
		var v int
		var ok bool
		if !c.Guard("Remove", func() { r, v, ok = slicez.Remove(s, ix) }) {
			return
		}
		if c.Logging() {
			c.Logf("Remove(%s, %d) -> %s, %d, %v", show(vals), ix, show(r), v, ok)
		}
		c.Add("calls/Remove", 1)
		if ix >= 0 && ix < n {
			want := append(clone(vals[:ix]), vals[ix+1:]...)
			if !ok || v != vals[ix] || !eqSeq(r, want) {
				c.Failf("Remove", "Remove(%v, %d) = (%v, %d, %v), want (%v, %d, true)", vals, ix, r, v, ok, want, vals[ix])
				return
			}
			switch ix {
			case 0:
				c.Add("remove_first", 1)
			case n - 1:
				c.Add("remove_last", 1)
			default:
				c.Add("remove_middle", 1)
			}
		} else {
			if ok || !eqSeq(r, vals) {
				c.Failf("Remove-out-of-range", "Remove(%v, %d) = (%v, %d, %v), want the slice unchanged and false", vals, ix, r, v, ok)
				return
			}
			c.Add("remove_out_of_range", 1)
		}
	}

	// ---- Index / IndexFunc / Contains / ContainsFunc ----
	probes := []int{-1, 0, 1, 2, 3, 4, 49, 99, 100, 100 + n - 1, 100 + n, poisonInt}
	for _, x := range probes {
		s := fresh()
		want := refIndex(vals, x)
		var gi, gf int
		var gc, gcf bool
		if !c.Guard("Index", func() { gi = slicez.Index(s, x) }) ||
			!c.Guard("IndexFunc", func() { gf = slicez.IndexFunc(s, func(y int) bool { return y == x }) }) ||
			!c.Guard("Contains", func() { gc = slicez.Contains(s, x) }) ||
			!c.Guard("ContainsFunc", func() { gcf = slicez.ContainsFunc(s, func(y int) bool { return y == x }) }) {
			return
		}
		if c.Logging() {
			c.Logf("Index(%s, %d) -> %d ; IndexFunc -> %d ; Contains -> %v ; ContainsFunc -> %v", show(vals), x, gi, gf, gc, gcf)
		}
		c.Add("calls/Index+Contains", 4)
		if gi != want || gf != want || gc != (want >= 0) || gcf != (want >= 0) {
			c.Failf("Index", "in %v (cap %d) value %d: Index=%d IndexFunc=%d Contains=%v ContainsFunc=%v, first occurrence is at %d", vals, cap(s), x, gi, gf, gc, gcf, want)
			return
		}
		if want >= 0 {
			c.Add("index_found", 1)
			if refIndex(vals[want+1:], x) >= 0 {
				c.Add("index_found_with_later_duplicate", 1)
			}
		} else {
			c.Add("index_absent", 1)
		}
	}

	// ---- Equal ----
	eq := func(a, b []int, what string) bool {
		want := len(a) == len(b)
		if want {
			for i := range a {
				if a[i] != b[i] {
					want = false
				}
			}
		}
		for pass := 0; pass < 2; pass++ {
			var got bool
			if !c.Guard("Equal", func() { got = slicez.Equal(a, b) }) {
				return false
			}
			if c.Logging() {
				c.Logf("Equal(%s, %s) [%s] -> %v", show(a), show(b), what, got)
			}
			c.Add("calls/Equal", 1)
			if got != want {
				c.Failf("Equal", "Equal(%v, %v) [%s] = %v, want %v", a, b, what, got, want)
				return false
			}
			a, b = b, a
		}
		if want {
			c.Add("equal_true", 1)
		} else {
			c.Add("equal_false", 1)
		}
		return true
	}
	{
		s := fresh()
		if !eq(s, s, "same memory") || !eq(s, fresh(), "equal content") || !eq(s, mkLive(vals, 5, 1, poisonInt, !nilEmpty), "equal content, other capacity") {
			return
		}
		if !eq(nil, []int{}, "nil vs empty") || !eq(s, nil, "vs nil") || !eq(s, []int{}, "vs empty") {
			return
		}
		for i := 0; i < n; i++ {
			t := fresh()
			t[i]++
			if !eq(s, t, "one element differs") {
				return
			}
		}
		if n > 0 {
			if !eq(s, s[:n-1], "own prefix") || !eq(s, s[1:], "own suffix") {
				return
			}
			c.Add("equal_prefix_pairs", 1)
		}
		if !eq(s, append(clone(vals), 0), "one longer") {
			return
		}
		if cap(s) > n { // longer view of the same memory: the poison behind len must not matter
			if !eq(s, s[:n+1], "own extension into spare capacity") {
				return
			}
		}
		other := make([]int, rng.Intn(n+2))
		for i := range other {
			other[i] = rng.Intn(vr + 1)
		}
		if !eq(s, other, "random other") {
			return
		}
	}

	// ---- Chunk / ChunkProcess ----
	sizes := make([]int, 0, n+10)
	for z := -2; z <= n+3; z++ {
		sizes = append(sizes, z)
	}
	sizes = append(sizes, idxs[len(idxs)-4:]...)
	if len(sizes) > 24 {
		keep := sizes[:8:8]
		for i := 0; i < 12; i++ {
			keep = append(keep, sizes[8+rng.Intn(len(sizes)-8)])
		}
		sizes = keep
	}
	for _, size := range sizes {
		s := fresh()
		var pieces [][]int
		if !c.Guard("Chunk", func() { pieces = slicez.Chunk(s, size) }) {
			return
		}
		if c.Logging() {
			c.Logf("Chunk(%s, %d) -> %v", show(vals), size, pieces)
		}
		c.Add("calls/Chunk", 1)
		if !checkPieces(c, "Chunk", pieces, vals, size) {
			return
		}
		// ChunkProcess, no error
		s = fresh()
		var seen [][]int
		limit := n + 3
		overrun := false
		var err error
		if !c.Guard("ChunkProcess", func() {
			err = slicez.ChunkProcess(s, size, func(p []int) error {
				seen = append(seen, clone(p))
				if len(seen) > limit {
					overrun = true
					return errors.New("harness: too many callbacks")
				}
				return nil
			})
		}) {
			return
		}
		if c.Logging() {
			c.Logf("ChunkProcess(%s, %d) -> callbacks %v, err %v", show(vals), size, seen, err)
		}
		c.Add("calls/ChunkProcess", 1)
		if overrun {
			c.Failf("ChunkProcess-pieces", "ChunkProcess(%v, %d) made more than %d callbacks", vals, size, limit)
			return
		}
		if err != nil {
			c.Failf("ChunkProcess-error", "ChunkProcess(%v, %d) returned %v although every callback returned nil", vals, size, err)
			return
		}
		if !checkPieces(c, "ChunkProcess", seen, vals, size) {
			return
		}
		// ChunkProcess, callback k fails: iteration stops there and the error comes back
		if len(seen) > 0 {
			k := 1 + rng.Intn(len(seen))
			boom := fmt.Errorf("boom at callback %d", k)
			calls := 0
			s = fresh()
			if !c.Guard("ChunkProcess", func() {
				err = slicez.ChunkProcess(s, size, func(p []int) error {
					calls++
					if calls == k {
						return boom
					}
					if calls > limit {
						return errors.New("harness: too many callbacks")
					}
					return nil
				})
			}) {
				return
			}
			if c.Logging() {
				c.Logf("ChunkProcess(%s, %d) with callback %d failing -> %d callbacks, err %v", show(vals), size, k, calls, err)
			}
			if calls != k {
				c.Failf("ChunkProcess-continued-after-error", "ChunkProcess(%v, %d): callback %d of %d returned an error, yet %d callbacks were made", vals, size, k, len(seen), calls)
				return
			}
			if err != boom {
				c.Failf("ChunkProcess-error-lost", "ChunkProcess(%v, %d): callback %d returned %q, ChunkProcess returned %v", vals, size, k, boom, err)
				return
			}
			c.Add("chunkprocess_error_stops", 1)
			if k < len(seen) {
				c.Add("chunkprocess_error_before_last_piece", 1)
			}
		}
	}

	// ---- Values ----
	{
		nss := rng.Intn(4)
		orig := make([][]int, nss)
		live := make([][]int, nss)
		var want []int
		for i := range orig {
			m := rng.Pick(0, 0, 1, 2, 5)
			orig[i] = make([]int, m)
			for j := range orig[i] {
				orig[i][j] = rng.Intn(9)
			}
			live[i] = mkLive(orig[i], rng.Pick(0, 2), 0, poisonInt, rng.Bool())
			want = append(want, orig[i]...)
		}
		var got []int
		var gs []string
		if !c.Guard("Values", func() { got = slicez.Values(func(x int) int { return x }, live...) }) ||
			!c.Guard("Values", func() { gs = slicez.Values(func(x int) string { return strconv.Itoa(x * 3) }, live...) }) {
			return
		}
		if c.Logging() {
			c.Logf("Values(identity, %v) -> %s ; Values(itoa(3x)) -> %v", orig, show(got), gs)
		}
		c.Add("calls/Values", 2)
		c.Add(fmt.Sprintf("values_with_%d_slices", nss), 1)
		if !eqSeq(got, want) {
			c.Failf("Values", "Values(identity, %v) = %v, want %v", orig, got, want)
			return
		}
		if len(gs) != len(want) {
			c.Failf("Values", "Values(itoa(3x), %v) has %d elements, want %d", orig, len(gs), len(want))
			return
		}
		for i := range want {
			if gs[i] != strconv.Itoa(want[i]*3) {
				c.Failf("Values", "Values(itoa(3x), %v)[%d] = %q, want %q", orig, i, gs[i], strconv.Itoa(want[i]*3))
				return
			}
		}
		if len(got) > 0 {
			for i := range got {
				got[i] = -5000 - i
			}
			for i := range live {
				if !eqSeq(live[i], orig[i]) {
					c.Failf("Values-not-fresh", "Values(identity, %v): writing to the result changed input %d to %v", orig, i, live[i])
					return
				}
				for j := range live[i] {
					live[i][j] = -9000
				}
			}
			for i := range got {
				if got[i] != -5000-i {
					c.Failf("Values-not-fresh", "Values(identity, %v): writing to the inputs changed the result", orig)
					return
				}
			}
			c.Add("values_freshness_checked", 1)
		}
	}
	if c.WantSample() {
		c.Sample(fmt.Sprintf("bounds: s=%s: %d start/end/length/index values incl. int extremes for SubSlice, Copy, Remove; %d chunk sizes; Equal/Index/Values", show(fresh()), len(idxs), len(sizes)))
	}
}

// checkPieces: consecutive non-empty pieces whose concatenation is the input;
// for a size >= 1 every piece but the last has exactly that size and the last
// has at most that size. (For size < 1 the statement fixes no piece size.)
func checkPieces(c *ev.Case, fn string, pieces [][]int, orig []int, size int) bool {
	var cat []int
	for i, p := range pieces {
		if len(p) == 0 {
			c.Failf(fn+"-empty-piece", "%s(%v, %d): piece %d of %d is empty (pieces %v)", fn, orig, size, i, len(pieces), pieces)
			return false
		}
		if size >= 1 {
			if len(p) > size || (i < len(pieces)-1 && len(p) != size) {
				c.Failf(fn+"-piece-size", "%s(%v, %d): piece %d of %d has %d elements (pieces %v)", fn, orig, size, i, len(pieces), len(p), pieces)
				return false
			}
		}
		cat = append(cat, p...)
		if len(cat) > len(orig) {
			break
		}
	}
	if !eqSeq(cat, orig) {
		c.Failf(fn+"-concat", "%s(%v, %d): pieces %v do not concatenate to the input", fn, orig, size, pieces)
		return false
	}
	switch {
	case len(orig) == 0:
		c.Add("chunk_empty_input", 1)
	case size < 1:
		c.Add("chunk_size_below_1", 1)
	case size >= len(orig):
		c.Add("chunk_size_ge_len", 1)
	case len(orig)%size == 0:
		c.Add("chunk_exact_multiple", 1)
	default:
		c.Add("chunk_short_last_piece", 1)
	}
	return true
}
