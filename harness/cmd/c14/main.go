// C14 — slicez set operations, in-place variants and FlexSlice match their definitions.
//
// Reference-model monitor. Every slicez function is run on generated inputs and
// judged against a reference written from its doc comment with nested loops:
//
//	setops/rand        random (s1, s2) over tiny alphabets, input aliasing modes, two dst layouts per function
//	setops/small-*     every (s1, s2) over a 3-letter alphabet up to length 5 (thorough: 4 letters, length 6) x every dst layout
//	bounds             SubSlice/Copy/Remove/Index/Equal/Chunk/ChunkProcess/Values over every boundary argument
//	flex/mix           FlexSlice vs. plain-slice model, random grow/shrink phases
//	flex/threshold     scripted walk across every shrink threshold with Prepend bursts on the capacity boundaries
//	flex/selfarg       Append/Prepend whose argument is a sub-slice of the FlexSlice's own Values
//	flex/sparearg      Append/Prepend whose argument lies in the spare capacity behind len(Values)
//	flex/window        windows of 2..12 mutators without any observing call, first observer varied, re-initialisation through the exported field, SubSlice with MinInt/MaxInt
//	flex/big           capacities on both sides of 2^12..2^17: Prepend/Append on the room / quarter / doubling boundaries, removals across the shrink threshold
//	setops/float       float64 and {float64,int} elements with NaN, 0 and -0, float keys; s2 the same memory as s1
//	setops/big         15..70001 elements on both sides of the powers of two, s2 tiny or far longer than s1 (table-indexed references)
//	setops/keep        serial: the same s1/s2/dst buffers call after call with contents rewritten in place; inputs unchanged when dst is separate memory; results in own memory stay as returned
//	big/bounds         SubSlice/Copy/Remove/Index/Equal/Chunk/ChunkProcess/Values on 15..70001 elements
package main

import "verif/ev"

func main() {
	r := ev.New("C14")
	r.Rule("setops/rand: one case = 10 inputs, setops/small-*: one case = 1 input; an input = (s1, s2) over an alphabet of 1..9 values (int, string or {key,id} pair elements; nil, empty, duplicates), an input aliasing mode (independent, s2==s1, s2=s1[a:b], s1=s2[a:b]), a key function and a predicate; all 5 functions with several dst layouts (nil, empty, spare/short capacity, non-empty garbage, s1[:0], s1[:k], s1[:0:0], s2[:0]) and the 5 in-place variants run on it; distinct = hash of (element type, contents, aliasing, key, predicate) of all inputs of the case, non-trivial = s1 has 2+ elements or s2 is non-empty. bounds: one case = one slice (nil/empty/1..33 elements, spare capacity holding poison) with every start/end/length/index in -3..len+3 plus MinInt/MaxInt and every chunk size in -2..len+3; distinct = hash of contents and layout. flex: one case = an operation sequence on a FlexSlice (zero value or caller-built Values with spare capacity) with the whole sequence compared after every operation; distinct = hash of the operation sequence. setops/float: one case = 6 inputs over {NaN, 0, -0, 1, 2, +Inf, -1} (plain floats or {K float64, ID} structs), aliasing independent / s2==s1 / s2=s1[a:b], dst nil / fresh / s1[:0] / s2[:0]; distinct = hash of contents and aliasing. setops/big and big/bounds: one case = one input of 15..70001 ints; distinct = hash of lengths, alphabet, aliasing and the first 64 elements. setops/keep: one case = 6..14 calls on the same three buffers; distinct = hash of (buffer edit, function, dst layout, contents) per step. flex/window, flex/big, flex/sparearg: as flex (hash of the operation sequence / of the arena layout).")
	r.Assume("the references (nested loops, written from the doc comments) are the definitions: Diff/Intersect/Filter keep the elements of s1 that are absent from / present in s2 / satisfy the predicate, Unique/UniqueByKey keep the first occurrence per value / key")
	r.Assume("results are compared by content: nil and empty are the same observation; capacities are read for coverage counters only")
	r.Assume("dst aliasing is exercised as the prefix [:0] (or [:k], [:0:0]) of an input; when s2 is itself a sub-slice of s1 starting behind s1[0], dst = s2[:0] is not used (a destination in the middle of the slice being read is not covered by the statement)")
	r.Assume("Chunk/ChunkProcess: a piece is non-empty; for a chunk size below 1 only 'concatenation = input' is demanded; an error returned by the callback ends the iteration and is returned")
	r.Assume("SubSlice/Copy clamping as documented: negative start counts as 0, negative or oversized end/length means 'to the end', an empty window is an empty result; for out-of-range Get/Remove/Pop/Shift only ok=false and an unchanged sequence are demanded")

	r.Assume("flex/selfarg: the value of a variadic argument is its content at the time of the call, also when the caller passes a sub-slice of the exported f.Values (as append and slices.Insert guarantee)")

	r.Assume("float elements: selection is by == (a NaN equals nothing, not even itself, so it is never 'present in s2' and never a repeated value or key; 0 == -0), which is also what a map keyed by the element gives; the selected elements are compared bit by bit")
	r.Assume("flex/sparearg: as flex/selfarg, for an argument that is a part of the caller-built array behind len(f.Values) but inside cap(f.Values) (append(s, s[:cap(s)][x:y]...) gives the same)")
	r.Assume("flex/window: assigning to the exported field Values (f.Values = f.Values[:k], = nil, = a new slice) starts a new sequence with that content")
	r.Assume("setops/keep: when dst is memory separate from s1 and s2 the dst-taking functions leave s1 and s2 as they were (only the InPlace variants are documented to reorder s1); s2 is never written by an InPlace variant when it is separate from s1; a result returned in memory of its own (dst nil or new) is not changed by later calls whose arguments are other memory")

	r.Cases("setops/rand", r.N(60000, 3000000), ev.Opt{HangViolation: true}, randSetCase)
	small := smallScope{sym: 3, len1: 5, len2: 3}
	if r.Thorough() {
		small = smallScope{sym: 4, len1: 6, len2: 3}
	}
	r.Cases("setops/small-int", small.total(), ev.Opt{HangViolation: true}, func(c *ev.Case) { smallRun(small, instInt, c) })
	r.Cases("setops/small-pair", small.total(), ev.Opt{HangViolation: true}, func(c *ev.Case) { smallRun(small, instPair, c) })
	r.Cases("bounds", r.N(60000, 1200000), ev.Opt{HangViolation: true}, boundsCase)
	r.Cases("flex/mix", r.N(50000, 3000000), ev.Opt{HangViolation: true}, flexMixCase)
	r.Cases("flex/threshold", r.N(40000, 800000), ev.Opt{HangViolation: true}, flexThresholdCase)
	r.Cases("flex/selfarg", r.N(10000, 200000), ev.Opt{HangViolation: true}, flexSelfArgCase)
	r.Cases("equal-nan", r.N(5000, 100000), ev.Opt{HangViolation: true}, equalNaNCase)
	r.Cases("flex/sparearg", r.N(10000, 200000), ev.Opt{HangViolation: true}, flexSpareArgCase)
	r.Cases("flex/window", r.N(30000, 600000), ev.Opt{HangViolation: true}, flexWindowCase)
	r.Cases("flex/big", r.N(160, 3200), ev.Opt{HangViolation: true}, flexBigCase)
	r.Cases("setops/float", r.N(20000, 400000), ev.Opt{HangViolation: true}, floatSetCase)
	r.Cases("setops/big", r.N(400, 8000), ev.Opt{HangViolation: true}, bigSetCase)
	r.Cases("big/bounds", r.N(300, 6000), ev.Opt{HangViolation: true}, boundsBigCase)
	r.Cases("setops/keep", r.N(20000, 300000), ev.Opt{HangViolation: true, Serial: true}, keepCase)
	r.Require("equal_nan_cases", 1000)
	r.Require("flex_selfarg_capacity_limited_arg", 500)

	// anti-vacuity floors (far below what a healthy run observes)
	for _, k := range []string{"calls/Diff", "calls/Intersect", "calls/Unique", "calls/DiffInPlaceFirst", "calls/IntersectInPlaceFirst", "calls/UniqueInPlace"} {
		r.Require(k, 50000)
	}
	r.Require("dst_layout/s1[:0]", 50000)
	r.Require("dst_layout/s2[:0]", 10000)
	r.Require("aliased_dst_nonempty_result", 50000)
	r.Require("inplace_argument_reordered", 20000)
	r.Require("inplace_proper_partition", 20000)
	r.Require("s1_with_duplicates", 20000)
	r.Require("small_scope_inputs", 20000)
	r.Require("setops_random_inputs", 200000)
	r.Require("calls/SubSlice", 100000)
	r.Require("calls/Copy", 100000)
	r.Require("copy_freshness_checked", 20000)
	r.Require("values_freshness_checked", 5000)
	r.Require("remove_out_of_range", 20000)
	r.Require("remove_middle", 20000)
	r.Require("chunk_exact_multiple", 5000)
	r.Require("chunk_short_last_piece", 5000)
	r.Require("chunk_size_below_1", 5000)
	r.Require("chunkprocess_error_before_last_piece", 2000)
	r.Require("equal_true", 10000)
	r.Require("equal_false", 10000)
	r.Require("flex_shrinks", 5000)
	r.Require("flex_shrink_exactly_at_quarter", 1000)
	r.Require("flex_prepend_within_capacity", 5000)
	r.Require("flex_prepend_overlapping_shift", 1000)
	r.Require("flex_prepend_realloc_double", 5000)
	r.Require("flex_prepend_realloc_exact", 1000)
	r.Require("flex_subslice_adopted", 1000)
	r.Require("flex_selfarg_prepend", 2000)
	r.Require("flex_selfarg_prepend_within_capacity_offset_arg", 1000)

	// situations added by the strengthening round (LESSONS classes 1, 2, 3, 4, 6, 7, 8, 11, 12)
	r.Require("flex_windows", 50000)
	r.Require("flex_window_ops_unobserved", 200000)
	r.Require("flex_windows_with_removals", 20000)
	r.Require("flex_window_insert_right_after_removal", 10000)
	for _, o := range flexObservers {
		r.Require("flex_window_first_observer/"+o, 5000)
	}
	r.Require("flex_reinit_cut_to_empty_keeping_capacity", 1000)
	r.Require("flex_reinit_new_values", 1000)
	r.Require("flex_subslice_extreme_args", 2000)
	r.Require("flex_subslice_minint_start_nonempty_window", 200)
	r.Require("flex_big_cases", 100)
	r.Require("flex_big_prepend_doubling_cap_ge_65536", 10)
	r.Require("flex_big_prepend_doubling_more_than_a_quarter", 5)
	r.Require("flex_big_prepend_in_place_shift_ge_4096", 10)
	r.Require("flex_big_shrinks_cap_ge_4096", 10)
	r.Require("flex_sparearg_prepend_within_capacity", 2000)
	r.Require("flex_sparearg_prepend_shift_runs_into_argument", 1000)
	r.Require("float_inputs", 50000)
	r.Require("float_s1_with_nan", 10000)
	r.Require("float_same_memory_with_nan", 3000)
	r.Require("float_s1_with_both_zeros", 3000)
	r.Require("float_nan_keys", 3000)
	r.Require("setops_big_inputs", 200)
	r.Require("setops_big_s1_ge_4096", 30)
	r.Require("setops_big_s1_ge_65536", 5)
	r.Require("setops_big_s2_ge_4096_longer_than_s1", 20)
	r.Require("setops_big_s2_ge_65536", 5)
	r.Require("setops_big_s1_tiny_s2", 3)
	r.Require("bounds_big_cases", 150)
	r.Require("bounds_big_len_ge_4096", 30)
	r.Require("bounds_big_equal_difference_in_last_3", 300)
	r.Require("bounds_big_chunk_ge_128_pieces", 100)
	r.Require("keep_calls", 100000)
	r.Require("keep_cases_with_operands_of_32_or_more", 300)
	r.Require("keep_inputs_checked_unmodified", 30000)
	r.Require("keep_inputs_unmodified_result_not_a_prefix", 3000)
	r.Require("keep_kept_results_rechecked", 10000)
	r.Require("keep_same_call_again_only_s2_content_changed", 3000)
	r.Require("keep_same_call_again_only_s1_content_changed", 3000)
	r.Require("keep_same_call_again_nothing_changed", 1000)
	r.Finish()
}
