// C14 — slicez set operations, in-place variants and FlexSlice match their definitions.
//
// Reference-model monitor. Every slicez function is run on generated inputs and
// judged against a reference written from its doc comment with nested loops:
//
//	setops/rand        random (s1, s2) over tiny alphabets, input aliasing modes, two dst layouts per function
//	setops/small-*     every (s1, s2) over a 3-letter alphabet up to length 5 (thorough: 4 letters, length 6) x every dst layout
//	bounds             SubSlice/Copy/Remove/Index/Equal/Chunk/ChunkProcess/Values over every boundary argument
//	flex/mix           FlexSlice vs. plain-slice model, random grow/shrink phases
//	flex/threshold     scripted walk across every shrink threshold with Prepend bursts on the capacity boundaries
//	flex/selfarg       Append/Prepend whose argument is a sub-slice of the FlexSlice's own Values
//	flex/sparearg      Append/Prepend whose argument lies in the spare capacity behind len(Values)
//	flex/window        windows of 2..12 mutators without any observing call, first observer varied, re-initialisation through the exported field, SubSlice with MinInt/MaxInt
//	flex/big           capacities on both sides of 2^12..2^17: Prepend/Append on the room / quarter / doubling boundaries, removals across the shrink threshold
//	setops/float       float64 and {float64,int} elements with NaN, 0 and -0, float keys; s2 the same memory as s1
//	setops/big         15..70001 elements on both sides of the powers of two, s2 tiny or far longer than s1 (table-indexed references)
//	setops/keep        serial: the same s1/s2/dst buffers call after call with contents rewritten in place; inputs unchanged when dst is separate memory; results in own memory stay as returned
//	big/bounds         SubSlice/Copy/Remove/Index/Equal/Chunk/ChunkProcess/Values on 15..70001 elements
//	flex/types         FlexSlice[uint16], [string], [[3]int], [{string;int64;bool}] (2, 16, 24, 32-byte elements) vs. the plain-slice model, incl. Prepend/Append of sub-slices of the own Values
package main

import "verif/ev"

func main() {
	r := ev.New("C14")
	r.Rule("setops/rand: one case = 10 inputs, setops/small-*: one case = 1 input; an input = (s1, s2) over an alphabet of 1..9 values (int, string or {key,id} pair elements; nil, empty, duplicates), an input aliasing mode (independent, s2==s1, s2=s1[a:b], s1=s2[a:b]), a key function and a predicate; all 5 functions with several dst layouts (nil, empty, spare/short capacity, non-empty garbage, s1[:0], s1[:k], s1[:0:0], s1[:0:c] with room for a part of the result only, s2[:0]) and the 5 in-place variants run on it; distinct = hash of (element type, contents, aliasing, key, predicate) of all inputs of the case, non-trivial = s1 has 2+ elements or s2 is non-empty. bounds: one case = one slice (nil/empty/1..33 elements, spare capacity holding poison) with every start/end/length/index in -3..len+3 plus MinInt/MaxInt and every chunk size in -2..len+3; distinct = hash of contents and layout. flex: one case = an operation sequence on a FlexSlice (zero value or caller-built Values with spare capacity) with the whole sequence compared after every operation; distinct = hash of the operation sequence. setops/float: one case = 6 inputs over {NaN, 0, -0, 1, 2, +Inf, -1} (plain floats or {K float64, ID} structs), aliasing independent / s2==s1 / s2=s1[a:b], dst nil / fresh / s1[:0] / s2[:0]; distinct = hash of contents and aliasing. setops/big and big/bounds: one case = one input of 15..70001 ints; distinct = hash of lengths, alphabet, aliasing and the first 64 elements. setops/keep: one case = 6..14 calls on the same three buffers; distinct = hash of (buffer edit, function, dst layout, contents) per step. flex/window, flex/big, flex/sparearg, flex/types: as flex (hash of the operation sequence / of the arena layout; flex/types also of the element type).")
	r.Assume("the references (nested loops, written from the doc comments) are the definitions: Diff/Intersect/Filter keep the elements of s1 that are absent from / present in s2 / satisfy the predicate, Unique/UniqueByKey keep the first occurrence per value / key")
	r.Assume("results are compared by content: nil and empty are the same observation; capacities are read for coverage counters only")
	r.Assume("dst aliasing is exercised as the prefix [:0] (or [:k], [:0:0]) of an input; this includes dst = s2[:0] when s2 is itself a part of s1 that starts behind s1[0]")
	r.Assume("Chunk/ChunkProcess: a piece is non-empty; for a chunk size below 1 only 'concatenation = input' is demanded; an error returned by the callback ends the iteration and is returned")
	r.Assume("SubSlice/Copy clamping as documented: negative start counts as 0, negative or oversized end/length means 'to the end', an empty window is an empty result; for out-of-range Get/Remove/Pop/Shift only ok=false and an unchanged sequence are demanded")

	r.Assume("flex/selfarg: the value of a variadic argument is its content at the time of the call, also when the caller passes a sub-slice of the exported f.Values (as append and slices.Insert guarantee)")

	r.Assume("float elements: selection is by == (a NaN equals nothing, not even itself, so it is never 'present in s2' and never a repeated value or key; 0 == -0), which is also what a map keyed by the element gives; the selected elements are compared bit by bit")
	r.Assume("flex/sparearg: as flex/selfarg, for an argument that is a part of the caller-built array behind len(f.Values) but inside cap(f.Values) (append(s, s[:cap(s)][x:y]...) gives the same)")
	r.Assume("flex/window: assigning to the exported field Values (f.Values = f.Values[:k], = nil, = a new slice) starts a new sequence with that content")
	r.Assume("setops/keep: when dst is memory separate from s1 and s2 the dst-taking functions leave s1 and s2 as they were (only the InPlace variants are documented to reorder s1); s2 is never written by an InPlace variant when it is separate from s1; a result returned in memory of its own (dst nil or new) is not changed by later calls whose arguments are other memory")

	r.Cases("setops/rand", r.N(60000, 3000000), ev.Opt{HangViolation: true}, randSetCase)
	// the same workload on parallel workers under the race detector: package-level state shared
	// between instances that no goroutine shares is reported from the happens-before relation,
	// whether or not the accesses collide in this run (and however loaded the machine is)
	r.CasesProc("setops/rand/race-parallel", r.N(1200, 30000), ev.Opt{Bin: "race", Procs: 2, Workers: 8, AlwaysLog: true, HangViolation: true, MaxCaseSeconds: 120}, randSetCase)
	small := smallScope{sym: 3, len1: 5, len2: 3}
	if r.Thorough() {
		small = smallScope{sym: 4, len1: 6, len2: 3}
	}
	r.Cases("setops/small-int", small.total(), ev.Opt{HangViolation: true}, func(c *ev.Case) { smallRun(small, instInt, c) })
	r.Cases("setops/small-pair", small.total(), ev.Opt{HangViolation: true}, func(c *ev.Case) { smallRun(small, instPair, c) })
	r.Cases("bounds", r.N(60000, 1200000), ev.Opt{HangViolation: true}, boundsCase)
	r.Cases("flex/mix", r.N(50000, 3000000), ev.Opt{HangViolation: true}, flexMixCase)
	r.Cases("flex/threshold", r.N(40000, 800000), ev.Opt{HangViolation: true}, flexThresholdCase)
	r.Cases("flex/selfarg", r.N(10000, 200000), ev.Opt{HangViolation: true}, flexSelfArgCase)
	r.Cases("equal-nan", r.N(5000, 100000), ev.Opt{HangViolation: true}, equalNaNCase)
	r.Cases("flex/sparearg", r.N(10000, 200000), ev.Opt{HangViolation: true}, flexSpareArgCase)
	r.Cases("flex/window", r.N(30000, 600000), ev.Opt{HangViolation: true}, flexWindowCase)
	r.Cases("flex/big", r.N(160, 3200), ev.Opt{HangViolation: true}, flexBigCase)
	r.Cases("setops/float", r.N(20000, 400000), ev.Opt{HangViolation: true}, floatSetCase)
	r.Cases("setops/big", r.N(400, 8000), ev.Opt{HangViolation: true}, bigSetCase)
	r.Cases("big/bounds", r.N(300, 6000), ev.Opt{HangViolation: true}, boundsBigCase)
	r.Cases("setops/keep", r.N(20000, 300000), ev.Opt{HangViolation: true, Serial: true}, keepCase)
	r.Cases("flex/types", r.N(8000, 160000), ev.Opt{HangViolation: true}, flexTypedCase)
	// element types of size zero (all elements equal, address arithmetic divides by zero, lengths up to MaxInt cost no memory)
	r.Cases("zero-size", r.N(300, 6000), ev.Opt{HangViolation: true, MaxCaseSeconds: 60}, zeroSizeCase)
	r.Require("zero_size_setop_nonempty_inputs_dst_with_capacity", 2000)
	r.Require("zero_size_chunk_len_plus_size_overflows", 2000)
	r.Require("zero_size_window_calls", 100000)
	r.Require("zero_size_flex_ops", 10000)
	r.Require("zero_size_inplace_calls", 5000)
	r.Require("zero_size_remove_calls", 5000)
	r.Require("equal_nan_cases", 1000)
	r.Require("flex_selfarg_capacity_limited_arg", 500)
	r.Require("flex_sparearg_argument_straddles_len", 5000)

	// anti-vacuity floors (far below what a healthy run observes)
	for _, k := range []string{"calls/Diff", "calls/Intersect", "calls/Unique", "calls/DiffInPlaceFirst", "calls/IntersectInPlaceFirst", "calls/UniqueInPlace"} {
		r.Require(k, 50000)
	}
	r.Require("dst_layout/s1[:0]", 50000)
	r.Require("dst_is_prefix_of_s2_inside_s1", 300)
	r.Require("dst_layout/s2[:0]", 10000)
	r.Require("aliased_dst_nonempty_result", 50000)
	r.Require("inplace_argument_reordered", 20000)
	r.Require("inplace_proper_partition", 20000)
	r.Require("s1_with_duplicates", 20000)
	r.Require("small_scope_inputs", 20000)
	r.Require("setops_random_inputs", 200000)
	r.Require("calls/SubSlice", 100000)
	r.Require("calls/Copy", 100000)
	r.Require("copy_freshness_checked", 20000)
	r.Require("values_freshness_checked", 5000)
	r.Require("remove_out_of_range", 20000)
	r.Require("remove_middle", 20000)
	r.Require("chunk_exact_multiple", 5000)
	r.Require("chunk_short_last_piece", 5000)
	r.Require("chunk_size_below_1", 5000)
	r.Require("chunkprocess_error_before_last_piece", 2000)
	r.Require("equal_true", 10000)
	r.Require("equal_false", 10000)
	r.Require("flex_shrinks", 5000)
	r.Require("flex_shrink_exactly_at_quarter", 1000)
	r.Require("flex_prepend_within_capacity", 5000)
	r.Require("flex_prepend_overlapping_shift", 1000)
	r.Require("flex_prepend_realloc_double", 5000)
	r.Require("flex_prepend_realloc_exact", 1000)
	r.Require("flex_subslice_adopted", 1000)
	r.Require("flex_selfarg_prepend", 2000)
	r.Require("flex_selfarg_prepend_within_capacity_offset_arg", 1000)

	// situations added by the strengthening round (LESSONS classes 1, 2, 3, 4, 6, 7, 8, 11, 12)
	r.Require("flex_windows", 50000)
	r.Require("flex_window_ops_unobserved", 200000)
	r.Require("flex_windows_with_removals", 20000)
	r.Require("flex_window_insert_right_after_removal", 10000)
	for _, o := range flexObservers {
		r.Require("flex_window_first_observer/"+o, 5000)
	}
	r.Require("flex_reinit_cut_to_empty_keeping_capacity", 1000)
	r.Require("flex_reinit_new_values", 1000)
	r.Require("flex_subslice_extreme_args", 2000)
	r.Require("flex_subslice_minint_start_nonempty_window", 200)
	r.Require("flex_big_cases", 100)
	r.Require("flex_big_prepend_doubling_cap_ge_65536", 10)
	r.Require("flex_big_prepend_doubling_more_than_a_quarter", 5)
	r.Require("flex_big_prepend_in_place_shift_ge_4096", 10)
	r.Require("flex_big_shrinks_cap_ge_4096", 10)
	r.Require("flex_sparearg_prepend_within_capacity", 2000)
	r.Require("flex_sparearg_prepend_shift_runs_into_argument", 1000)
	r.Require("float_inputs", 50000)
	r.Require("float_s1_with_nan", 10000)
	r.Require("float_same_memory_with_nan", 3000)
	r.Require("float_s1_with_both_zeros", 3000)
	r.Require("float_nan_keys", 3000)
	r.Require("setops_big_inputs", 200)
	r.Require("setops_big_s1_ge_4096", 30)
	r.Require("setops_big_s1_ge_65536", 5)
	r.Require("setops_big_s2_ge_4096_longer_than_s1", 20)
	r.Require("setops_big_s2_ge_65536", 5)
	r.Require("setops_big_s1_tiny_s2", 3)
	r.Require("bounds_big_cases", 150)
	r.Require("bounds_big_len_ge_4096", 30)
	r.Require("bounds_big_equal_difference_in_last_3", 300)
	r.Require("bounds_big_chunk_ge_128_pieces", 100)
	r.Require("keep_calls", 100000)
	r.Require("keep_cases_with_operands_of_32_or_more", 300)
	r.Require("keep_inputs_checked_unmodified", 30000)
	r.Require("keep_inputs_unmodified_result_not_a_prefix", 3000)
	r.Require("keep_kept_results_rechecked", 10000)
	r.Require("keep_same_call_again_only_s2_content_changed", 3000)
	r.Require("keep_same_call_again_only_s1_content_changed", 3000)
	r.Require("keep_same_call_again_nothing_changed", 1000)

	// clause-coverage audit: every named function, argument class and layout that the
	// statement quantifies over has a floor of its own (far below a healthy run)
	for _, k := range []string{"calls/UniqueByKey", "calls/Filter", "calls/UniqueByKeyInPlace", "calls/FilterInPlace"} {
		r.Require(k, 50000)
	}
	for _, k := range []string{"Diff", "Intersect", "Unique", "UniqueByKey", "Filter"} {
		r.Require("aliased_dst_calls/"+k, 50000)
	}
	r.Require("dst_is_prefix_of_s2_calls/Diff", 10000)
	r.Require("dst_is_prefix_of_s2_calls/Intersect", 10000)
	for _, k := range []string{"nil", "empty-cap0", "fresh-spare-cap", "fresh-short-cap", "fresh-garbage-len", "s1[:k]", "s1[:0:0]", "s1[:0:c]"} {
		r.Require("dst_layout/"+k, 50000)
	}
	r.Require("aliased_dst_room_exhausted_midway", 20000)
	r.Require("dst_had_to_grow", 50000)
	for _, k := range aliasNames {
		r.Require("input_aliasing/"+k, 20000)
	}
	for _, k := range []string{"int", "string", "pair"} {
		r.Require("setops_inputs_of_element_type/"+k, 20000)
	}
	r.Require("s1_nil", 3000)
	r.Require("s1_empty", 10000)
	r.Require("s2_nil", 3000)
	r.Require("s2_empty", 10000)
	r.Require("result_empty", 200000)
	r.Require("result_all_of_s1", 200000)
	r.Require("result_proper_subsequence", 200000)
	r.Require("float_calls", 300000)
	r.Require("setops_big_calls", 3000)

	r.Require("calls/Remove", 100000)
	r.Require("calls/Chunk", 100000)
	r.Require("calls/ChunkProcess", 100000)
	r.Require("calls/Equal", 200000)
	r.Require("calls/Index+Contains", 300000)
	r.Require("calls/Values", 20000)
	r.Require("bounds_input_nil", 500)
	r.Require("bounds_input_empty", 500)
	r.Require("bounds_input_spare_capacity", 5000)
	for _, k := range []string{"subslice_start_negative", "subslice_start_beyond_len", "subslice_end_negative", "subslice_end_beyond_len", "subslice_inverted",
		"copy_start_negative", "copy_start_beyond", "copy_length_negative", "copy_length_clamped"} {
		r.Require(k, 300000)
	}
	r.Require("subslice_start_eq_len", 100000)
	r.Require("copy_length_zero", 100000)
	r.Require("remove_first", 10000)
	r.Require("remove_last", 10000)
	r.Require("index_found", 20000)
	r.Require("index_found_with_later_duplicate", 5000)
	r.Require("index_absent", 100000)
	r.Require("chunk_size_ge_len", 50000)
	r.Require("chunk_empty_input", 10000)
	r.Require("chunkprocess_error_stops", 100000)
	r.Require("equal_prefix_pairs", 10000)
	for _, k := range []string{"values_with_0_slices", "values_with_1_slices", "values_with_2_slices", "values_with_3_slices"} {
		r.Require(k, 2000)
	}
	r.Require("bounds_big_equal_calls", 2000)
	r.Require("bounds_big_remove_calls", 1000)
	r.Require("bounds_big_subslice_copy_calls", 2000)
	r.Require("bounds_big_chunk_calls", 1000)

	r.Require("flex_ops/Append", 200000)
	r.Require("flex_ops/Prepend", 200000)
	r.Require("flex_ops/Get", 200000)
	r.Require("flex_ops/Remove", 200000)
	r.Require("flex_ops/Pop", 500000)
	r.Require("flex_ops/Shift", 500000)
	r.Require("flex_ops/SubSlice", 100000)
	r.Require("flex_get_out_of_range", 20000)
	r.Require("flex_removal_out_of_range_or_empty", 100000)
	r.Require("flex_append_nothing", 20000)
	r.Require("flex_prepend_nothing", 20000)
	r.Require("flex_prepend_to_empty", 10000)
	r.Require("flex_append_reallocated", 50000)
	r.Require("flex_start_zero_value", 2000)
	r.Require("flex_start_preset_spare_capacity", 5000)
	r.Require("flex_subslice_shrunk_copy", 5000)
	r.Require("flex_prepend_fills_capacity_exactly", 5000)
	r.Require("flex_prepend_one_over_capacity", 5000)
	r.Require("flex_one_above_quarter_no_shrink", 20000)
	r.Require("flex_selfarg_append", 2000)
	for _, in := range []string{typedU16.name, typedStr.name, typedW3.name, typedRec.name} {
		r.Require("flex_typed_cases/"+in, 1000)
		r.Require("flex_typed_ops/"+in, 15000)
		r.Require("flex_typed_selfarg_prepend/"+in, 2500)
		r.Require("flex_typed_selfarg_prepend_within_capacity_offset_arg/"+in, 1000)
		r.Require("flex_typed_selfarg_prepend_within_capacity_arg_in_second_half/"+in, 500)
		r.Require("flex_typed_selfarg_append/"+in, 800)
		r.Require("flex_typed_prepend_within_capacity/"+in, 500)
		r.Require("flex_typed_prepend_reallocating/"+in, 300)
		r.Require("flex_typed_shrinks/"+in, 1000)
		r.Require("flex_typed_subslice_adopted/"+in, 300)
		r.Require("flex_typed_get_out_of_range/"+in, 300)
		r.Require("flex_typed_removal_out_of_range_or_empty/"+in, 2000)
	}
	r.Finish()
}
