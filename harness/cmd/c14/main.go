// C14 — slicez set operations, in-place variants and FlexSlice match their definitions.
//
// Reference-model monitor. Every slicez function is run on generated inputs and
// judged against a reference written from its doc comment with nested loops:
//
//	setops/rand        random (s1, s2) over tiny alphabets, input aliasing modes, two dst layouts per function
//	setops/small-*     every (s1, s2) over a 3-letter alphabet up to length 5 (thorough: 4 letters, length 6) x every dst layout
//	bounds             SubSlice/Copy/Remove/Index/Equal/Chunk/ChunkProcess/Values over every boundary argument
//	flex/mix           FlexSlice vs. plain-slice model, random grow/shrink phases
//	flex/threshold     scripted walk across every shrink threshold with Prepend bursts on the capacity boundaries
//	flex/selfarg       Append/Prepend whose argument is a sub-slice of the FlexSlice's own Values
package main

import "verif/ev"

func main() {
	r := ev.New("C14")
	r.Rule("setops/rand: one case = 10 inputs, setops/small-*: one case = 1 input; an input = (s1, s2) over an alphabet of 1..9 values (int, string or {key,id} pair elements; nil, empty, duplicates), an input aliasing mode (independent, s2==s1, s2=s1[a:b], s1=s2[a:b]), a key function and a predicate; all 5 functions with several dst layouts (nil, empty, spare/short capacity, non-empty garbage, s1[:0], s1[:k], s1[:0:0], s2[:0]) and the 5 in-place variants run on it; distinct = hash of (element type, contents, aliasing, key, predicate) of all inputs of the case, non-trivial = s1 has 2+ elements or s2 is non-empty. bounds: one case = one slice (nil/empty/1..33 elements, spare capacity holding poison) with every start/end/length/index in -3..len+3 plus MinInt/MaxInt and every chunk size in -2..len+3; distinct = hash of contents and layout. flex: one case = an operation sequence on a FlexSlice (zero value or caller-built Values with spare capacity) with the whole sequence compared after every operation; distinct = hash of the operation sequence.")
	r.Assume("the references (nested loops, written from the doc comments) are the definitions: Diff/Intersect/Filter keep the elements of s1 that are absent from / present in s2 / satisfy the predicate, Unique/UniqueByKey keep the first occurrence per value / key")
	r.Assume("results are compared by content: nil and empty are the same observation; capacities are read for coverage counters only")
	r.Assume("dst aliasing is exercised as the prefix [:0] (or [:k], [:0:0]) of an input; when s2 is itself a sub-slice of s1 starting behind s1[0], dst = s2[:0] is not used (a destination in the middle of the slice being read is not covered by the statement)")
	r.Assume("Chunk/ChunkProcess: a piece is non-empty; for a chunk size below 1 only 'concatenation = input' is demanded; an error returned by the callback ends the iteration and is returned")
	r.Assume("SubSlice/Copy clamping as documented: negative start counts as 0, negative or oversized end/length means 'to the end', an empty window is an empty result; for out-of-range Get/Remove/Pop/Shift only ok=false and an unchanged sequence are demanded")

	r.Assume("flex/selfarg: the value of a variadic argument is its content at the time of the call, also when the caller passes a sub-slice of the exported f.Values (as append and slices.Insert guarantee)")

	r.Cases("setops/rand", r.N(60000, 3000000), ev.Opt{HangViolation: true}, randSetCase)
	small := smallScope{sym: 3, len1: 5, len2: 3}
	if r.Thorough() {
		small = smallScope{sym: 4, len1: 6, len2: 3}
	}
	r.Cases("setops/small-int", small.total(), ev.Opt{HangViolation: true}, func(c *ev.Case) { smallRun(small, instInt, c) })
	r.Cases("setops/small-pair", small.total(), ev.Opt{HangViolation: true}, func(c *ev.Case) { smallRun(small, instPair, c) })
	r.Cases("bounds", r.N(60000, 1200000), ev.Opt{HangViolation: true}, boundsCase)
	r.Cases("flex/mix", r.N(50000, 3000000), ev.Opt{HangViolation: true}, flexMixCase)
	r.Cases("flex/threshold", r.N(40000, 800000), ev.Opt{HangViolation: true}, flexThresholdCase)
	r.Cases("flex/selfarg", r.N(10000, 200000), ev.Opt{HangViolation: true}, flexSelfArgCase)
	r.Cases("equal-nan", r.N(5000, 100000), ev.Opt{HangViolation: true}, equalNaNCase)
	r.Require("equal_nan_cases", 1000)
	r.Require("flex_selfarg_capacity_limited_arg", 500)

	// anti-vacuity floors (far below what a healthy run observes)
	for _, k := range []string{"calls/Diff", "calls/Intersect", "calls/Unique", "calls/DiffInPlaceFirst", "calls/IntersectInPlaceFirst", "calls/UniqueInPlace"} {
		r.Require(k, 50000)
	}
	r.Require("dst_layout/s1[:0]", 50000)
	r.Require("dst_layout/s2[:0]", 10000)
	r.Require("aliased_dst_nonempty_result", 50000)
	r.Require("inplace_argument_reordered", 20000)
	r.Require("inplace_proper_partition", 20000)
	r.Require("s1_with_duplicates", 20000)
	r.Require("small_scope_inputs", 20000)
	r.Require("setops_random_inputs", 200000)
	r.Require("calls/SubSlice", 100000)
	r.Require("calls/Copy", 100000)
	r.Require("copy_freshness_checked", 20000)
	r.Require("values_freshness_checked", 5000)
	r.Require("remove_out_of_range", 20000)
	r.Require("remove_middle", 20000)
	r.Require("chunk_exact_multiple", 5000)
	r.Require("chunk_short_last_piece", 5000)
	r.Require("chunk_size_below_1", 5000)
	r.Require("chunkprocess_error_before_last_piece", 2000)
	r.Require("equal_true", 10000)
	r.Require("equal_false", 10000)
	r.Require("flex_shrinks", 5000)
	r.Require("flex_shrink_exactly_at_quarter", 1000)
	r.Require("flex_prepend_within_capacity", 5000)
	r.Require("flex_prepend_overlapping_shift", 1000)
	r.Require("flex_prepend_realloc_double", 5000)
	r.Require("flex_prepend_realloc_exact", 1000)
	r.Require("flex_subslice_adopted", 1000)
	r.Require("flex_selfarg_prepend", 2000)
	r.Require("flex_selfarg_prepend_within_capacity_offset_arg", 1000)
	r.Finish()
}
