package main

import (
	"fmt"

	"github.com/welllog/golib/slicez"

	"verif/ev"
)

// ---- input aliasing modes and dst layouts ----

const (
	aliasNone   = iota // s1 and s2 are separate memory
	aliasSame          // s2 is s1
	aliasS2inS1        // s2 = s1[a:b]
	aliasS1inS2        // s1 = s2[a:b]
	nAlias
)

var aliasNames = [...]string{"independent", "s2==s1", "s2=s1[a:b]", "s1=s2[a:b]"}

type lay int

const (
	layNil     lay = iota // dst = nil
	layEmpty              // dst = make([]T, 0)
	laySpare              // fresh, len 0, capacity >= len(s1)
	layShort              // fresh, len 0, capacity 1..2 (must grow)
	layGarbage            // fresh, len > 0 holding poison (dst[:0] must reset it)
	layS1                 // dst = s1[:0]
	layS1k                // dst = s1[:k], k > 0 (same memory, non-zero length)
	layS1zc               // dst = s1[:0:0] (aliases s1 but has no room)
	layS1c                // dst = s1[:0:c], 0 < c < len(s1): the prefix of s1 with room for only a part of the result
	layS2                 // dst = s2[:0]
	nLay
)

var layNames = [...]string{"nil", "empty-cap0", "fresh-spare-cap", "fresh-short-cap", "fresh-garbage-len", "s1[:0]", "s1[:k]", "s1[:0:0]", "s1[:0:c]", "s2[:0]"}

// function ids (indices of the per-function call counters)
const (
	opDiff = iota
	opIntersect
	opUnique
	opUniqueByKey
	opFilter
	opDiffIn
	opIntersectIn
	opUniqueIn
	opUniqueByKeyIn
	opFilterIn
	nOps
)

var opNames = [...]string{"Diff", "Intersect", "Unique", "UniqueByKey", "Filter",
	"DiffInPlaceFirst", "IntersectInPlaceFirst", "UniqueInPlace", "UniqueByKeyInPlace", "FilterInPlace"}

// coverage counters are accumulated in arrays and flushed once per case
const (
	cResultEmpty = iota
	cResultAll
	cResultProper
	cAliasedNonEmpty
	cDstGrew
	cReordered
	cProperPartition
	cS1Nil
	cS1Empty
	cS2Nil
	cS2Empty
	cDup
	cRandInputs
	cSmallInputs
	cAliasedRoomExhausted
	nMisc
)

var miscNames = [...]string{"result_empty", "result_all_of_s1", "result_proper_subsequence", "aliased_dst_nonempty_result",
	"dst_had_to_grow", "inplace_argument_reordered", "inplace_proper_partition", "s1_nil", "s1_empty", "s2_nil", "s2_empty",
	"s1_with_duplicates", "setops_random_inputs", "small_scope_inputs", "aliased_dst_room_exhausted_midway"}

type setAcc struct {
	calls [nOps]int64
	aop   [5]int64 // dst-taking function called with a destination that is the prefix of an input
	a2op  [5]int64 // ... the prefix of s2
	lays  [nLay]int64
	alias [nAlias]int64
	misc  [nMisc]int64
}

func (a *setAcc) flush(c *ev.Case) {
	for i, v := range a.calls {
		if v != 0 {
			c.Add("calls/"+opNames[i], v)
		}
	}
	for i, v := range a.aop {
		if v != 0 {
			c.Add("aliased_dst_calls/"+opNames[i], v)
		}
	}
	for i, v := range a.a2op {
		if v != 0 {
			c.Add("dst_is_prefix_of_s2_calls/"+opNames[i], v)
		}
	}
	for i, v := range a.lays {
		if v != 0 {
			c.Add("dst_layout/"+layNames[i], v)
		}
	}
	for i, v := range a.alias {
		if v != 0 {
			c.Add("input_aliasing/"+aliasNames[i], v)
		}
	}
	for i, v := range a.misc {
		if v != 0 {
			c.Add(miscNames[i], v)
		}
	}
}

// setInst is one instantiation of the generic functions under test.
type setInst[T comparable] struct {
	name      string
	conv      func(v, pos int) T
	poison    T
	keys      []func(T) int
	keyNames  []string
	preds     []func(T) bool
	predNames []string
}

type pair [2]int // {key, id}

var instInt = &setInst[int]{
	name:   "int",
	conv:   func(v, _ int) int { return v },
	poison: poisonInt,
	keys: []func(int) int{
		func(v int) int { return v % 2 },
		func(v int) int { return v },
		func(v int) int { return 0 },
		func(v int) int { return v / 2 },
	},
	keyNames: []string{"v%2", "v", "const", "v/2"},
	preds: []func(int) bool{
		func(v int) bool { return v%2 == 0 },
		func(v int) bool { return v < 2 },
		func(v int) bool { return true },
		func(v int) bool { return false },
		func(v int) bool { return v != 0 },
	},
	predNames: []string{"even", "<2", "true", "false", "!=0"},
}

var strTable = [...]string{"", "a", "ab", "b", "a\x00", "世", "abc", "B", "ba"}

var instStr = &setInst[string]{
	name:   "string",
	conv:   func(v, _ int) string { return strTable[v%len(strTable)] },
	poison: "\xffPOISON",
	keys: []func(string) int{
		func(s string) int { return len(s) },
		func(s string) int {
			if s == "" {
				return -1
			}
			return int(s[0])
		},
		func(s string) int { return 7 },
	},
	keyNames: []string{"len", "first-byte", "const"},
	preds: []func(string) bool{
		func(s string) bool { return len(s)%2 == 0 },
		func(s string) bool { return s != "" && s[0] == 'a' },
		func(s string) bool { return true },
		func(s string) bool { return false },
	},
	predNames: []string{"even-len", "starts-a", "true", "false"},
}

var instPair = &setInst[pair]{
	name:   "pair",
	conv:   func(v, pos int) pair { return pair{v, pos % 2} },
	poison: pair{-7, -7},
	keys: []func(pair) int{
		func(p pair) int { return p[0] },
		func(p pair) int { return p[1] },
		func(p pair) int { return p[0]*10 + p[1] },
		func(p pair) int { return (p[0] + p[1]) % 2 },
	},
	keyNames: []string{"p[0]", "p[1]", "both", "(p0+p1)%2"},
	preds: []func(pair) bool{
		func(p pair) bool { return p[0]%2 == 0 },
		func(p pair) bool { return p[1] == 0 },
		func(p pair) bool { return true },
		func(p pair) bool { return false },
	},
	predNames: []string{"p0-even", "p1==0", "true", "false"},
}

// setCase is one (s1, s2, aliasing mode) input on which all ten functions are run.
type setCase[T comparable] struct {
	c        *ev.Case
	acc      *setAcc
	in       *setInst[T]
	v1, v2   []T // original contents; never handed to golib
	nil1     bool
	nil2     bool
	mode     int
	a, b     int
	sp1, sp2 int
	off1     int
	off2     int
	key      func(T) int
	pred     func(T) bool
	keyName  string
	predName string
}

// build returns fresh live slices with the case's content and aliasing.
func (k *setCase[T]) build() (s1, s2 []T) {
	switch k.mode {
	case aliasSame:
		s1 = mkLive(k.v1, k.sp1, k.off1, k.in.poison, k.nil1)
		s2 = s1
	case aliasS2inS1:
		s1 = mkLive(k.v1, k.sp1, k.off1, k.in.poison, false)
		s2 = s1[k.a:k.b]
	case aliasS1inS2:
		s2 = mkLive(k.v2, k.sp2, k.off2, k.in.poison, false)
		s1 = s2[k.a:k.b]
	default:
		s1 = mkLive(k.v1, k.sp1, k.off1, k.in.poison, k.nil1)
		s2 = mkLive(k.v2, k.sp2, k.off2, k.in.poison, k.nil2)
	}
	return
}

// dst builds the destination for layout l. dst = s2[:0] is replaced by s1[:0]
// for one-operand functions.
func (k *setCase[T]) dst(l lay, s1, s2 []T, single bool) ([]T, lay) {
	rng := k.c.Rng
	if l == layS2 && single {
		l = layS1
	}
	if l == layS2 && k.mode == aliasS2inS1 && k.a > 0 {
		// s2 is a part of s1 that starts behind s1[0]: dst = s2[:0] is still "the prefix
		// s[:0] of an input"; the write cursor starts ahead of the read cursor
		k.c.Add("dst_is_prefix_of_s2_inside_s1", 1)
	}
	switch l {
	case layNil:
		return nil, l
	case layEmpty:
		return make([]T, 0), l
	case laySpare:
		return make([]T, 0, len(s1)+rng.Intn(4)), l
	case layShort:
		return make([]T, 0, 1+rng.Intn(2)), l
	case layGarbage:
		n := 1 + rng.Intn(len(s1)+3)
		g := make([]T, n, n+rng.Intn(3))
		for i := range g {
			g[i] = k.in.poison
		}
		return g, l
	case layS1:
		return s1[:0], l
	case layS1k:
		if len(s1) == 0 {
			return s1[:0], l
		}
		return s1[:1+rng.Intn(len(s1))], l
	case layS1zc:
		return s1[:0:0], l
	case layS1c:
		if len(s1) < 2 {
			return s1[:0:len(s1)], l
		}
		return s1[: 0 : 1+rng.Intn(len(s1)-1)], l
	default:
		return s2[:0], layS2
	}
}

func (k *setCase[T]) ctx() string {
	return fmt.Sprintf("T=%s s1=%s s2=%s inputs:%s", k.in.name, show(k.v1), show(k.v2), aliasNames[k.mode])
}

// out judges a dst-taking function: exactly the reference sequence.
func (k *setCase[T]) out(op int, param string, l lay, got, want, d []T) bool {
	c := k.c
	if c.Logging() {
		c.Logf("%s%s(dst=%s, %s) -> %s", opNames[op], param, layNames[l], k.ctx(), show(got))
	}
	k.acc.calls[op]++
	k.acc.lays[l]++
	if !eqSeq(got, want) {
		c.Failf("result/"+opNames[op], "%s%s with dst=%s, %s: got %v, definition gives %v", opNames[op], param, layNames[l], k.ctx(), got, want)
		return false
	}
	switch {
	case len(want) == 0:
		k.acc.misc[cResultEmpty]++
	case len(want) == len(k.v1):
		k.acc.misc[cResultAll]++
	default:
		k.acc.misc[cResultProper]++
	}
	if l >= layS1 && len(want) > 0 {
		k.acc.misc[cAliasedNonEmpty]++
	}
	if l >= layS1 && l != layS1zc && len(k.v1) > 0 {
		k.acc.aop[op]++
		if l == layS2 {
			k.acc.a2op[op]++
		}
	}
	if l == layS1c && cap(d) > 0 && len(want) > cap(d) {
		k.acc.misc[cAliasedRoomExhausted]++
	}
	if len(got) > 0 && cap(d) > 0 && &got[0] != &d[:1][0] {
		k.acc.misc[cDstGrew]++
	}
	return true
}

// inpl judges an in-place variant: same multiset as the reference result, and
// the argument slice is still a permutation of what it held.
func (k *setCase[T]) inpl(op int, param string, got, want, arg []T) bool {
	c := k.c
	if c.Logging() {
		c.Logf("%s%s(%s) -> %s ; argument afterwards %s", opNames[op], param, k.ctx(), show(got), show(arg))
	}
	k.acc.calls[op]++
	if !sameMultiset(got, want) {
		c.Failf("result/"+opNames[op], "%s%s(%s): got %v, definition selects the multiset %v", opNames[op], param, k.ctx(), got, want)
		return false
	}
	if !sameMultiset(arg, k.v1) {
		c.Failf("argperm/"+opNames[op], "%s%s(%s): argument slice afterwards is %v, not a permutation of its original content %v", opNames[op], param, k.ctx(), arg, k.v1)
		return false
	}
	if !eqSeq(arg, k.v1) {
		k.acc.misc[cReordered]++
	}
	if len(want) > 0 && len(want) < len(k.v1) {
		k.acc.misc[cProperPartition]++
	}
	return true
}

// runAll runs the ten functions; pick chooses the dst layout(s) per function.
func (k *setCase[T]) runAll(lays func() []lay) bool {
	c := k.c
	for _, l := range lays() {
		s1, s2 := k.build()
		d, ll := k.dst(l, s1, s2, false)
		var got []T
		if !c.Guard("Diff", func() { got = slicez.Diff(d, s1, s2) }) {
			return false
		}
		if !k.out(opDiff, "", ll, got, refDiff(k.v1, k.v2), d) {
			return false
		}
	}
	for _, l := range lays() {
		s1, s2 := k.build()
		d, ll := k.dst(l, s1, s2, false)
		var got []T
		if !c.Guard("Intersect", func() { got = slicez.Intersect(d, s1, s2) }) {
			return false
		}
		if !k.out(opIntersect, "", ll, got, refIntersect(k.v1, k.v2), d) {
			return false
		}
	}
	for _, l := range lays() {
		s1, s2 := k.build()
		d, ll := k.dst(l, s1, s2, true)
		var got []T
		if !c.Guard("Unique", func() { got = slicez.Unique(d, s1) }) {
			return false
		}
		if !k.out(opUnique, "", ll, got, refUnique(k.v1), d) {
			return false
		}
	}
	for _, l := range lays() {
		s1, s2 := k.build()
		d, ll := k.dst(l, s1, s2, true)
		var got []T
		if !c.Guard("UniqueByKey", func() { got = slicez.UniqueByKey(d, s1, k.key) }) {
			return false
		}
		if !k.out(opUniqueByKey, k.keyName, ll, got, refUniqueByKey(k.v1, k.key), d) {
			return false
		}
	}
	for _, l := range lays() {
		s1, s2 := k.build()
		d, ll := k.dst(l, s1, s2, true)
		var got []T
		if !c.Guard("Filter", func() { got = slicez.Filter(d, s1, k.pred) }) {
			return false
		}
		if !k.out(opFilter, k.predName, ll, got, refFilter(k.v1, k.pred), d) {
			return false
		}
	}
	// in-place variants
	{
		s1, s2 := k.build()
		var got []T
		if !c.Guard("DiffInPlaceFirst", func() { got = slicez.DiffInPlaceFirst(s1, s2) }) {
			return false
		}
		if !k.inpl(opDiffIn, "", got, refDiff(k.v1, k.v2), s1) {
			return false
		}
	}
	{
		s1, s2 := k.build()
		var got []T
		if !c.Guard("IntersectInPlaceFirst", func() { got = slicez.IntersectInPlaceFirst(s1, s2) }) {
			return false
		}
		if !k.inpl(opIntersectIn, "", got, refIntersect(k.v1, k.v2), s1) {
			return false
		}
	}
	{
		s1, _ := k.build()
		var got []T
		if !c.Guard("UniqueInPlace", func() { got = slicez.UniqueInPlace(s1) }) {
			return false
		}
		if !k.inpl(opUniqueIn, "", got, refUnique(k.v1), s1) {
			return false
		}
	}
	{
		s1, _ := k.build()
		var got []T
		if !c.Guard("UniqueByKeyInPlace", func() { got = slicez.UniqueByKeyInPlace(s1, k.key) }) {
			return false
		}
		if !k.inpl(opUniqueByKeyIn, k.keyName, got, refUniqueByKey(k.v1, k.key), s1) {
			return false
		}
	}
	{
		s1, _ := k.build()
		var got []T
		if !c.Guard("FilterInPlace", func() { got = slicez.FilterInPlace(s1, k.pred) }) {
			return false
		}
		if !k.inpl(opFilterIn, k.predName, got, refFilter(k.v1, k.pred), s1) {
			return false
		}
	}
	return true
}

func (k *setCase[T]) classify(code1, code2 []int) {
	c := k.c
	k.acc.alias[k.mode]++
	switch {
	case len(k.v1) == 0 && k.nil1 && k.mode != aliasS2inS1 && k.mode != aliasS1inS2:
		k.acc.misc[cS1Nil]++
	case len(k.v1) == 0:
		k.acc.misc[cS1Empty]++
	}
	switch {
	case len(k.v2) == 0 && k.nil2 && k.mode == aliasNone:
		k.acc.misc[cS2Nil]++
	case len(k.v2) == 0:
		k.acc.misc[cS2Empty]++
	}
	if len(refUnique(k.v1)) < len(k.v1) {
		k.acc.misc[cDup]++
	}
	c.Add("setops_inputs_of_element_type/"+k.in.name, 1)
	if len(k.v1) > 1 || len(k.v2) > 0 {
		h := hashInts(hashInts(ev.HashString(k.in.name+k.keyName+k.predName), code1), code2)
		c.Distinct(ev.Mix(h, uint64(k.mode), uint64(k.a), uint64(k.b)))
	}
}

// fill converts integer codes into the element type.
func fill[T comparable](in *setInst[T], codes []int) []T {
	out := make([]T, len(codes))
	for i, v := range codes {
		out[i] = in.conv(v, i)
	}
	return out
}

func genCodes(rng *ev.Rand, vr int) []int {
	var n int
	switch rng.Intn(10) {
	case 0:
		n = 0
	case 1:
		n = 1
	case 2:
		n = rng.Range(13, 40)
	default:
		n = rng.Range(2, 12)
	}
	out := make([]int, n)
	for i := range out {
		out[i] = rng.Intn(vr)
	}
	return out
}

// randSet: one random (s1, s2, aliasing) input; every function once with a
// random dst layout, plus the two layouts the statement names explicitly.
func randSet[T comparable](c *ev.Case, acc *setAcc, in *setInst[T], sample bool) bool {
	rng := c.Rng
	vr := rng.Pick(1, 2, 3, 5, 5, 9)
	k := &setCase[T]{c: c, acc: acc, in: in}
	code1 := genCodes(rng, vr)
	code2 := genCodes(rng, vr)
	k.mode = rng.Pick(aliasNone, aliasNone, aliasNone, aliasSame, aliasS2inS1, aliasS1inS2)
	k.nil1, k.nil2 = rng.Bool(), rng.Bool()
	k.sp1, k.sp2 = rng.Pick(0, 0, 1, 4), rng.Pick(0, 0, 1, 4)
	k.off1, k.off2 = rng.Pick(0, 0, 2), rng.Pick(0, 0, 3)
	switch k.mode {
	case aliasSame:
		code2 = code1
	case aliasS2inS1:
		k.a = rng.Intn(len(code1) + 1)
		k.b = rng.Range(k.a, len(code1))
		code2 = code1[k.a:k.b]
	case aliasS1inS2:
		k.a = rng.Intn(len(code2) + 1)
		k.b = rng.Range(k.a, len(code2))
		code1 = code2[k.a:k.b]
	}
	k.v1 = fill(in, code1)
	k.v2 = fill(in, code2)
	if k.mode == aliasS2inS1 {
		k.v2 = clone(k.v1[k.a:k.b])
	} else if k.mode == aliasS1inS2 {
		k.v1 = clone(k.v2[k.a:k.b])
	} else if k.mode == aliasSame {
		k.v2 = clone(k.v1)
	}
	ki := rng.Intn(len(in.keys))
	pi := rng.Intn(len(in.preds))
	k.key, k.keyName = in.keys[ki], "["+in.keyNames[ki]+"]"
	k.pred, k.predName = in.preds[pi], "["+in.predNames[pi]+"]"
	k.classify(code1, code2)
	lays := func() []lay {
		return []lay{lay(rng.Intn(int(nLay))), lay(rng.Pick(int(layS1), int(layS1), int(layS2), int(layS1k), int(layS1c)))}
	}
	if !k.runAll(lays) {
		return false
	}
	acc.misc[cRandInputs]++
	if sample && c.WantSample() {
		c.Sample(fmt.Sprintf("%s key=%s pred=%s: Diff=%v Intersect=%v Unique=%v (10 functions, 2 dst layouts each)", k.ctx(), k.keyName, k.predName,
			refDiff(k.v1, k.v2), refIntersect(k.v1, k.v2), refUnique(k.v1)))
	}
	return true
}

// randBatch inputs per case (one evidence/bookkeeping round trip per batch).
const randBatch = 10

func randSetCase(c *ev.Case) {
	var acc setAcc
	defer acc.flush(c)
	for j := 0; j < randBatch; j++ {
		ok := false
		switch (c.Index + j) % 4 {
		case 0, 1:
			ok = randSet(c, &acc, instInt, j == 0)
		case 2:
			ok = randSet(c, &acc, instPair, j == 0)
		default:
			ok = randSet(c, &acc, instStr, j == 0)
		}
		if !ok {
			return
		}
	}
}

// ---- small-scope exhaustive engine ----

// seqCount(sym, maxLen) = number of sequences over sym symbols of length 0..maxLen.
func seqCount(sym, maxLen int) int {
	n, p := 0, 1
	for l := 0; l <= maxLen; l++ {
		n += p
		p *= sym
	}
	return n
}

// decodeSeq maps 0..seqCount-1 onto the sequences in length-then-lexicographic order.
func decodeSeq(code, sym int) []int {
	l, p := 0, 1
	for code >= p {
		code -= p
		p *= sym
		l++
	}
	out := make([]int, l)
	for i := l - 1; i >= 0; i-- {
		out[i] = code % sym
		code /= sym
	}
	return out
}

type smallScope struct {
	sym, len1, len2 int
}

func (s smallScope) pairs() int  { return seqCount(s.sym, s.len1) * seqCount(s.sym, s.len2) }
func (s smallScope) ranges() int { return (s.len1 + 1) * (s.len1 + 2) / 2 }
func (s smallScope) total() int  { return s.pairs() + seqCount(s.sym, s.len1)*s.ranges() }

// smallSetCase: index -> (s1, s2) over a tiny alphabet, every dst layout for
// every function. The first block enumerates all independent pairs, the second
// all (s1, a, b) with s2 = s1[a:b] (a = 0, b = len gives s2 == s1).
func smallRun[T comparable](s smallScope, in *setInst[T], c *ev.Case) {
	rng := c.Rng
	var acc setAcc
	defer acc.flush(c)
	k := &setCase[T]{c: c, acc: &acc, in: in}
	idx := c.Index
	var code1, code2 []int
	if idx < s.pairs() {
		n2 := seqCount(s.sym, s.len2)
		code1 = decodeSeq(idx/n2, s.sym)
		code2 = decodeSeq(idx%n2, s.sym)
		k.mode = aliasNone
	} else {
		idx -= s.pairs()
		code1 = decodeSeq(idx/s.ranges(), s.sym)
		r := idx % s.ranges()
		a, b := 0, 0
	find:
		for a = 0; a <= s.len1; a++ {
			for b = a; b <= s.len1; b++ {
				if r == 0 {
					break find
				}
				r--
			}
		}
		if a > len(code1) {
			a = len(code1)
		}
		if b > len(code1) {
			b = len(code1)
		}
		k.a, k.b = a, b
		code2 = code1[a:b]
		k.mode = aliasS2inS1
		if a == 0 && b == len(code1) {
			k.mode = aliasSame
		}
	}
	k.nil1, k.nil2 = rng.Bool(), rng.Bool()
	k.sp1, k.sp2 = rng.Pick(0, 0, 1, 4), rng.Pick(0, 0, 1, 4)
	k.off1, k.off2 = rng.Pick(0, 0, 2), rng.Pick(0, 0, 3)
	// pair element = {symbol, position%2}: equal symbols at different positions are
	// distinguishable, so "first occurrence" is observable for the keyed functions
	k.v1 = fill(in, code1)
	k.v2 = fill(in, code2)
	if k.mode != aliasNone {
		k.v2 = clone(k.v1[k.a:k.b])
		if k.mode == aliasSame {
			k.v2 = clone(k.v1)
		}
	}
	ki := rng.Intn(len(in.keys))
	pi := rng.Intn(len(in.preds))
	k.key, k.keyName = in.keys[ki], "["+in.keyNames[ki]+"]"
	k.pred, k.predName = in.preds[pi], "["+in.predNames[pi]+"]"
	k.classify(code1, code2)
	all := make([]lay, nLay)
	for i := range all {
		all[i] = lay(i)
	}
	if !k.runAll(func() []lay { return all }) {
		return
	}
	acc.misc[cSmallInputs]++
	if c.WantSample() {
		c.Sample(fmt.Sprintf("small scope #%d: %s, all %d dst layouts x 5 functions + 5 in-place variants", c.Index, k.ctx(), int(nLay)))
	}
}
