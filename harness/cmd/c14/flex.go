package main

import (
	"fmt"
	"math"

	"github.com/welllog/golib/slicez"

	"verif/ev"
)

// flexSut drives a FlexSlice[int] and a plain-slice model in lock-step. Every
// element ever inserted is a fresh number, so any misplaced, lost or duplicated
// element is visible. cap(f.Values) is read for coverage counters only.
type flexSut struct {
	c    *ev.Case
	f    slicez.FlexSlice[int]
	m    []int
	next int
	hash uint64
	ops  int

	maxLen, maxCap int

	// blind: inside an unobserved-operation window verify makes no observing
	// call at all (the results of the mutators themselves are still compared).
	// valuesFirst: the next verify reads the exported Values before it calls Len.
	blind       bool
	valuesFirst bool
}

func (s *flexSut) note(op byte, a, b int) {
	s.hash = ev.Mix(s.hash, uint64(op), uint64(a+7), uint64(b+7))
	s.ops++
}

func (s *flexSut) freshVals(k int) []int {
	out := make([]int, k)
	for i := range out {
		s.next++
		out[i] = s.next
	}
	return out
}

// preset starts from a caller-built Values slice: n elements, capacity cp, the
// spare capacity filled with poison.
func (s *flexSut) preset(n, cp int) {
	if cp < n {
		cp = n
	}
	base := make([]int, cp)
	for i := range base {
		base[i] = poisonInt
	}
	vals := s.freshVals(n)
	copy(base, vals)
	s.f.Values = base[:n]
	s.m = clone(vals)
	if s.c.Logging() {
		s.c.Logf("start: FlexSlice{Values: %d elements, cap %d}", n, cp)
	}
}

// verify compares the whole sequence (Values and Len) with the model.
func (s *flexSut) verify(op string, info ...int) bool {
	c := s.c
	if s.blind {
		return true
	}
	var n int
	vals := s.f.Values
	if !c.Guard("Len", func() { n = s.f.Len() }) {
		return false
	}
	note := ""
	if s.valuesFirst {
		s.valuesFirst = false
		note = " (Values read before any method call)"
	} else {
		vals = s.f.Values
	}
	bad := -1
	if n != len(s.m) || len(vals) != len(s.m) {
		bad = len(s.m)
	} else {
		for i := range vals {
			if vals[i] != s.m[i] {
				bad = i
				break
			}
		}
	}
	if bad >= 0 {
		sig := "flex-seq/" + op
		if len(info) == 3 {
			op = fmt.Sprintf("%s(%d values) on len %d cap %d", op, info[0], info[1], info[2])
		}
		op += note
		if n != len(s.m) || len(vals) != len(s.m) {
			c.Failf(sig, "after %s: Len() = %d, len(Values) = %d, sequence model has %d elements (Values %s, model %s)", op, n, len(vals), len(s.m), abbr(vals), abbr(s.m))
		} else {
			c.Failf(sig, "after %s: Values[%d] = %d, sequence model has %d (Values %s, model %s)", op, bad, vals[bad], s.m[bad], abbr(vals), abbr(s.m))
		}
		return false
	}
	if len(s.m) > s.maxLen {
		s.maxLen = len(s.m)
		c.Max("flex_max_len", int64(len(s.m)))
	}
	if cap(vals) > s.maxCap {
		s.maxCap = cap(vals)
		c.Max("flex_max_cap", int64(cap(vals)))
	}
	return true
}

func (s *flexSut) doAppend(k int) bool {
	c := s.c
	s.note('a', k, 0)
	vs := s.freshVals(k)
	capBefore := cap(s.f.Values)
	arg := clone(vs)
	if !c.Guard("Append", func() { s.f.Append(arg...) }) {
		return false
	}
	for i := range arg {
		arg[i] = -8888 - i
	}
	s.m = append(s.m, vs...)
	if c.Logging() {
		c.Logf("Append(%s) -> len %d cap %d", abbr(vs), len(s.f.Values), cap(s.f.Values))
	}
	c.Add("flex_ops/Append", 1)
	if k == 0 {
		c.Add("flex_append_nothing", 1)
	}
	if cap(s.f.Values) != capBefore {
		c.Add("flex_append_reallocated", 1)
	}
	return s.verify("Append", k, len(s.m)-k, capBefore)
}

func (s *flexSut) doPrepend(k int) bool {
	c := s.c
	s.note('p', k, 0)
	vs := s.freshVals(k)
	cp, n2 := cap(s.f.Values), len(s.f.Values)
	arg := clone(vs)
	if !c.Guard("Prepend", func() { s.f.Prepend(arg...) }) {
		return false
	}
	// the caller goes on using its own slice: the FlexSlice must hold copies
	for i := range arg {
		arg[i] = -7777 - i
	}
	s.m = append(clone(vs), s.m...)
	if c.Logging() {
		c.Logf("Prepend(%s) on len %d cap %d -> len %d cap %d", abbr(vs), n2, cp, len(s.f.Values), cap(s.f.Values))
	}
	c.Add("flex_ops/Prepend", 1)
	nc := k + n2
	switch {
	case k == 0:
		c.Add("flex_prepend_nothing", 1)
	case cp >= nc:
		c.Add("flex_prepend_within_capacity", 1)
		if cp == nc {
			c.Add("flex_prepend_fills_capacity_exactly", 1)
		}
		if n2 > k {
			c.Add("flex_prepend_overlapping_shift", 1)
		}
	case 2*cp >= nc:
		c.Add("flex_prepend_realloc_double", 1)
		if cp+1 == nc {
			c.Add("flex_prepend_one_over_capacity", 1)
		}
	default:
		c.Add("flex_prepend_realloc_exact", 1)
	}
	if n2 == 0 {
		c.Add("flex_prepend_to_empty", 1)
	}
	return s.verify("Prepend", k, n2, cp)
}

func (s *flexSut) doGet(i int) bool {
	c := s.c
	var v int
	var ok bool
	if !c.Guard("Get", func() { v, ok = s.f.Get(i) }) {
		return false
	}
	if c.Logging() {
		c.Logf("Get(%d) -> %d, %v", i, v, ok)
	}
	c.Add("flex_ops/Get", 1)
	if i >= 0 && i < len(s.m) {
		if !ok || v != s.m[i] {
			c.Failf("flex-get", "Get(%d) = (%d, %v) on a sequence of %d elements whose element %d is %d", i, v, ok, len(s.m), i, s.m[i])
			return false
		}
	} else {
		if ok {
			c.Failf("flex-get", "Get(%d) = (%d, true) on a sequence of %d elements", i, v, len(s.m))
			return false
		}
		c.Add("flex_get_out_of_range", 1)
	}
	return true
}

// removal judges Remove(i), Pop() and Shift() (i is the index the model removes).
func (s *flexSut) removal(name, key string, i int, call func() (int, bool)) bool {
	c := s.c
	capBefore, lenBefore := cap(s.f.Values), len(s.f.Values)
	var v int
	var ok bool
	if !c.Guard(name, func() { v, ok = call() }) {
		return false
	}
	if c.Logging() {
		c.Logf("%s -> %d, %v ; len %d cap %d -> len %d cap %d", name, v, ok, lenBefore, capBefore, len(s.f.Values), cap(s.f.Values))
	}
	c.Add(key, 1)
	if i >= 0 && i < len(s.m) {
		want := s.m[i]
		if !ok || v != want {
			c.Failf("flex-remove/"+name, "%s (index %d of %d) = (%d, %v), the sequence model removes %d", name, i, len(s.m), v, ok, want)
			return false
		}
		if i == 0 {
			s.m = s.m[1:]
		} else {
			copy(s.m[i:], s.m[i+1:])
			s.m = s.m[:len(s.m)-1]
		}
		if cap(s.f.Values) < capBefore {
			c.Add("flex_shrinks", 1)
			if cap(s.f.Values) == 8 {
				c.Add("flex_shrinks_to_min_cap_8", 1)
			}
			if len(s.f.Values) == capBefore/4 {
				c.Add("flex_shrink_exactly_at_quarter", 1)
			}
		} else if capBefore > 8 && len(s.f.Values) == capBefore/4+1 {
			c.Add("flex_one_above_quarter_no_shrink", 1)
		}
	} else {
		if ok {
			c.Failf("flex-remove/"+name, "%s (index %d) = (%d, true) on a sequence of %d elements", name, i, v, len(s.m))
			return false
		}
		c.Add("flex_removal_out_of_range_or_empty", 1)
	}
	return s.verify(name)
}

func (s *flexSut) doRemove(i int) bool {
	s.note('r', i, 0)
	return s.removal("Remove", "flex_ops/Remove", i, func() (int, bool) { return s.f.Remove(i) })
}

func (s *flexSut) doPop() bool {
	s.note('o', 0, 0)
	return s.removal("Pop", "flex_ops/Pop", len(s.m)-1, func() (int, bool) { return s.f.Pop() })
}

func (s *flexSut) doShift() bool {
	s.note('s', 0, 0)
	i := 0
	if len(s.m) == 0 {
		i = -1
	}
	return s.removal("Shift", "flex_ops/Shift", i, func() (int, bool) { return s.f.Shift() })
}

// doSub compares SubSlice with the documented window; with adopt the harness
// goes on with the returned FlexSlice (and drops the parent).
func (s *flexSut) doSub(start, end int, adopt bool) bool {
	c := s.c
	s.note('u', start&0xffff, end&0xffff)
	var child slicez.FlexSlice[int]
	parentCap := cap(s.f.Values)
	if !c.Guard("SubSlice", func() { child = s.f.SubSlice(start, end) }) {
		return false
	}
	want := refSub(s.m, start, end)
	if c.Logging() {
		c.Logf("SubSlice(%d, %d) on len %d -> %d elements, cap %d", start, end, len(s.m), len(child.Values), cap(child.Values))
	}
	c.Add("flex_ops/SubSlice", 1)
	if !eqSeq(child.Values, want) {
		c.Failf("flex-subslice", "SubSlice(%d, %d) of %s = %s, documented window is %s", start, end, abbr(s.m), abbr(child.Values), abbr(want))
		return false
	}
	if len(want) > 0 && cap(child.Values) < parentCap-maxInt(start, 0) {
		c.Add("flex_subslice_shrunk_copy", 1)
	}
	if !s.verify("SubSlice (parent)") {
		return false
	}
	if adopt {
		s.f = child
		s.m = want
		c.Add("flex_subslice_adopted", 1)
		return s.verify("SubSlice (child)")
	}
	return true
}

func maxInt(a, b int) int {
	if a > b {
		return a
	}
	return b
}

func (s *flexSut) idx() int {
	rng := s.c.Rng
	n := len(s.m)
	switch rng.Intn(10) {
	case 0:
		return rng.Pick(-2, -1, n, n+1, n+2, math.MinInt, math.MaxInt)
	case 1:
		return 0
	case 2:
		return n - 1
	default:
		return rng.Intn(n + 1)
	}
}

func (s *flexSut) step(phase int) bool {
	rng := s.c.Rng
	burst := func() int {
		switch rng.Intn(8) {
		case 0:
			return 0
		case 1:
			return rng.Range(9, 40)
		case 2: // aim at the capacity boundary
			room := cap(s.f.Values) - len(s.f.Values)
			return maxInt(0, room+rng.Pick(-1, 0, 1))
		case 3: // aim at the doubling boundary
			return maxInt(0, 2*cap(s.f.Values)-len(s.f.Values)+rng.Pick(-1, 0, 1))
		default:
			return rng.Range(1, 4)
		}
	}
	bounded := func() int {
		k := burst()
		if len(s.m)+k > 600 {
			k = rng.Intn(4)
		}
		return k
	}
	p := rng.Intn(100)
	growP := []int{60, 30, 8}[phase]
	switch {
	case p < growP/2:
		return s.doAppend(bounded())
	case p < growP:
		return s.doPrepend(bounded())
	case p < 82:
		switch rng.Intn(3) {
		case 0:
			return s.doPop()
		case 1:
			return s.doShift()
		default:
			return s.doRemove(s.idx())
		}
	case p < 92:
		return s.doGet(s.idx())
	default:
		n := len(s.m)
		st := rng.Pick(-2, -1, 0, 0, 1, n/2, n-1, n, n+1, rng.Intn(n+1))
		en := rng.Pick(-1, -1, 0, 1, n/2, n-1, n, n+1, n+2, rng.Intn(n+2))
		return s.doSub(st, en, rng.Chance(1, 4))
	}
}

// flexMixCase: random operation sequence in grow/balanced/shrink phases.
func flexMixCase(c *ev.Case) {
	rng := c.Rng
	s := &flexSut{c: c}
	switch rng.Intn(4) {
	case 0:
		c.Add("flex_start_zero_value", 1)
		if c.Logging() {
			c.Logf("start: zero FlexSlice")
		}
	case 1:
		n := rng.Intn(20)
		s.preset(n, n)
	default:
		n := rng.Intn(40)
		s.preset(n, rng.Pick(n, n+1, 2*n, 4*n-1, 4*n, 4*n+1, 8, 9, 64, 8*n+3))
		c.Add("flex_start_preset_spare_capacity", 1)
	}
	if !s.verify("start") {
		return
	}
	nops := rng.Pick(15, 40, 120, 400)
	phase := 0
	for i := 0; i < nops; i++ {
		if i%40 == 0 {
			phase = rng.Intn(3)
		}
		if !s.step(phase) {
			return
		}
	}
	// drain: every element comes back out in order, from a random end
	for guard := 0; len(s.m) > 0 && guard < 100000; guard++ {
		if rng.Bool() {
			if !s.doPop() {
				return
			}
		} else if !s.doShift() {
			return
		}
	}
	if !s.doPop() || !s.doShift() || !s.doGet(0) {
		return
	}
	c.Distinct(s.hash)
	if c.WantSample() {
		c.Sample(fmt.Sprintf("flex mix: %d operations, whole sequence compared after each, max elements inserted %d, drained to empty", s.ops, s.next))
	}
}

// flexThresholdCase: scripted walk from a full slice of capacity C down to
// empty across every shrink threshold, with Prepend bursts placed exactly on the
// within-capacity / double / exact-size boundaries along the way.
func flexThresholdCase(c *ev.Case) {
	rng := c.Rng
	s := &flexSut{c: c}
	C := rng.Pick(9, 10, 12, 16, 17, 31, 32, 33, 40, 64, 100, rng.Range(9, 160))
	if rng.Bool() {
		s.preset(C, C)
	} else {
		// grown through Append/Prepend instead
		for len(s.m) < C {
			k := rng.Range(1, 5)
			if rng.Bool() {
				if !s.doAppend(k) {
					return
				}
			} else if !s.doPrepend(k) {
				return
			}
		}
	}
	how := rng.Intn(4)
	for guard := 0; len(s.m) > 0 && guard < 100000; guard++ {
		cp, n := cap(s.f.Values), len(s.f.Values)
		near := cp > 8 && (n-1 <= cp/4+1)
		switch how {
		case 0:
			if !s.doPop() {
				return
			}
		case 1:
			if !s.doShift() {
				return
			}
		case 2:
			if !s.doRemove(rng.Intn(len(s.m))) {
				return
			}
		default:
			if !s.step(2) {
				return
			}
		}
		if near && rng.Chance(1, 3) {
			cp, n = cap(s.f.Values), len(s.f.Values)
			k := rng.Pick(1, cp-n-1, cp-n, cp-n+1, 2*cp-n, 2*cp-n+1, n, n+1)
			if k < 0 {
				k = 0
			}
			if k > 400 {
				k = 400
			}
			if !s.doPrepend(k) {
				return
			}
			if !s.doGet(0) || !s.doGet(k) || !s.doGet(len(s.m)-1) {
				return
			}
			if rng.Bool() { // take them off again from the front
				for j := 0; j < k; j++ {
					if !s.doShift() {
						return
					}
				}
			}
		}
	}
	if !s.doPop() || !s.doShift() {
		return
	}
	c.Distinct(s.hash)
	if c.WantSample() {
		c.Sample(fmt.Sprintf("flex threshold: start capacity %d, removal style %d, %d operations down to empty with Prepend bursts on the capacity boundaries", C, how, s.ops))
	}
}

// flexSelfArgCase: Append / Prepend whose variadic argument is a sub-slice of
// the FlexSlice's own exported Values (f.Prepend(f.Values[a:b]...)). The
// sequence meaning is unchanged: new sequence = argument values (as they were
// at the call) followed / preceded by the old sequence.
func flexSelfArgCase(c *ev.Case) {
	rng := c.Rng
	s := &flexSut{c: c}
	n := rng.Range(1, 12)
	s.preset(n, rng.Pick(n, n+1, n+2, 2*n, 2*n+1, 3*n, 40))
	for i := 0; i < 4; i++ {
		ln := len(s.m)
		if ln == 0 || ln > 400 {
			break
		}
		a := rng.Intn(ln + 1)
		b := rng.Range(a, ln)
		argCopy := clone(s.m[a:b])
		cp := cap(s.f.Values)
		if rng.Chance(2, 3) {
			s.note('P', a, b)
			// the argument as a plain sub-slice, or with its capacity cut (three-index
			// slice, slices.Clip): the same memory either way
			arg := s.f.Values[a:b]
			switch rng.Intn(3) {
			case 1:
				arg = s.f.Values[a:b:b]
				c.Add("flex_selfarg_capacity_limited_arg", 1)
			case 2:
				if b < cap(s.f.Values) {
					arg = s.f.Values[a : b : b+1]
				}
			}
			if !c.Guard("Prepend", func() { s.f.Prepend(arg...) }) {
				return
			}
			old := s.m
			s.m = append(clone(argCopy), s.m...)
			if c.Logging() {
				c.Logf("Prepend(Values[%d:%d]...) = Prepend(%v) on %v (cap %d) -> %v", a, b, argCopy, old, cp, s.f.Values)
			}
			c.Add("flex_selfarg_prepend", 1)
			if cp >= ln+(b-a) && a > 0 && b > a {
				c.Add("flex_selfarg_prepend_within_capacity_offset_arg", 1)
			}
			if !eqSeq(s.f.Values, s.m) {
				c.Failf("flex-selfarg/Prepend", "f.Values = %v (cap %d); f.Prepend(f.Values[%d:%d]...) i.e. Prepend(%v) gives %v, a sequence gives %v", old, cp, a, b, argCopy, s.f.Values, s.m)
				return
			}
		} else {
			s.note('A', a, b)
			arg := s.f.Values[a:b]
			if rng.Bool() {
				arg = s.f.Values[a:b:b]
			}
			if !c.Guard("Append", func() { s.f.Append(arg...) }) {
				return
			}
			old := s.m
			s.m = append(clone(s.m), argCopy...)
			if c.Logging() {
				c.Logf("Append(Values[%d:%d]...) = Append(%v) on %v (cap %d) -> %v", a, b, argCopy, old, cp, s.f.Values)
			}
			c.Add("flex_selfarg_append", 1)
			if !eqSeq(s.f.Values, s.m) {
				c.Failf("flex-selfarg/Append", "f.Values = %v (cap %d); f.Append(f.Values[%d:%d]...) i.e. Append(%v) gives %v, a sequence gives %v", old, cp, a, b, argCopy, s.f.Values, s.m)
				return
			}
		}
		if rng.Bool() {
			if !s.doShift() {
				return
			}
		}
	}
	c.Distinct(s.hash)
	if c.WantSample() {
		c.Sample(fmt.Sprintf("flex self-argument: %d Append/Prepend calls whose argument is a sub-slice of f.Values, final %v", s.ops, s.m))
	}
}
