// Package runtime is a same-API stand-in for the parts of package runtime that
// golib's concurrent files use. Gosched is a scheduling point (marked as a
// yield) while a controlled run is active; everything else forwards.
package runtime

import (
	rt "runtime"

	"verif/sched"
)

func Gosched() { sched.Yield() }

type (
	Frame    = rt.Frame
	Frames   = rt.Frames
	Func     = rt.Func
	MemStats = rt.MemStats
	Error    = rt.Error
)

const (
	GOOS   = rt.GOOS
	GOARCH = rt.GOARCH
)

func NumCPU() int                                  { return rt.NumCPU() }
func GOMAXPROCS(n int) int                         { return rt.GOMAXPROCS(n) }
func NumGoroutine() int                            { return rt.NumGoroutine() }
func Caller(skip int) (uintptr, string, int, bool) { return rt.Caller(skip + 1) }
func Callers(skip int, pc []uintptr) int           { return rt.Callers(skip+1, pc) }
func CallersFrames(callers []uintptr) *rt.Frames   { return rt.CallersFrames(callers) }
func Stack(buf []byte, all bool) int               { return rt.Stack(buf, all) }
func KeepAlive(x any)                              { rt.KeepAlive(x) }
func SetFinalizer(obj any, finalizer any)          { rt.SetFinalizer(obj, finalizer) }
func GC()                                          { rt.GC() }
func FuncForPC(pc uintptr) *rt.Func                { return rt.FuncForPC(pc) }
func ReadMemStats(m *rt.MemStats)                  { rt.ReadMemStats(m) }
func Goexit()                                      { rt.Goexit() }
func Version() string                              { return rt.Version() }
func LockOSThread()                                { rt.LockOSThread() }
func UnlockOSThread()                              { rt.UnlockOSThread() }
