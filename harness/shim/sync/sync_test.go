package sync_test

import (
	"testing"

	"verif/sched"
	"verif/shim/atomic"
	"verif/shim/sync"
)

// Once/WaitGroup/Cond must be usable from code that runs under the cooperative
// scheduler: a waiter yields instead of parking while it holds the baton.
func TestCooperativePrimitives(t *testing.T) {
	for seed := uint64(1); seed <= 300; seed++ {
		var (
			once  sync.Once
			inits int32
			wg    sync.WaitGroup
			mu    sync.Mutex
			q     []int
			got   []int
		)
		cond := sync.NewCond(&mu)
		wg.Add(2)
		prod := func() {
			defer wg.Done()
			once.Do(func() { atomic.AddInt32(&inits, 1); atomic.AddInt32(&inits, 0) })
			for i := 0; i < 3; i++ {
				mu.Lock()
				q = append(q, i)
				mu.Unlock()
				cond.Signal()
			}
		}
		cons := func() {
			once.Do(func() { atomic.AddInt32(&inits, 1); atomic.AddInt32(&inits, 0) })
			for len(got) < 6 {
				mu.Lock()
				for len(q) == 0 {
					cond.Wait()
				}
				got = append(got, q[0])
				q = q[1:]
				mu.Unlock()
			}
		}
		waiter := func() { wg.Wait(); atomic.AddInt32(&inits, 0) }
		cfg := sched.Config{Seed: seed, MaxSteps: 20000, Strategy: sched.RandomWalk}
		if seed%2 == 0 {
			cfg.Strategy, cfg.Depth, cfg.EstSteps = sched.PCT, 3, 60
		}
		res := sched.Run(cfg, []func(){prod, prod, cons, waiter})
		if res.Panic != nil || res.Aborted {
			t.Fatalf("seed %d: panic=%v aborted=%v noprogress=%v", seed, res.Panic, res.Aborted, res.NoProgress)
		}
		if inits != 1 || len(got) != 6 {
			t.Fatalf("seed %d: inits=%d got=%v", seed, inits, got)
		}
	}
}
