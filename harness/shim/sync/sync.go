// Package sync is a same-API stand-in for package sync. Mutex and RWMutex are
// try-acquire loops over scheduling points while a controlled run is active
// and the real locks otherwise; the other types are aliases.
package sync

import (
	rs "sync"

	"verif/sched"
)

// Pool and Map never park a goroutine on another instrumented thread (their
// internal locks are only held across uninstrumented code), so they stay aliases.
// Once, WaitGroup and Cond can make a thread wait for code that contains
// scheduling points; under the cooperative scheduler that wait must itself be a
// scheduling loop, otherwise the thread that holds the baton would park for ever.
type (
	Pool   = rs.Pool
	Map    = rs.Map
	Locker = rs.Locker
)

// Once: the real Once does the bookkeeping; in controlled mode a second caller
// yields until the first one has left f instead of parking on Once's mutex.
type Once struct {
	real    rs.Once
	running bool // controlled mode only: some thread is inside f
}

func (o *Once) Do(f func()) {
	if !sched.Active() {
		o.real.Do(f)
		return
	}
	sched.Point()
	for o.running {
		sched.Yield()
	}
	o.real.Do(func() { // nobody is inside: cannot block
		o.running = true
		defer func() { o.running = false }()
		f()
	})
	sched.Point()
}

func OnceFunc(f func()) func() {
	var (
		o     Once
		valid bool
		p     any
	)
	return func() {
		o.Do(func() {
			defer func() {
				if !valid {
					p = recover()
					panic(p)
				}
			}()
			f()
			valid = true
		})
		if !valid {
			panic(p)
		}
	}
}

func OnceValue[T any](f func() T) func() T {
	var v T
	g := OnceFunc(func() { v = f() })
	return func() T { g(); return v }
}

func OnceValues[T1, T2 any](f func() (T1, T2)) func() (T1, T2) {
	var (
		v1 T1
		v2 T2
	)
	g := OnceFunc(func() { v1, v2 = f() })
	return func() (T1, T2) { g(); return v1, v2 }
}

// WaitGroup: every Add/Done also goes to the real WaitGroup (which never blocks
// there); only Wait differs: a scheduling loop in controlled mode.
type WaitGroup struct {
	real rs.WaitGroup
	mu   rs.Mutex
	n    int
}

func (w *WaitGroup) Add(delta int) {
	if sched.Active() {
		sched.Point()
	}
	w.mu.Lock()
	w.n += delta
	neg := w.n < 0
	w.mu.Unlock()
	if neg {
		panic("sync: negative WaitGroup counter")
	}
	w.real.Add(delta)
	if sched.Active() {
		sched.Point()
	}
}

func (w *WaitGroup) Done() { w.Add(-1) }

func (w *WaitGroup) Wait() {
	if !sched.Active() {
		w.real.Wait()
		return
	}
	for {
		sched.Point()
		w.mu.Lock()
		n := w.n
		w.mu.Unlock()
		if n == 0 {
			break
		}
		sched.Yield()
	}
	sched.Point()
}

// Cond: ticket based in controlled mode (Signal releases the oldest waiter).
type Cond struct {
	L Locker

	once       rs.Once
	real       *rs.Cond
	next, wake uint64 // controlled mode only
}

func NewCond(l Locker) *Cond { return &Cond{L: l} }

func (c *Cond) r() *rs.Cond {
	c.once.Do(func() { c.real = rs.NewCond(c.L) })
	return c.real
}

func (c *Cond) Wait() {
	if !sched.Active() {
		c.r().Wait()
		return
	}
	t := c.next
	c.next++
	c.L.Unlock()
	for c.wake <= t {
		sched.Yield()
	}
	c.L.Lock()
}

func (c *Cond) Signal() {
	if !sched.Active() {
		c.r().Signal()
		return
	}
	sched.Point()
	if c.wake < c.next {
		c.wake++
	}
	sched.Point()
}

func (c *Cond) Broadcast() {
	if !sched.Active() {
		c.r().Broadcast()
		return
	}
	sched.Point()
	c.wake = c.next
	sched.Point()
}

// Mutex: in controlled mode `held` is only touched by the one runnable thread.
type Mutex struct {
	real rs.Mutex
	held bool
}

func (m *Mutex) Lock() {
	if !sched.Active() {
		m.real.Lock()
		return
	}
	for {
		sched.Point()
		if !m.held {
			m.held = true
			break
		}
		sched.Yield()
	}
	sched.Point()
}

func (m *Mutex) TryLock() bool {
	if !sched.Active() {
		return m.real.TryLock()
	}
	sched.Point()
	ok := !m.held
	if ok {
		m.held = true
	}
	sched.Point()
	return ok
}

func (m *Mutex) Unlock() {
	if !sched.Active() {
		m.real.Unlock()
		return
	}
	sched.Point()
	if !m.held {
		panic("sync: unlock of unlocked mutex")
	}
	m.held = false
	sched.Point()
}

type RWMutex struct {
	real    rs.RWMutex
	writer  bool
	readers int
}

func (m *RWMutex) Lock() {
	if !sched.Active() {
		m.real.Lock()
		return
	}
	for {
		sched.Point()
		if !m.writer && m.readers == 0 {
			m.writer = true
			break
		}
		sched.Yield()
	}
	sched.Point()
}

func (m *RWMutex) TryLock() bool {
	if !sched.Active() {
		return m.real.TryLock()
	}
	sched.Point()
	ok := !m.writer && m.readers == 0
	if ok {
		m.writer = true
	}
	sched.Point()
	return ok
}

func (m *RWMutex) Unlock() {
	if !sched.Active() {
		m.real.Unlock()
		return
	}
	sched.Point()
	if !m.writer {
		panic("sync: Unlock of unlocked RWMutex")
	}
	m.writer = false
	sched.Point()
}

func (m *RWMutex) RLock() {
	if !sched.Active() {
		m.real.RLock()
		return
	}
	for {
		sched.Point()
		if !m.writer {
			m.readers++
			break
		}
		sched.Yield()
	}
	sched.Point()
}

func (m *RWMutex) TryRLock() bool {
	if !sched.Active() {
		return m.real.TryRLock()
	}
	sched.Point()
	ok := !m.writer
	if ok {
		m.readers++
	}
	sched.Point()
	return ok
}

func (m *RWMutex) RUnlock() {
	if !sched.Active() {
		m.real.RUnlock()
		return
	}
	sched.Point()
	if m.readers <= 0 {
		panic("sync: RUnlock of unlocked RWMutex")
	}
	m.readers--
	sched.Point()
}

type rlocker RWMutex

func (r *rlocker) Lock()   { (*RWMutex)(r).RLock() }
func (r *rlocker) Unlock() { (*RWMutex)(r).RUnlock() }

func (m *RWMutex) RLocker() Locker { return (*rlocker)(m) }
