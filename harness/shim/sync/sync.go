// Package sync is a same-API stand-in for package sync. Mutex and RWMutex are
// try-acquire loops over scheduling points while a controlled run is active
// and the real locks otherwise; the other types are aliases.
package sync

import (
	rs "sync"

	"verif/sched"
)

type (
	WaitGroup = rs.WaitGroup
	Once      = rs.Once
	Pool      = rs.Pool
	Map       = rs.Map
	Cond      = rs.Cond
	Locker    = rs.Locker
)

func NewCond(l Locker) *Cond                                   { return rs.NewCond(l) }
func OnceFunc(f func()) func()                                 { return rs.OnceFunc(f) }
func OnceValue[T any](f func() T) func() T                     { return rs.OnceValue(f) }
func OnceValues[T1, T2 any](f func() (T1, T2)) func() (T1, T2) { return rs.OnceValues(f) }

// Mutex: in controlled mode `held` is only touched by the one runnable thread.
type Mutex struct {
	real rs.Mutex
	held bool
}

func (m *Mutex) Lock() {
	if !sched.Active() {
		m.real.Lock()
		return
	}
	for {
		sched.Point()
		if !m.held {
			m.held = true
			break
		}
		sched.Yield()
	}
	sched.Point()
}

func (m *Mutex) TryLock() bool {
	if !sched.Active() {
		return m.real.TryLock()
	}
	sched.Point()
	ok := !m.held
	if ok {
		m.held = true
	}
	sched.Point()
	return ok
}

func (m *Mutex) Unlock() {
	if !sched.Active() {
		m.real.Unlock()
		return
	}
	sched.Point()
	if !m.held {
		panic("sync: unlock of unlocked mutex")
	}
	m.held = false
	sched.Point()
}

type RWMutex struct {
	real    rs.RWMutex
	writer  bool
	readers int
}

func (m *RWMutex) Lock() {
	if !sched.Active() {
		m.real.Lock()
		return
	}
	for {
		sched.Point()
		if !m.writer && m.readers == 0 {
			m.writer = true
			break
		}
		sched.Yield()
	}
	sched.Point()
}

func (m *RWMutex) TryLock() bool {
	if !sched.Active() {
		return m.real.TryLock()
	}
	sched.Point()
	ok := !m.writer && m.readers == 0
	if ok {
		m.writer = true
	}
	sched.Point()
	return ok
}

func (m *RWMutex) Unlock() {
	if !sched.Active() {
		m.real.Unlock()
		return
	}
	sched.Point()
	if !m.writer {
		panic("sync: Unlock of unlocked RWMutex")
	}
	m.writer = false
	sched.Point()
}

func (m *RWMutex) RLock() {
	if !sched.Active() {
		m.real.RLock()
		return
	}
	for {
		sched.Point()
		if !m.writer {
			m.readers++
			break
		}
		sched.Yield()
	}
	sched.Point()
}

func (m *RWMutex) TryRLock() bool {
	if !sched.Active() {
		return m.real.TryRLock()
	}
	sched.Point()
	ok := !m.writer
	if ok {
		m.readers++
	}
	sched.Point()
	return ok
}

func (m *RWMutex) RUnlock() {
	if !sched.Active() {
		m.real.RUnlock()
		return
	}
	sched.Point()
	if m.readers <= 0 {
		panic("sync: RUnlock of unlocked RWMutex")
	}
	m.readers--
	sched.Point()
}

type rlocker RWMutex

func (r *rlocker) Lock()   { (*RWMutex)(r).RLock() }
func (r *rlocker) Unlock() { (*RWMutex)(r).RUnlock() }

func (m *RWMutex) RLocker() Locker { return (*rlocker)(m) }
