package ev

// Rand is a small deterministic PRNG (splitmix64). Its output depends only on
// the seed, never on the Go version, so (seed, engine, index) identifies a case.
type Rand struct{ s uint64 }

func NewRand(seed uint64) *Rand { return &Rand{s: seed} }

func mix(z uint64) uint64 {
	z = (z ^ (z >> 30)) * 0xbf58476d1ce4e5b9
	z = (z ^ (z >> 27)) * 0x94d049bb133111eb
	return z ^ (z >> 31)
}

// Mix hashes several words into one (used to derive per-case seeds).
func Mix(vs ...uint64) uint64 {
	h := uint64(0x9e3779b97f4a7c15)
	for _, v := range vs {
		h = mix(h + 0x9e3779b97f4a7c15 + v)
	}
	return h
}

// HashString is FNV-1a 64.
func HashString(s string) uint64 {
	h := uint64(14695981039346656037)
	for i := 0; i < len(s); i++ {
		h ^= uint64(s[i])
		h *= 1099511628211
	}
	return h
}

func HashBytes(b []byte) uint64 {
	h := uint64(14695981039346656037)
	for i := 0; i < len(b); i++ {
		h ^= uint64(b[i])
		h *= 1099511628211
	}
	return h
}

func (r *Rand) Uint64() uint64 {
	r.s += 0x9e3779b97f4a7c15
	return mix(r.s)
}

func (r *Rand) Uint32() uint32 { return uint32(r.Uint64() >> 32) }

// Intn returns a value in [0,n). n <= 0 yields 0.
func (r *Rand) Intn(n int) int {
	if n <= 1 {
		return 0
	}
	return int(r.Uint64() % uint64(n))
}

// Range returns a value in [lo,hi] inclusive.
func (r *Rand) Range(lo, hi int) int {
	if hi <= lo {
		return lo
	}
	return lo + r.Intn(hi-lo+1)
}

func (r *Rand) Bool() bool { return r.Uint64()&1 == 1 }

// Chance is true with probability num/den.
func (r *Rand) Chance(num, den int) bool { return r.Intn(den) < num }

func (r *Rand) Float64() float64 { return float64(r.Uint64()>>11) / (1 << 53) }

func (r *Rand) Bytes(n int) []byte {
	b := make([]byte, n)
	for i := range b {
		b[i] = byte(r.Uint64())
	}
	return b
}

// Perm returns a permutation of 0..n-1.
func (r *Rand) Perm(n int) []int {
	p := make([]int, n)
	for i := range p {
		p[i] = i
	}
	for i := n - 1; i > 0; i-- {
		j := r.Intn(i + 1)
		p[i], p[j] = p[j], p[i]
	}
	return p
}

// Pick returns one of the given ints.
func (r *Rand) Pick(vs ...int) int { return vs[r.Intn(len(vs))] }

// PickStr returns one of the given strings.
func (r *Rand) PickStr(vs ...string) string { return vs[r.Intn(len(vs))] }

// Fork derives an independent stream.
func (r *Rand) Fork() *Rand { return NewRand(r.Uint64()) }
