// Package ev is the common runtime of every check: seeded case lists, parallel
// and child-process execution, violation/witness bookkeeping, known-finding
// matching, coverage counters and the evidence file.
package ev

import (
	"encoding/json"
	"fmt"
	"os"
	"os/exec"
	"path/filepath"
	"regexp"
	"runtime"
	"runtime/debug"
	"sort"
	"strconv"
	"strings"
	"sync"
	"sync/atomic"
	"time"
)

const GolibPath = "github.com/welllog/golib/"

// InGolib reports whether a stack trace has a frame in golib code: by import
// path, or (closures of golib iterators get inlined into the harness and only
// show their file) by the source directory the check was built from.
func InGolib(stack string) bool {
	if strings.Contains(stack, GolibPath) {
		return true
	}
	for _, d := range strings.Split(os.Getenv("VERIF_GOLIB_DIRS"), ":") {
		if d != "" && strings.Contains(stack, d+"/") {
			return true
		}
	}
	return false
}

const distinctCap = 1 << 21

// Exit codes.
const (
	ExitHeld         = 0
	ExitViolation    = 1
	ExitInconclusive = 2
	ExitHarness      = 3
)

type Violation struct {
	Engine  string   `json:"engine"`
	Index   int      `json:"index"`
	Sig     string   `json:"sig"`
	Msg     string   `json:"msg"`
	Log     []string `json:"log,omitempty"`
	Witness any      `json:"witness,omitempty"`
	Known   string   `json:"known,omitempty"`
}

type replaySpec struct {
	Property string   `json:"property"`
	Engine   string   `json:"engine"`
	Index    int      `json:"index"`
	Seed     int64    `json:"seed"`
	Tier     string   `json:"tier"`
	Bin      string   `json:"bin,omitempty"` // "", "race", "shim", "shimrace"
	Sig      string   `json:"sig"`
	Msg      string   `json:"msg"`
	Log      []string `json:"log,omitempty"`
	Witness  any      `json:"witness,omitempty"`
}

type childSpec struct {
	engine string
	w, W   int // slice w of W, or
	only   int // only >= 0: run exactly this index
	part   string
	prog   string
}

type partial struct {
	Evaluations int64            `json:"evaluations"`
	Counters    map[string]int64 `json:"counters"`
	Maxes       map[string]int64 `json:"maxes"`
	Distinct    []uint64         `json:"distinct"`
	Samples     map[string][]any `json:"samples"`
	Violations  []Violation      `json:"violations"`
	NViol       int64            `json:"nviol"`
	Inconcl     []string         `json:"inconclusive"`
	Harness     []string         `json:"harness"`
}

type Run struct {
	Prop string
	Tier string
	Seed int64

	start   time.Time
	replay  *replaySpec
	child   *childSpec
	scratch string

	mu          sync.Mutex
	evaluations int64
	counters    map[string]int64
	maxes       map[string]int64
	distinct    map[uint64]struct{}
	distinctSat bool
	samples     map[string][]any
	violations  []Violation
	nviol       int64
	inconcl     []string
	harness     []string
	rule        string
	assumptions []string
	floors      map[string]int64
	engines     []string
	engineN     map[string]int64
	engineWall  map[string]float64
	exhaustive  bool
	level       string
}

// New parses the environment and arguments (-replay <file>).
func New(prop string) *Run {
	r := &Run{
		Prop: prop, Tier: "quick", Seed: 1, start: time.Now(),
		counters: map[string]int64{}, maxes: map[string]int64{},
		distinct: map[uint64]struct{}{}, samples: map[string][]any{},
		floors: map[string]int64{}, engineN: map[string]int64{}, engineWall: map[string]float64{}, level: "exploration",
	}
	if t := os.Getenv("VERIF_TIER"); t == "thorough" {
		r.Tier = t
	}
	if s := os.Getenv("VERIF_SEED"); s != "" {
		if v, err := strconv.ParseInt(s, 10, 64); err == nil {
			r.Seed = v
		}
	}
	r.scratch = os.Getenv("VERIF_SCRATCH")
	args := os.Args[1:]
	for i := 0; i < len(args); i++ {
		if (args[i] == "-replay" || args[i] == "--replay") && i+1 < len(args) {
			b, err := os.ReadFile(args[i+1])
			if err != nil {
				fmt.Println("HARNESS-FAILURE cannot read replay file:", err)
				os.Exit(ExitHarness)
			}
			var rs replaySpec
			if err := json.Unmarshal(b, &rs); err != nil {
				fmt.Println("HARNESS-FAILURE bad replay file:", err)
				os.Exit(ExitHarness)
			}
			r.replay = &rs
			r.Seed = rs.Seed
			if rs.Tier != "" {
				r.Tier = rs.Tier
			}
			i++
		}
	}
	if cs := os.Getenv("VERIF_CHILD"); cs != "" {
		// engine|w|W  or engine|=idx
		p := strings.Split(cs, "|")
		c := &childSpec{engine: p[0], only: -1, part: os.Getenv("VERIF_PARTIAL"), prog: os.Getenv("VERIF_PROGRESS")}
		if strings.HasPrefix(p[1], "=") {
			c.only, _ = strconv.Atoi(p[1][1:])
		} else {
			c.w, _ = strconv.Atoi(p[1])
			c.W, _ = strconv.Atoi(p[2])
		}
		r.child = c
		r.replay = nil
	}
	return r
}

func (r *Run) Thorough() bool  { return r.Tier == "thorough" }
func (r *Run) IsChild() bool   { return r.child != nil }
func (r *Run) IsReplay() bool  { return r.replay != nil }
func (r *Run) Scratch() string { return r.scratch }

// N picks the case count for the tier.
func (r *Run) N(quick, thorough int) int {
	if r.Thorough() {
		return thorough
	}
	return quick
}

func (r *Run) Rule(s string)   { r.rule = s }
func (r *Run) Assume(s string) { r.assumptions = append(r.assumptions, s) }
func (r *Run) Exhaustive()     { r.exhaustive = true }

// Require makes the run inconclusive unless counter key reached min.
func (r *Run) Require(key string, min int64) { r.floors[key] = min }

func (r *Run) Add(key string, n int64) {
	r.mu.Lock()
	r.counters[key] += n
	r.mu.Unlock()
}

func (r *Run) Max(key string, v int64) {
	r.mu.Lock()
	if v > r.maxes[key] {
		r.maxes[key] = v
	}
	r.mu.Unlock()
}

func (r *Run) Counter(key string) int64 {
	r.mu.Lock()
	defer r.mu.Unlock()
	return r.counters[key]
}

// HasViolations reports whether any violation has been recorded so far.
func (r *Run) HasViolations() bool {
	r.mu.Lock()
	defer r.mu.Unlock()
	return r.nviol > 0
}

func (r *Run) Inconclusive(reason string) {
	r.mu.Lock()
	r.inconcl = append(r.inconcl, reason)
	r.mu.Unlock()
}

func (r *Run) HarnessFailure(reason string) {
	r.mu.Lock()
	r.harness = append(r.harness, reason)
	r.mu.Unlock()
}

// Case is one generated execution.
type Case struct {
	Engine  string
	Index   int
	Rng     *Rand
	r       *Run
	logging bool
	log     []string
	dropped int
	failed  bool
	viol    *Violation
	hashes  []uint64
	local   map[string]int64
	lmax    map[string]int64
	Witness any
	sample  any
}

func (c *Case) Run() *Run      { return c.r }
func (c *Case) Thorough() bool { return c.r.Thorough() }
func (c *Case) Logging() bool  { return c.logging }
func (c *Case) Failed() bool   { return c.failed }

const logCap = 600

// Logf appends to the witness log (only formatted while logging).
func (c *Case) Logf(format string, a ...any) {
	if !c.logging {
		return
	}
	if len(c.log) >= logCap {
		c.log = c.log[1:]
		c.dropped++
	}
	c.log = append(c.log, fmt.Sprintf(format, a...))
}

// Failf records a violation of the property on this case (first one wins).
func (c *Case) Failf(sig, format string, a ...any) {
	if c.failed {
		return
	}
	c.failed = true
	c.viol = &Violation{Engine: c.Engine, Index: c.Index, Sig: sig, Msg: fmt.Sprintf(format, a...)}
}

// Distinct marks the case non-trivial and gives its canonical hash.
func (c *Case) Distinct(h uint64) { c.hashes = append(c.hashes, h) }

func (c *Case) Add(key string, n int64) {
	if c.local == nil {
		c.local = map[string]int64{}
	}
	c.local[key] += n
}

func (c *Case) Max(key string, v int64) {
	if c.lmax == nil {
		c.lmax = map[string]int64{}
	}
	if v > c.lmax[key] {
		c.lmax[key] = v
	}
}

// Sample proposes a literal description of this case for the evidence file.
func (c *Case) Sample(v any) { c.sample = v }

// WantSample says whether the evidence still lacks samples for this engine.
func (c *Case) WantSample() bool {
	c.r.mu.Lock()
	defer c.r.mu.Unlock()
	return len(c.r.samples[c.Engine]) < 3
}

// Guard runs fn; a panic inside is a violation with signature "panic/<name>".
// It returns false if fn panicked.
func (c *Case) Guard(name string, fn func()) (ok bool) {
	defer func() {
		if p := recover(); p != nil {
			st := string(debug.Stack())
			if strings.Contains(fmt.Sprint(p), "range function continued iteration") {
				// the Go runtime caught an iterator that kept calling yield after it returned false
				c.Failf("iterator-ignores-break/"+name, "%s: iterator continued after the loop body asked it to stop (%v)", name, p)
			} else if InGolib(st) {
				c.Failf("panic/"+name, "%s panicked: %v\n%s", name, p, trimStack(st))
			} else {
				c.r.HarnessFailure(fmt.Sprintf("%s[%d] %s: harness panic: %v\n%s", c.Engine, c.Index, name, p, trimStack(st)))
				c.failed = true
			}
			ok = false
		}
	}()
	fn()
	return true
}

func trimStack(st string) string {
	lines := strings.Split(st, "\n")
	var out []string
	for _, l := range lines {
		if strings.Contains(l, "runtime/debug.Stack") || strings.Contains(l, "runtime/debug/stack.go") {
			continue
		}
		out = append(out, l)
		if len(out) >= 24 {
			break
		}
	}
	return strings.Join(out, "\n")
}

type Opt struct {
	// Workers: goroutines for in-process engines (default GOMAXPROCS, max 16).
	Workers int
	// AlwaysLog keeps the witness log on (for non-deterministic engines).
	AlwaysLog bool
	// NoRerun disables the re-run with logging after a violation.
	NoRerun bool
	// MaxCaseSeconds is the watchdog per case (default 180); HangViolation
	// turns a fired watchdog into a violation instead of inconclusive.
	MaxCaseSeconds int
	HangViolation  bool
	// Bin selects a sibling binary for child-process engines: "", "race", "shim", "shimrace".
	Bin string
	// Procs: number of child processes for CasesProc (default 8).
	Procs int
	// Env: extra environment for children.
	Env []string
	// Serial: run the engine's cases one at a time in-process.
	Serial bool
	// IgnoreRaces: race-detector reports of the children are counted but are
	// not verdicts (for properties whose statement has no data-race clause).
	IgnoreRaces bool
}

func (r *Run) caseSeed(engine string, idx int) uint64 {
	return Mix(uint64(r.Seed), HashString(r.Prop), HashString(engine), uint64(idx))
}

func (r *Run) runOne(engine string, idx int, logging bool, fn func(*Case)) *Case {
	c := &Case{Engine: engine, Index: idx, r: r, logging: logging, Rng: NewRand(r.caseSeed(engine, idx))}
	func() {
		defer func() {
			if p := recover(); p != nil {
				st := string(debug.Stack())
				if InGolib(st) {
					c.Failf("panic/escaped", "unguarded panic: %v\n%s", p, trimStack(st))
				} else {
					r.HarnessFailure(fmt.Sprintf("%s[%d]: harness panic: %v\n%s", engine, idx, p, trimStack(st)))
				}
			}
		}()
		fn(c)
	}()
	return c
}

func (r *Run) absorb(c *Case) {
	r.mu.Lock()
	defer r.mu.Unlock()
	r.evaluations++
	r.engineN[c.Engine]++
	for k, v := range c.local {
		r.counters[k] += v
	}
	for k, v := range c.lmax {
		if v > r.maxes[k] {
			r.maxes[k] = v
		}
	}
	if len(c.hashes) > 0 {
		// one case counts once, whatever the number of Distinct calls it made
		h := c.hashes[0]
		if len(c.hashes) > 1 {
			h = Mix(c.hashes...)
		}
		if len(r.distinct) < distinctCap {
			r.distinct[h] = struct{}{}
		} else {
			r.distinctSat = true
		}
	}
	if c.sample != nil && len(r.samples[c.Engine]) < 3 {
		r.samples[c.Engine] = append(r.samples[c.Engine], c.sample)
	}
	if c.viol != nil {
		r.nviol++
		r.counters["violations/"+c.Engine+"/"+c.viol.Sig]++
		if len(r.violations) < 200 {
			v := *c.viol
			v.Log = c.log
			if c.dropped > 0 {
				v.Log = append([]string{fmt.Sprintf("... %d earlier log lines dropped ...", c.dropped)}, v.Log...)
			}
			v.Witness = c.Witness
			r.violations = append(r.violations, v)
		}
	}
}

// memLimitMiB: heap size at which a harness process gives up (VERIF_MEM_LIMIT_MB, default 12288).
func memLimitMiB() uint64 {
	if v, err := strconv.ParseUint(os.Getenv("VERIF_MEM_LIMIT_MB"), 10, 64); err == nil && v > 0 {
		return v
	}
	return 12288
}

func memRunaway() bool {
	var ms runtime.MemStats
	runtime.ReadMemStats(&ms)
	return ms.HeapAlloc>>20 > memLimitMiB()
}

// skipEngine: VERIF_ONLY_ENGINES=a,b restricts a run to the named engines
// (prefix match); a debugging aid, such a run disables the observation floors.
func (r *Run) skipEngine(engine string) bool {
	only := os.Getenv("VERIF_ONLY_ENGINES")
	if only == "" {
		return false
	}
	for _, e := range strings.Split(only, ",") {
		if e != "" && strings.HasPrefix(engine, e) {
			return false
		}
	}
	return true
}

func (r *Run) noteEngine(engine string) {
	r.mu.Lock()
	for _, e := range r.engines {
		if e == engine {
			r.mu.Unlock()
			return
		}
	}
	r.engines = append(r.engines, engine)
	r.mu.Unlock()
}

// Cases runs n seeded cases of an engine in-process on parallel workers.
func (r *Run) Cases(engine string, n int, opt Opt, fn func(c *Case)) {
	if r.child != nil || r.skipEngine(engine) {
		return
	}
	r.noteEngine(engine)
	if r.replay != nil {
		if r.replay.Engine != engine {
			return
		}
		c := r.runOne(engine, r.replay.Index, true, fn)
		r.absorb(c)
		return
	}
	t0 := time.Now()
	r.runLocal(engine, n, 0, 1, opt, fn)
	r.mu.Lock()
	r.engineWall[engine] = float64(int(time.Since(t0).Seconds()*100)) / 100
	r.mu.Unlock()
}

func (r *Run) runLocal(engine string, n, w, W int, opt Opt, fn func(*Case)) {
	workers := opt.Workers
	if workers <= 0 {
		workers = runtime.GOMAXPROCS(0)
		if workers > 16 {
			workers = 16
		}
	}
	if opt.Serial {
		workers = 1
	}
	maxSec := opt.MaxCaseSeconds
	if maxSec <= 0 {
		maxSec = 180
	}
	var next int64 = int64(w)
	var engineViol int64
	stopAfter := int64(20)
	if r.child != nil {
		stopAfter = 6
	}
	type slot struct {
		idx   atomic.Int64
		since atomic.Int64
	}
	slots := make([]slot, workers)
	for i := range slots {
		slots[i].idx.Store(-1)
	}
	done := make(chan struct{})
	var wg sync.WaitGroup
	var progF *os.File
	if r.child != nil && r.child.prog != "" {
		progF, _ = os.OpenFile(r.child.prog, os.O_CREATE|os.O_WRONLY|os.O_TRUNC, 0o644)
	}
	go func() {
		t := time.NewTicker(500 * time.Millisecond)
		defer t.Stop()
		for {
			select {
			case <-done:
				return
			case <-t.C:
				if memRunaway() {
					// the heap of this process grows without bound: end the run before the
					// machine's out-of-memory killer does. Like a case that does not return,
					// this is a verdict only for engines whose cases must terminate
					// (HangViolation) and only when some goroutine is inside golib code.
					buf := make([]byte, 1<<20)
					buf = buf[:runtime.Stack(buf, true)]
					var inflight []int64
					for k := range slots {
						if idx := slots[k].idx.Load(); idx >= 0 {
							inflight = append(inflight, idx)
						}
					}
					os.Stderr.Write(buf)
					msg := fmt.Sprintf("the process heap passed %d MiB while cases %v of engine %s were running (expected: megabytes)", memLimitMiB(), inflight, engine)
					if opt.HangViolation && InGolib(string(buf)) && len(inflight) > 0 {
						r.mu.Lock()
						r.nviol++
						r.violations = append(r.violations, Violation{Engine: engine, Index: int(inflight[0]), Sig: "memory-runaway", Msg: msg + "; a goroutine is inside golib code (stacks on stderr)"})
						r.mu.Unlock()
					} else {
						r.Inconclusive("memory watchdog: " + msg)
					}
					r.Finish()
				}
				now := time.Now().UnixNano()
				for k := range slots {
					idx := slots[k].idx.Load()
					if idx >= 0 && now-slots[k].since.Load() > int64(maxSec)*1e9 {
						// watchdog: the case does not return
						if opt.HangViolation {
							r.mu.Lock()
							r.nviol++
							r.violations = append(r.violations, Violation{Engine: engine, Index: int(idx), Sig: "hang",
								Msg: fmt.Sprintf("case did not return within %d s (expected milliseconds)", maxSec)})
							r.mu.Unlock()
						} else {
							r.Inconclusive(fmt.Sprintf("watchdog: %s[%d] did not return within %d s", engine, idx, maxSec))
						}
						buf := make([]byte, 1<<20)
						buf = buf[:runtime.Stack(buf, true)]
						os.Stderr.Write(buf)
						r.Finish()
					}
				}
			}
		}
	}()
	for k := 0; k < workers; k++ {
		wg.Add(1)
		go func(k int) {
			defer wg.Done()
			for {
				idx := int(atomic.AddInt64(&next, int64(W))) - W
				if idx >= n {
					return
				}
				if atomic.LoadInt64(&engineViol) >= stopAfter {
					return // enough witnesses for this engine; the verdict is decided
				}
				slots[k].since.Store(time.Now().UnixNano())
				slots[k].idx.Store(int64(idx))
				if progF != nil {
					progF.WriteAt([]byte(fmt.Sprintf("%-12d\n", idx)), 0)
				}
				c := r.runOne(engine, idx, opt.AlwaysLog, fn)
				if c.viol != nil && !opt.AlwaysLog && !opt.NoRerun {
					// deterministic engines: re-run with the witness log on
					c2 := r.runOne(engine, idx, true, fn)
					if c2.viol != nil {
						c2.local, c2.lmax, c2.hashes = c.local, c.lmax, c.hashes
						c = c2
					} else {
						c.log = []string{"(violation did not recur on the logging re-run of the same case)"}
					}
				}
				slots[k].idx.Store(-1)
				if c.viol != nil {
					atomic.AddInt64(&engineViol, 1)
				}
				r.absorb(c)
			}
		}(k)
	}
	wg.Wait()
	close(done)
	if progF != nil {
		progF.Close()
	}
}

// CasesProc runs n seeded cases of an engine in child processes (each child
// runs its slice serially). A child that dies with a runtime-fatal error whose
// stack has a golib frame is a violation witnessed by the case it was running.
func (r *Run) CasesProc(engine string, n int, opt Opt, fn func(c *Case)) {
	if r.child == nil && r.skipEngine(engine) {
		return
	}
	if r.child != nil {
		if r.child.engine != engine {
			return
		}
		r.noteEngine(engine)
		if r.child.only >= 0 {
			c := r.runOne(engine, r.child.only, true, fn)
			r.absorb(c)
			return
		}
		o := opt
		o.Serial = !(opt.Workers > 1)
		r.runLocal(engine, n, r.child.w, r.child.W, o, fn)
		return
	}
	r.noteEngine(engine)
	bin, ok := r.binPath(opt.Bin)
	if !ok {
		r.Inconclusive(fmt.Sprintf("engine %s: binary %q not available (build failed against this tree?)", engine, opt.Bin))
		return
	}
	if r.replay != nil {
		if r.replay.Engine != engine {
			return
		}
		if r.replay.Index >= 0 {
			r.spawn(engine, bin, opt, []string{fmt.Sprintf("%s|=%d", engine, r.replay.Index)})
			return
		}
		// a witness without a case index (race report): re-run the whole engine
	}
	procs := opt.Procs
	if procs <= 0 {
		procs = 8
	}
	if procs > n {
		procs = n
	}
	if procs < 1 {
		procs = 1
	}
	specs := make([]string, procs)
	for w := 0; w < procs; w++ {
		specs[w] = fmt.Sprintf("%s|%d|%d", engine, w, procs)
	}
	t0 := time.Now()
	r.spawn(engine, bin, opt, specs)
	r.mu.Lock()
	r.engineWall[engine] = float64(int(time.Since(t0).Seconds()*100)) / 100
	r.mu.Unlock()
}

func (r *Run) binPath(kind string) (string, bool) {
	if kind == "" {
		p, err := os.Executable()
		return p, err == nil
	}
	p := os.Getenv("VERIF_BIN_" + strings.ToUpper(kind))
	if p == "" {
		return "", false
	}
	if _, err := os.Stat(p); err != nil {
		return "", false
	}
	return p, true
}

var raceHdr = regexp.MustCompile(`(?m)^WARNING: DATA RACE`)

func (r *Run) spawn(engine, bin string, opt Opt, specs []string) {
	dir := r.scratch
	if dir == "" {
		dir = os.TempDir()
	}
	tag := strings.NewReplacer("/", "_", "|", "_", "=", "_").Replace(engine)
	var wg sync.WaitGroup
	for i, spec := range specs {
		wg.Add(1)
		go func(i int, spec string) {
			defer wg.Done()
			base := filepath.Join(dir, fmt.Sprintf("%s.%s.%d", r.Prop, tag, i))
			part, prog, outp, racep := base+".partial", base+".progress", base+".out", base+".race"
			cmd := exec.Command(bin)
			cmd.Env = append(os.Environ(),
				"VERIF_CHILD="+spec, "VERIF_PARTIAL="+part, "VERIF_PROGRESS="+prog,
				"VERIF_SEED="+strconv.FormatInt(r.Seed, 10), "VERIF_TIER="+r.Tier,
				"GORACE=halt_on_error=0 exitcode=0 log_path="+racep)
			cmd.Env = append(cmd.Env, opt.Env...)
			of, err := os.Create(outp)
			if err != nil {
				r.HarnessFailure("cannot create child output: " + err.Error())
				return
			}
			cmd.Stdout, cmd.Stderr = of, of
			err = cmd.Run()
			of.Close()
			r.collectChild(engine, spec, part, prog, outp, racep, err, opt.IgnoreRaces)
		}(i, spec)
	}
	wg.Wait()
}

func (r *Run) collectChild(engine, spec, part, prog, outp, racep string, runErr error, ignoreRaces bool) {
	var p partial
	havePart := false
	if b, err := os.ReadFile(part); err == nil {
		if json.Unmarshal(b, &p) == nil {
			havePart = true
		}
	}
	if havePart {
		r.mu.Lock()
		r.evaluations += p.Evaluations
		r.engineN[engine] += p.Evaluations
		for k, v := range p.Counters {
			r.counters[k] += v
		}
		for k, v := range p.Maxes {
			if v > r.maxes[k] {
				r.maxes[k] = v
			}
		}
		for _, h := range p.Distinct {
			if len(r.distinct) < distinctCap {
				r.distinct[h] = struct{}{}
			} else {
				r.distinctSat = true
			}
		}
		for e, ss := range p.Samples {
			for _, s := range ss {
				if len(r.samples[e]) < 3 {
					r.samples[e] = append(r.samples[e], s)
				}
			}
		}
		r.nviol += p.NViol
		for _, v := range p.Violations {
			if len(r.violations) < 400 {
				r.violations = append(r.violations, v)
			}
		}
		r.inconcl = append(r.inconcl, p.Inconcl...)
		r.harness = append(r.harness, p.Harness...)
		r.mu.Unlock()
	}
	// race reports
	logs, _ := filepath.Glob(racep + ".*")
	for _, lf := range logs {
		b, err := os.ReadFile(lf)
		if err != nil {
			continue
		}
		if ignoreRaces {
			r.Add("race_reports_not_judged", int64(len(raceHdr.FindAllString(string(b), -1))))
			continue
		}
		r.absorbRaceLog(engine, string(b))
	}
	if !havePart {
		out, _ := os.ReadFile(outp)
		so := string(out)
		idx := -1
		if pb, err := os.ReadFile(prog); err == nil {
			idx, _ = strconv.Atoi(strings.TrimSpace(string(pb)))
		}
		tail := so
		if len(tail) > 9000 {
			// the runtime's fatal message and goroutine dump are at the end
			if i := strings.LastIndex(so, "\nfatal error:"); i >= 0 && len(so)-i < 9000 {
				tail = so[i:]
			} else if i := strings.LastIndex(so, "\npanic: "); i >= 0 && len(so)-i < 9000 {
				tail = so[i:]
			} else {
				tail = "...\n" + so[len(so)-9000:]
			}
		}
		switch {
		case InGolib(so) && (strings.Contains(so, "fatal error:") || strings.Contains(so, "panic:") || strings.Contains(so, "checkptr")):
			r.mu.Lock()
			r.nviol++
			r.violations = append(r.violations, Violation{Engine: engine, Index: idx, Sig: "fatal/" + fatalKind(so),
				Msg: "child process died inside golib code: " + firstLine(so), Log: strings.Split(tail, "\n")})
			r.mu.Unlock()
		case strings.Contains(so, "SIGQUIT") || strings.Contains(so, "signal: quit"):
			r.Inconclusive(fmt.Sprintf("engine %s child %s: watchdog (SIGQUIT) at case %d", engine, spec, idx))
		default:
			r.HarnessFailure(fmt.Sprintf("engine %s child %s died without result (%v) at case %d:\n%s", engine, spec, runErr, idx, tail))
		}
	}
}

func firstLine(s string) string {
	// the last fatal/panic line that is followed by a goroutine dump is the one that killed the process
	lines := strings.Split(s, "\n")
	for i := len(lines) - 1; i >= 0; i-- {
		l := lines[i]
		if (strings.HasPrefix(l, "fatal error:") || strings.HasPrefix(l, "panic:")) && i+2 < len(lines) &&
			(strings.HasPrefix(lines[i+1], "goroutine ") || strings.HasPrefix(lines[i+2], "goroutine ") || strings.HasPrefix(lines[i+1], "\tpanic:") || strings.Contains(lines[i+1], "[recovered]")) {
			return l
		}
	}
	for _, l := range lines {
		if strings.HasPrefix(l, "fatal error:") || strings.HasPrefix(l, "panic:") {
			return l
		}
	}
	if i := strings.IndexByte(s, '\n'); i >= 0 {
		return s[:i]
	}
	return s
}

func fatalKind(s string) string {
	l := firstLine(s)
	l = strings.TrimPrefix(l, "fatal error: ")
	l = strings.TrimPrefix(l, "panic: ")
	if len(l) > 40 {
		l = l[:40]
	}
	return strings.ReplaceAll(l, " ", "_")
}

var frameRe = regexp.MustCompile(`(?m)^  (\S+)\(`)
var lineNoRe = regexp.MustCompile(`:\d+( \+0x[0-9a-f]+)?$`)

// absorbRaceLog splits a race-detector log into reports, de-duplicates them by
// the innermost golib frame of each of the two accesses, and records golib
// races as violations (harness-only races are harness failures).
func (r *Run) absorbRaceLog(engine, log string) {
	blocks := strings.Split(log, "==================")
	for _, b := range blocks {
		if !raceHdr.MatchString(b) {
			continue
		}
		r.Add("race_reports", 1)
		// innermost golib frames of the access stacks
		secs := regexp.MustCompile(`(?m)^(Read|Write|Previous read|Previous write|Atomic|Previous atomic)[^\n]*\n((?:  [^\n]*\n)+)`).FindAllStringSubmatch(b+"\n", -1)
		var sig []string
		golib := false
		for _, s := range secs {
			fr := frameRe.FindAllStringSubmatch(s[2], -1)
			name := "?"
			for _, f := range fr {
				if strings.Contains(f[1], GolibPath) {
					name = strings.TrimPrefix(f[1], GolibPath)
					golib = true
					break
				}
			}
			if name == "?" && len(fr) > 0 {
				name = fr[0][1]
			}
			sig = append(sig, name)
		}
		sort.Strings(sig)
		key := "race/" + strings.Join(sig, "~")
		lines := strings.Split(strings.TrimSpace(b), "\n")
		if len(lines) > 60 {
			lines = lines[:60]
		}
		r.mu.Lock()
		if golib {
			r.nviol++
			dup := false
			for _, v := range r.violations {
				if v.Sig == key && v.Engine == engine {
					dup = true
					break
				}
			}
			if !dup {
				r.violations = append(r.violations, Violation{Engine: engine, Index: -1, Sig: key,
					Msg: "Go race detector: DATA RACE in golib code (" + strings.Join(sig, " vs ") + ")", Log: lines})
			}
			r.counters["race_reports_golib"]++
		} else {
			r.harness = append(r.harness, "race report without golib frame in engine "+engine+":\n"+strings.Join(lines, "\n"))
		}
		r.mu.Unlock()
	}
}

// ---- known findings ----

type Finding struct {
	Property string `json:"property"`
	ID       string `json:"id"`
	Status   string `json:"status"` // "known" | "fixed"
	Commit   string `json:"commit,omitempty"`
	What     string `json:"what"`
	Match    struct {
		Engine    string `json:"engine,omitempty"`
		Sig       string `json:"sig,omitempty"`
		MsgRegexp string `json:"msg_regexp,omitempty"`
	} `json:"match"`
}

func verifDir() string {
	if d := os.Getenv("VERIF_DIR"); d != "" {
		return d
	}
	return "/verif"
}

func loadFindings() []Finding {
	b, err := os.ReadFile(filepath.Join(verifDir(), "known_findings.json"))
	if err != nil {
		return nil
	}
	var f struct {
		Findings []Finding `json:"findings"`
	}
	if json.Unmarshal(b, &f) != nil {
		return nil
	}
	return f.Findings
}

func (f *Finding) matches(prop string, v *Violation) bool {
	if f.Status != "known" || f.Property != prop {
		return false
	}
	if f.Match.Sig == "" && f.Match.MsgRegexp == "" {
		return false // a finding must be specific
	}
	if f.Match.Engine != "" && f.Match.Engine != v.Engine {
		return false
	}
	if f.Match.Sig != "" && f.Match.Sig != v.Sig {
		return false
	}
	if f.Match.MsgRegexp != "" {
		re, err := regexp.Compile(f.Match.MsgRegexp)
		if err != nil || !re.MatchString(v.Msg) {
			return false
		}
	}
	return true
}

// ---- finish ----

func (r *Run) writePartial() {
	p := partial{Evaluations: r.evaluations, Counters: r.counters, Maxes: r.maxes, Samples: r.samples,
		Violations: r.violations, NViol: r.nviol, Inconcl: r.inconcl, Harness: r.harness}
	for h := range r.distinct {
		p.Distinct = append(p.Distinct, h)
	}
	b, _ := json.Marshal(p)
	if r.child.part != "" {
		os.WriteFile(r.child.part, b, 0o644)
	}
}

// Finish writes the evidence (or the child's partial result), prints the
// verdict lines and exits.
func (r *Run) Finish() {
	r.mu.Lock()
	defer r.mu.Unlock()
	if r.child != nil {
		r.writePartial()
		os.Exit(0)
	}
	findings := loadFindings()
	// classify violations
	type group struct {
		v     Violation
		count int
	}
	var order []string
	groups := map[string]*group{}
	knownHit := map[string]*Finding{}
	unknown := 0
	for i := range r.violations {
		v := &r.violations[i]
		for j := range findings {
			if findings[j].matches(r.Prop, v) {
				v.Known = findings[j].ID
				knownHit[findings[j].ID] = &findings[j]
				break
			}
		}
		if v.Known != "" {
			continue
		}
		unknown++
		k := v.Engine + "|" + v.Sig
		if g, ok := groups[k]; ok {
			g.count++
		} else {
			groups[k] = &group{v: *v, count: 1}
			order = append(order, k)
		}
	}
	floorsMissed := []string{}
	if r.replay == nil && os.Getenv("VERIF_ONLY_ENGINES") == "" {
		keys := make([]string, 0, len(r.floors))
		for k := range r.floors {
			keys = append(keys, k)
		}
		sort.Strings(keys)
		for _, k := range keys {
			if r.counters[k] < r.floors[k] {
				floorsMissed = append(floorsMissed, fmt.Sprintf("%s=%d<%d", k, r.counters[k], r.floors[k]))
			}
		}
	}
	// replay files + verdict lines
	exit := ExitHeld
	replayDir := os.Getenv("VERIF_REPLAY_DIR")
	if replayDir == "" {
		replayDir = filepath.Join(verifDir(), "replay")
	}
	if len(order) > 0 {
		os.MkdirAll(replayDir, 0o755)
	}
	ids := make([]string, 0, len(knownHit))
	for id := range knownHit {
		ids = append(ids, id)
	}
	sort.Strings(ids)
	for _, id := range ids {
		fmt.Printf("KNOWN-FINDING: property=%s %s (%s)\n", r.Prop, knownHit[id].What, id)
	}
	for n, k := range order {
		g := groups[k]
		if n >= 8 {
			fmt.Printf("(+%d further violation groups not listed)\n", len(order)-n)
			break
		}
		name := fmt.Sprintf("%s-%s-%08x-%d-s%d.json", r.Prop, sanitize(g.v.Engine+"-"+g.v.Sig), uint32(HashString(g.v.Engine+"|"+g.v.Sig)), g.v.Index, r.Seed)
		path := filepath.Join(replayDir, name)
		rs := replaySpec{Property: r.Prop, Engine: g.v.Engine, Index: g.v.Index, Seed: r.Seed, Tier: r.Tier,
			Sig: g.v.Sig, Msg: g.v.Msg, Log: g.v.Log, Witness: g.v.Witness}
		b, _ := json.MarshalIndent(rs, "", " ")
		if r.replay == nil {
			os.WriteFile(path, b, 0o644)
		} else {
			path = "(replayed)"
		}
		msg := g.v.Msg
		if i := strings.IndexByte(msg, '\n'); i >= 0 {
			msg = msg[:i]
		}
		if len(msg) > 300 {
			msg = msg[:300] + "…"
		}
		fmt.Printf("VIOLATION property=%s replay=%s engine=%s case=%d sig=%s count=%d :: %s\n", r.Prop, path, g.v.Engine, g.v.Index, g.v.Sig, g.count, msg)
		exit = ExitViolation
	}
	if exit == ExitHeld {
		if len(r.harness) > 0 {
			for i, h := range r.harness {
				if i >= 3 {
					break
				}
				fmt.Printf("HARNESS-FAILURE property=%s %s\n", r.Prop, h)
			}
			exit = ExitHarness
		} else if len(r.inconcl) > 0 || len(floorsMissed) > 0 {
			for _, s := range r.inconcl {
				fmt.Printf("INCONCLUSIVE property=%s reason=%s\n", r.Prop, s)
			}
			for _, s := range floorsMissed {
				fmt.Printf("INCONCLUSIVE property=%s reason=observation floor not met: %s\n", r.Prop, s)
			}
			exit = ExitInconclusive
		}
	}
	if r.replay != nil {
		if exit == ExitHeld {
			fmt.Printf("REPLAY property=%s engine=%s case=%d: no violation on this tree\n", r.Prop, r.replay.Engine, r.replay.Index)
		}
		os.Exit(exit)
	}
	r.writeEvidence(unknown, len(knownHit), floorsMissed)
	wall := time.Since(r.start).Seconds()
	fmt.Printf("%s %s seed=%d: evaluations=%d distinct_nontrivial=%d violations=%d known=%d wall=%.1fs exit=%d\n",
		r.Prop, r.Tier, r.Seed, r.evaluations, len(r.distinct), unknown, len(knownHit), wall, exit)
	os.Exit(exit)
}

func sanitize(s string) string {
	var b strings.Builder
	for _, ch := range s {
		switch {
		case ch >= 'a' && ch <= 'z', ch >= 'A' && ch <= 'Z', ch >= '0' && ch <= '9', ch == '-', ch == '_', ch == '.':
			b.WriteRune(ch)
		default:
			b.WriteByte('_')
		}
	}
	out := b.String()
	if len(out) > 60 {
		out = out[:60]
	}
	return out
}

func (r *Run) writeEvidence(unknown, known int, floorsMissed []string) {
	cov := map[string]any{}
	cov["evaluations"] = r.evaluations
	cov["distinct_nontrivial"] = len(r.distinct)
	rule := r.rule
	if r.distinctSat {
		rule += fmt.Sprintf(" [distinct set saturated at %d hashes: distinct_nontrivial is a lower bound]", distinctCap)
	}
	cov["rule"] = rule
	var samples []any
	for _, e := range r.engines {
		for _, s := range r.samples[e] {
			samples = append(samples, map[string]any{"engine": e, "case": s})
		}
	}
	if len(samples) == 0 {
		samples = append(samples, "no sample recorded")
	}
	cov["samples"] = samples
	if r.exhaustive {
		cov["exhaustive"] = true
	}
	cov["engines"] = r.engineN
	cov["engine_wall_s"] = r.engineWall
	obs := map[string]int64{}
	for k, v := range r.counters {
		obs[k] = v
	}
	cov["observed"] = obs
	if len(r.maxes) > 0 {
		cov["observed_max"] = r.maxes
	}
	if len(r.inconcl) > 0 {
		cov["inconclusive"] = r.inconcl
	}
	if len(floorsMissed) > 0 {
		cov["floors_missed"] = floorsMissed
	}
	cov["known_findings_hit"] = known
	evd := map[string]any{
		"property_id": r.Prop, "tier": r.Tier, "seed": r.Seed, "level": r.level,
		"coverage": cov, "assumptions": r.assumptions,
		"wall_s": float64(int(time.Since(r.start).Seconds()*100)) / 100, "violations": unknown,
	}
	if evd["assumptions"] == nil {
		evd["assumptions"] = []string{}
	}
	path := os.Getenv("VERIF_EVIDENCE")
	if path == "" {
		path = filepath.Join(verifDir(), "evidence", r.Prop+".json")
	}
	os.MkdirAll(filepath.Dir(path), 0o755)
	b, _ := json.MarshalIndent(evd, "", " ")
	if err := os.WriteFile(path, append(b, '\n'), 0o644); err != nil {
		fmt.Println("HARNESS-FAILURE cannot write evidence:", err)
		os.Exit(ExitHarness)
	}
}
