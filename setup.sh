#!/bin/bash
# Offline setup: verifies the toolchain and warms the Go build cache (plain and
# race-enabled) so that the first check does not pay for compiling the runtime.
set -e
export GOFLAGS=-mod=mod GOPROXY=off GOSUMDB=off GOTOOLCHAIN=local
cd "$(dirname "$0")/harness"
go version
go build ./...
go build -race -o /dev/null ./cmd/c01
go vet ./ev ./sched ./hist ./shim/... >/dev/null
echo "setup ok"
