#!/usr/bin/env python3
"""Regenerates /verif/MANIFEST.json from the table below (keeps it valid and in step with the harnesses)."""
import json, os
V = os.path.dirname(os.path.dirname(os.path.abspath(__file__)))
props = {json.loads(l)["id"]: json.loads(l) for l in open(os.path.join(V, "properties.jsonl"))}

T = {
 "C01": ("controlled deterministic scheduler (import-redirected atomics) + porcupine linearizability of recorded histories + Go race detector stress",
         "Real SyncRing code run under ~6e4 (quick) / ~3e6 (thorough) controlled schedules (random walk, PCT, bounded-preemption sweep) of 2-4 thread programs over all capacities/fills/rotations incl. positions around the 2^32 wrap, each recorded history checked by porcupine against a bounded-FIFO model with the property's own excuse rule for failed calls; free-running histories and long producer/consumer runs under -race with exactly-once/order/Len-range monitors. Held-on-what-was-explored, not a proof.",
         "shim faithfully forwards to sync/atomic; plain accesses between atomics are only covered by the race detector; <=4 controlled threads; porcupine v1.3.0"),
 "C02": ("reference-model monitor (sorted-slice map) with scripted tower heights via reflection",
         "Every result and callback sequence of SkipList/SkipListWithCmp compared with a sorted-map model after every operation of seeded sequences, for 7 list/key/comparator variants, zero values (every method first, before and after Clear) and 6 tower-height scripts planted into the private random source.",
         "the sorted-slice model is the specification; height scripting depends on a private field found by name (falls back to own randomness)"),
 "C03": ("reference-model monitor (map set) with threshold scripts; checkptr pass",
         "Add/Remove/Contains/Len and whole Iter/Range/All sequences compared with a set model over mixes of 1-6 buckets, scripted fills across 4095..4098 in three insertion orders and back down to empty, bucket churn, early-stopping callbacks; one pass under -race/checkptr for the unsafe array->bitmap cast.",
         "Go map + sort as specification"),
 "C04": ("reference-model monitor (multiset + handle table) over interleaved heap operations",
         "Heap, Slice and generic heap functions driven by seeded interleavings of Push/Pop/Peek/Remove/Fix/Init with ties, stale and foreign handles; priority-queue results, handle indices and heap order of exposed containers compared after every call.",
         "multiset model and brute-force heap-order predicate are the specification"),
 "C05": ("brute-force byte-wise occurrence oracle over generated pattern sets, texts and keys",
         "Match/FindAll/PrefixSearch/FuzzySearch of the real trie compared with strings.Index-based enumeration over pattern sets built to share prefixes/suffixes/infixes with 1-4 byte runes (incl. U+FFFD) and texts/keys that are arbitrary byte strings.",
         "brute force over distinct non-empty patterns is the specification; completeness of PrefixSearch not demanded for keys that are not valid UTF-8"),
 "C06": ("brute-force covered-region oracle + parse DP for Replace",
         "Replace/ReplaceWithMask compared with the covered-byte mask computed from brute-force occurrences: mask result exact per decoding unit, Replace parsed as u0 r^k1 u1 ... with 1<=ki<=ni; generators aimed at look-back merges, touching chains and nested triples.",
         "an invalid byte is one decoding unit; brute-force occurrences are the specification"),
 "C07": ("round-trip + grammar scanner + hostile-input safety monitors; checkptr pass",
         "Format grammar/value and Parse(Format(s)) for all four codecs incl. every code point and all byte pairs; every Parse/ParseToString form on hostile escape soups: no panic, termination, n<=len, canary beyond n, src untouched, exact decoding of well-formed escapes embedded in backslash-free text.",
         "adjacent escapes asserted only for Format images; lower-case digits not asserted"),
 "C08": ("differential against crypto/aes+crypto/cipher, published vectors, exhaustive single-bit tamper sweep",
         "AESCBC*/AESGCM*/PKCS* compared with stdlib CBC/GCM and a reference padding predicate over all key sizes, every length 0..80, aliasing layouts with canaries, every single-bit flip of ct/tag/nonce/aad for messages <=48 bytes, garbage and truncated ciphertexts, invalid key sizes.",
         "Go stdlib AES/GCM and NIST vectors are the reference"),
 "C09": ("round-trip + independent EVP_BytesToKey derivation + openssl CLI + scripted reader/writer chunking and fault sequences",
         "Encrypt/Decrypt/GCM*/SaltBySecret*/stream functions: round trips, wire format against an independent OpenSSL-style derivation and the openssl binary, tamper sweeps on decoded messages, all chunkings incl. one byte at a time and data+EOF, injected I/O faults, every prefix of valid ciphertexts and garbage: error, never panic.",
         "CBC is unauthenticated: a truncated message whose last block un-pads may succeed and the oracle says so; openssl 3.0 binary optional"),
 "C10": ("reference-model monitor + complete Recap/PushWithExpand grid + self-validating counter seek + honest >2^32-operation runs",
         "Ring/SyncRing compared with a slice model after every call; complete grid capacity 1..6 x rotation x fill x new capacity; SyncRing driven across the 2^32/2^31 counter boundary via a seek validated against honest rings (quick) and by really performing >2^32 push/pop pairs on 6 rings (thorough).",
         "seek writes private fields found by name and is used only after reproducing honest rings; growth factor of PushWithExpand not asserted"),
 "C11": ("controlled deterministic scheduler + porcupine (unbounded FIFO with Len rule) + bounded-progress witness + race detector stress",
         "Real SyncList code under ~6e4/3e6 controlled schedules and free-running histories checked by porcupine against an unbounded FIFO where a non-overlapped Len is exact and an overlapped Len must be >= the stored count at some instant; no-progress under a fair schedule is a violation; exactly-once/order/negative-Len monitors in -race stress.",
         "as C01; liveness restated as bounded progress (6000 steps) under a fair scheduler"),
 "C12": ("Go race detector over all method pairs + controlled scheduler with mutex shim + porcupine map model",
         "All 16x16 ordered pairs of SafeKV methods hammered under -race; short programs (incl. SetNx/SetX rounds, multi-key Delete, snapshots Keys/Values/Range/All/GetWithMap/Map) interleaved at lock granularity by the controlled scheduler and free-running, every history checked by porcupine against a plain map.",
         "callbacks never re-enter the SafeKV; 3 keys, unique values"),
 "C13": ("differential against container/list (DList) and slice model (SList) with paired handles",
         "DList mirrored operation-by-operation on container/list with live/removed/foreign handles and self-copies; SList against a slice model at indices -2..len+2; traversals in both directions, Len, return values and node identity compared after every operation; exhaustive small-size fixtures.",
         "nil nodes and inserting nodes that are still in a list are excluded (undefined)"),
 "C14": ("reference implementations from the doc comments + aliasing/permutation monitors + FlexSlice model",
         "Set operations, in-place variants (result multiset and argument-permutation), Chunk*, SubSlice/Copy/Remove/Index/Equal clamping, freshness of Copy/Values, FlexSlice vs slice model across grow/shrink thresholds, over duplicates/nil/empty and all dst aliasing layouts.",
         "nested-loop reference implementations are the specification"),
 "C15": ("differential against strconv / encoding/hex / encoding/base64 / crypto/*; all-2^32 IPv4 sweep (thorough); checkptr pass",
         "ParseUint vs strconv.ParseUint over a grammar-aware generator at every cutoff boundary, hex/base64 vs stdlib incl. error text, digests/HMACs one-shot and stream, string vs []byte agreement and input immutability, IPv4 round trip on boundary products (quick) / all 2^32 addresses (thorough).",
         "the Go standard library is the reference"),
 "C16": ("reference-model monitor (map set) over three bit-set types in lock-step",
         "setz.Bits, setz.Bitmap, dsz.Bits against a set model: element ops, cached Len, Iter/Range/All, Diff/Intersect/Merge with shorter/equal/longer operands, Clone independence, Grow/Cap, word-boundary values.",
         "Go map as specification"),
 "C17": ("[]rune-definition oracle on valid UTF-8 + no-panic monitor on arbitrary bytes + exhaustive small alphabet",
         "Sub/Mask/SubByDisplay/Rev/Len/RemoveRunes compared with rune-slice definitions over full argument grids; every helper on hostile byte strings and huge arguments must not panic; snake/camel round trip over generated identifiers.",
         "round trip asserted for [a-z][a-z0-9]*(_[a-z][a-z0-9]*)*; results on invalid UTF-8 not compared"),
 "C18": ("brute force over all 2^n selections / vertex subsets",
         "Knapsack optimality and item uniqueness, FindDpSolvers completeness/exactness incl. single overshoot, Best/BestAllowMinOverflow, and maximal-clique families compared with exhaustive enumeration for n<=10 (quick) / <=14 (thorough).",
         "brute-force enumeration is the specification; Go map iteration order is part of the workload"),
 "C19": ("gated-task scenarios with in-flight / exactly-once / finished-before-Wait monitors, injected panics; race detector",
         "Submitted functions carry an in-flight counter, execution counter and finished flag and block on harness-controlled gates: bound never exceeded and observed tight, every task once, Wait returns after all finished, panic values reach the handler, no slot leak after panics (fresh blocking tasks all admitted), default limit 3.",
         "a stuck wait is a verdict only when the state seen then says so: the token channel confirmed full by reflection, or (whatever the representation) a Go call pending for 20 s while fewer than n functions run, all held by the harness, and every other started function has finished; otherwise inconclusive"),
 "C20": ("round-trip + exhaustive byte enumeration + clock-sandwich order monitor + shape monitors",
         "Base32 round trip and Base2/36/String vs strconv; every byte value at every position of 1-3 byte inputs (and digit-prefixed 4-byte inputs; all 2^32 in thorough) must be rejected iff outside the alphabet; IdGenerator time field sandwiched between clock readings, monotone across disjoint sandwiches; StrGenerator length/alphabet over hostile sources; CountGenerator monotone and within Min/Max.",
         "same monotonic clock as golib; low-entropy sources that never offer an accepted index excluded"),
}

# second-pass workloads (harness/LESSONS.md): appended to the level text
EXTRA = {
 "C01": " Also: requested capacities around every power of two up to 2^20 (also under GOMAXPROCS 3/5/7), element types other than int (nil interface values, nil pointers, zero-size, multi-word), and honest runs of 2^32 push/pop pairs (thorough; in the quick tier when the seek does not understand the ring's layout).",
 "C02": " Also: unobserved-operation windows, kept All() sequences run later and twice, comparators returning differences/huge magnitudes, private lists on parallel goroutines, cold-start child processes.",
 "C03": " Also: unobserved-operation windows, kept All() sequences, two live iterators, several dense buckets converted up and down on parallel workers, cold-start child processes.",
 "C04": " Also: unobserved-operation windows on handles, chains of Init on non-empty heaps with old handles, kept/nested/panicking PopAll, heaps of 4095..131073 elements. Element types other than the two-word item: wide structs (5..16 words), strings, pointers, nil-able interfaces, floats, bytes, zero-size elements on Slice, Heap and the generic functions.",
 "C05": " Also: two tries used alternately with kept and scribbled results and rebuilds, overlong/near-valid encodings, fan-out above 256, >65536-node tries, patterns and keys above 65535 bytes. One node with 750..12000 children spread over the whole code space.",
 "C06": " Also: staged Insert/Build with the same call before and after each rebuild, tries differing in one pattern used alternately on reused text buffers, invalid-byte patterns, long patterns/texts/fan-out, cold-start child processes. Keywords that are runs of one rune on a longer run (a rune inside 127..4096 occurrences at once).",
 "C07": " Also: argument arenas overwritten after each call with every result kept and re-read, inputs of 16 B..256 KiB beside every power of two, cold-start child processes per entry point.",
 "C08": " Also: dst/src as regions of one arena, key/iv buffers reused in place, MiB-sized messages in place, cold-start child processes (decrypt before any encrypt).",
 "C09": " Also: arguments lying back to back in one caller buffer, secret buffers overwritten in place between uninterrupted calls, MiB-sized messages, inputs unchanged after Decrypt, cold-start child processes. Plaintext, secret, ciphertext and additional data as defined string / []byte types; MiB-sized CTR streams whose counter tail runs over in mid-stream (salt searched by the harness / steered through the source reader).",
 "C10": " Also: unobserved-operation windows, requested capacities around every power of two up to 2^20 (also under GOMAXPROCS 3/5/7), element types other than int, cold-start child processes.",
 "C11": " Also: free-running streams over element types other than int (80..1024-byte structs, strings, pointers, interfaces) with several consumers blocked in PopWait(-1): exactly-once, per-producer order per consumer, quiescent length.",
 "C12": " Also: multi-hundred-key writes against whole-map snapshots, kept All() sequences, scribbled Keys/Values results, maps of 1100..4200 keys emptied by bulk Delete next to single-writer keys (conservation oracle).",
 "C13": " Also: unobserved-operation windows (incl. never-observed zero values), kept All() sequences run twice/nested/pulled alternately/with panicking yield, lists of 2^k-1..2^k+1 nodes up to 65537. Element types other than int (128..1024-byte structs, strings, nil-able interfaces, pointers, zero-size) with Swap of neighbours and removed nodes re-inserted.",
 "C14": " Also: capacity-limited self-aliased arguments, arguments scribbled after the call, NaN/-0 elements, the same buffers call after call with kept results, operands up to 70001 elements, FlexSlice windows and capacities around 2^12..2^17.",
 "C15": " Also: uninterrupted call histories changing one ingredient at a time with all results kept, faulty/partly consumed/panicking readers followed by healthy ones, inputs up to 4 MiB, cold-start child processes per entry point.",
 "C16": " Also: unobserved-operation windows with permuted first observer, kept All() sequences, sets of 15..65537 words, callbacks that read/edit/panic, recovered unallocatable Add; members at and above 2^32 (512 MiB word arrays).",
 "C17": " Also: strings sharing one arena with kept results, panicking/re-entrant RemoveRunes predicates, strings up to 1.5 MiB with runes across power-of-two offsets, 97 KB identifiers, cold-start child processes; strings allocated at the address of a collected string of equal byte length (forced GC).",
 "C18": " Also: weights/values/limits up to MaxInt with a saturating oracle, one Graph value grown and re-initialised with kept results, serial sessions on one caller buffer with panicking and re-entrant callbacks, 65..300 items and graphs of 65..4100 vertices, labels that print alike. Limits of 2^16..2^21 whose best selection loads the knapsack to exactly the limit.",
 "C19": " Also: limiters reused over many batches with timed Wait, two limiters with blocking handlers, Goexit and nil/hostile panic values, surplus submissions while the bound is tight. Streams of 10^5 empty functions through 1..3 slots (park/wake windows) with a representation-independent slot-unavailable verdict; the library's LogPanic at depths 1..5000 and the built-in reporter with panic values rendered at 0/200/1024/4096/65536 bytes; SetPanicHandler again between submissions.",
 "C20": " Also: AddRule windows with permuted first observer, kept results, failing/short crypto/rand readers then healthy ones, n and character sets up to 2^20/2^18, cold-start and reconfigured-default child processes.",
}

COMMON = " Every clause of the statement is traced to a verdict, a workload and an observation floor (a run that stops producing a quantified situation is INCONCLUSIVE, not green); a slice of the main workload also runs on parallel workers under the race detector."

built = sorted(p for p in T if os.path.isdir(os.path.join(V, "harness", "cmd", p.lower())))
checks = []
for p in built:
    tech, text, note = T[p]
    checks.append({
        "property_id": p,
        "quick_cmd": f"./check {p} quick",
        "thorough_cmd": f"./check {p} thorough",
        "evidence_file": f"/verif/evidence/{p}.json",
        "replay_cmd_template": f"./check {p} --replay {{path}}",
        "engine": f"harness/cmd/{p.lower()}",
        "level_claimed": {"category": "exploration", "text": text + EXTRA.get(p, "") + COMMON, "design_ref": f"DESIGN.md section 3, {p}"},
        "level_note": note,
        "technique": "runtime monitoring: " + tech,
    })
na = [{"property_id": p, "reason": "check not built yet (harness in progress); the property is within reach of runtime monitoring and will be claimed"} for p in sorted(props) if p not in built]
m = {
 "version": 1,
 "setup_cmd": "./setup.sh",
 "hooks": {
   "guard": "verif",
   "enable": "no hook is committed to /repo: at check time ./check copies the working tree to a scratch directory and redirects the import paths sync/atomic, sync and runtime of ringz, listz and mapz (and of the golib packages they import) to same-API shims of the harness module (harness/cmd/instrument); the tag 'verif' is reserved for harness-side files only",
   "baseline_off_cmd": "cd /repo && GOFLAGS=-mod=mod GOPROXY=off GOSUMDB=off GOTOOLCHAIN=local go test -vet=off -count=1 -timeout 25m ./...",
   "source_commits": [],
   "add_only": True,
 },
 "engines": [
   {"name": "ev", "path": "harness/ev", "serves_properties": built, "kind_free_text": "seeded case lists, child processes, witness/replay files, known-finding matching, evidence writer"},
   {"name": "sched+shim", "path": "harness/sched, harness/shim, harness/cmd/instrument", "serves_properties": ["C01", "C11", "C12"], "kind_free_text": "deterministic cooperative scheduler over import-redirected sync/atomic, sync, runtime (random walk, PCT, bounded-preemption sweep, replay)"},
   {"name": "hist", "path": "harness/hist", "serves_properties": ["C01", "C11", "C12"], "kind_free_text": "client-boundary history recorder + porcupine v1.3.0 models (bounded/unbounded FIFO with excusable failures, plain map)"},
   {"name": "go race detector / checkptr", "path": "go build -race", "serves_properties": built, "kind_free_text": "reports collected from GORACE log files in child processes, de-duplicated by innermost golib frames"},
 ],
 "checks": checks,
 "not_applicable": na,
 "notes": "All checks: exit 0 held on everything explored, 1 violation (VIOLATION property=<id> replay=<path>), 2 inconclusive (harness does not build against the tree, watchdog, observation floor missed), 3 harness failure. VERIF_SEED selects the case lists; VERIF_REPO points the checks at another golib tree (used for seeded breaks, never for evidence). Genuine defects found and repaired by fix: commits are listed in known_findings.json (all 'fixed'; nothing is suppressed).",
}
json.dump(m, open(os.path.join(V, "MANIFEST.json"), "w"), indent=1, ensure_ascii=False)
print("checks:", [c["property_id"] for c in checks], "not_applicable:", [n["property_id"] for n in na])
