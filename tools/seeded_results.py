#!/usr/bin/env python3
"""usage: seeded/run.sh > /tmp/seeded_results.txt; tools/seeded_results.py /tmp/seeded_results.txt  -> seeded/RESULTS.md"""
import json, re, sys, os
V = os.path.dirname(os.path.dirname(os.path.abspath(__file__)))
rows = []
# rows of the existing table are kept for changes that the given result files do not mention
# (the result files of earlier rounds are not kept; re-run seeded/run.sh to refresh a row)
old_rows = {}
try:
    for l in open(f'{V}/seeded/RESULTS.md'):
        m = re.match(r'\| (C\d+-\d+) \| (C\d+) \| ([^|]+) \| ([^|]*) \| `(.*)` \| (.*) \|$', l.rstrip('\n'))
        if m:
            old_rows[m.group(1)] = tuple(x.strip() if i != 4 else x for i, x in enumerate(m.groups()))
except FileNotFoundError:
    pass
import itertools
for l in itertools.chain.from_iterable(open(f, errors='replace') for f in sys.argv[1:]):
    m = re.match(r'SEEDED (\S+) \((C\d+)\): (\S+)(.*)', l)
    if not m:
        continue
    name, prop, res, rest = m.groups()
    eng = re.search(r'engine=(\S+)', rest)
    sig = re.search(r'sig=(.+?) count=', rest)
    if not os.path.isdir(f'{V}/seeded/{name}'):
        continue
    meta = json.load(open(f'{V}/seeded/{name}/meta.json'))
    summ = (meta.get('summary') or '').replace('\n', ' ').replace('|', '/')
    summ = summ[:230] + ('…' if len(summ) > 230 else '')
    row = (name, prop, res, eng.group(1) if eng else '', sig.group(1) if sig else '', summ)
    if not os.path.isdir(f'{V}/seeded/{name}'):
        continue
    prev = [i for i, r in enumerate(rows) if r[0] == name]
    if prev:  # a later line for the same change is a re-run against strengthened checks
        if rows[prev[0]][2] != 'DETECTED' and res == 'DETECTED':
            rows[prev[0]] = (name, prop, 'DETECTED (missed by the checks as they were when the change arrived)', row[3], row[4], summ)
        continue
    rows.append(row)
have = {r[0] for r in rows}
for name, r in old_rows.items():
    if name not in have and os.path.isdir(f'{V}/seeded/{name}'):
        rows.append(r)
def key(r):
    a, b = r[0].split('-')
    return (a, int(b))
rows.sort(key=key)
out = ['# Independent seeded changes vs. the quick checks', '',
       'Produced by `seeded/run.sh` + `tools/seeded_results.py` (each patch applied to a scratch copy of /repo, never to /repo; quick tier, VERIF_SEED=1).',
       'Each change was written by a fresh sub-agent that saw only the property text and its own worktree; `meta.json` in each',
       'directory records what it needs to manifest and what I confirmed (builds, golib suite passes, demo fails with / passes without).',
       'A row that says "missed by the checks as they were when the change arrived" was MISSED (or, for C19-12, INCONCLUSIVE) in the sweep made on arrival and is',
       'detected by the strengthened check; DESIGN.md 6.4 says which workload closed it. Rows of rounds 1-5 are carried over from the sweep recorded at commit e2d56be.', '',
       '| change | property | result | engine that reported first | signature | what the change is |', '|---|---|---|---|---|---|']
for r in rows:
    out.append('| %s | %s | %s | %s | `%s` | %s |' % r)
open(f'{V}/seeded/RESULTS.md', 'w').write('\n'.join(out) + '\n')
print(len(rows), 'rows;', sum(1 for r in rows if r[2].startswith('DETECTED')), 'detected by quick;', [r[0] for r in rows if not r[2].startswith('DETECTED')], 'not detected')
