#!/usr/bin/env python3
"""usage: seeded/run.sh > /tmp/seeded_results.txt; tools/seeded_results.py /tmp/seeded_results.txt  -> seeded/RESULTS.md"""
import json, re, sys, os
V = os.path.dirname(os.path.dirname(os.path.abspath(__file__)))
rows = []
for l in open(sys.argv[1]):
    m = re.match(r'SEEDED (\S+) \((C\d+)\): (\S+)(.*)', l)
    if not m:
        continue
    name, prop, res, rest = m.groups()
    eng = re.search(r'engine=(\S+)', rest)
    sig = re.search(r'sig=(.+?) count=', rest)
    meta = json.load(open(f'{V}/seeded/{name}/meta.json'))
    summ = (meta.get('summary') or '').replace('\n', ' ').replace('|', '/')
    summ = summ[:230] + ('…' if len(summ) > 230 else '')
    row = (name, prop, res, eng.group(1) if eng else '', sig.group(1) if sig else '', summ)
    prev = [i for i, r in enumerate(rows) if r[0] == name]
    if prev:  # a second line for the same change comes from a thorough-tier run of run.sh
        if rows[prev[0]][2] == 'MISSED' and res == 'DETECTED':
            rows[prev[0]] = (name, prop, 'MISSED by quick, DETECTED by thorough', row[3], row[4], summ)
        continue
    rows.append(row)
out = ['# Independent seeded changes vs. the quick checks', '',
       'Produced by `seeded/run.sh` + `tools/seeded_results.py` (each patch applied to a scratch copy of /repo, never to /repo; quick tier, VERIF_SEED=1).',
       'Each change was written by a fresh sub-agent that saw only the property text and its own worktree; `meta.json` in each',
       'directory records what it needs to manifest and what I confirmed (builds, golib suite passes, demo fails with / passes without).', '',
       '| change | property | result | engine that reported first | signature | what the change is |', '|---|---|---|---|---|---|']
for r in rows:
    out.append('| %s | %s | %s | %s | `%s` | %s |' % r)
open(f'{V}/seeded/RESULTS.md', 'w').write('\n'.join(out) + '\n')
print(len(rows), 'rows;', sum(1 for r in rows if r[2] == 'DETECTED'), 'detected by quick')
