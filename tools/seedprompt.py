#!/usr/bin/env python3
"""tools/seedprompt.py <Cnn> <worktree> : the prompt handed to a fresh sub-agent that is to write
property-breaking changes.  It contains the property text, the worktree path, the deliverable
layout seeded/collect.py expects, and one line per idea already used for that property
(so that rounds do not repeat themselves) -- nothing about the checks in /verif."""
import json, glob, os, sys
V = os.path.dirname(os.path.dirname(os.path.abspath(__file__)))
pid, wt = sys.argv[1], sys.argv[2]
prop = [json.loads(l) for l in open(f"{V}/properties.jsonl") if json.loads(l)["id"] == pid][0]
used = []
for d in sorted(glob.glob(f"{V}/seeded/{pid}-*/meta.json") + glob.glob(f"{V}/seeded/not-kept/{pid}-*/meta.json")):
    s = (json.load(open(d)).get("summary") or "").replace("\n", " ")
    used.append("- " + s[:200])
print(f"""You are helping to evaluate a verification harness for the Go library welllog/golib. Your job is to play a maintainer who makes a plausible-looking change to the library that silently BREAKS one stated property, so that we can see whether independent checks notice.

Your private scratch git worktree of the library is {wt} (work ONLY there; never touch /repo or /verif, and do not read anything under /verif). Every shell call needs: export GOFLAGS=-mod=mod GOPROXY=off GOSUMDB=off GOTOOLCHAIN=local  (no network; Go 1.23).

THE PROPERTY ({pid}: {prop['title']}):
{prop['statement']}
Quantified: {prop['quantifier']['text']}

Deliver TWO different changes (change A and change B), each of which:
1. is a realistic edit of the library's non-test source (an optimisation, refactoring, "bug fix", feature, robustness tweak -- something a reviewer could wave through, with a plausible comment), NOT an obviously malicious special case on magic values;
2. still compiles, and the library's own unedited test suite still passes with it:  cd {wt} && go test -vet=off -count=1 ./...   (only the packages you touched need re-running while iterating, but run the whole suite once at the end);
3. makes the property above FALSE on the code (re-read the statement carefully: break something it actually promises, not something adjacent that it leaves open);
4. needs something SPECIFIC to manifest -- a particular interleaving, a fault at a particular point, a multi-step sequence of operations, an unusual-but-legal input or size, a particular element type, state left by an earlier call, or two cooperating sites that each look fine alone -- so that ordinary use and simple random testing would not expose it at once;
5. comes with a demonstration: a new Go test file named <pkg>/zz_seed_demo_<word>_test.go whose test function name starts with TestSeedDemo<Word> and which FAILS (deterministically, or at least reliably) with the change applied and PASSES on the unchanged tree. The demo must only use the exported API (it may be an external _test package or internal) and must fail because the PROPERTY is violated, not because of an incidental detail.

The two changes must be independent of each other (each patch applies alone to the unchanged HEAD) and should use different mechanisms. Ideas ALREADY USED in earlier rounds for this property -- do not repeat these, find something new (a different function, a different mechanism, a different trigger):
{chr(10).join(used) if used else '- (none)'}

Deliverables, all inside {wt}:
- patch.diff  and meta.json  for change A;  patch2.diff and meta2.json for change B. Each patch is `git diff` output of the library source ONLY (no test files), relative to the worktree root, applying with `patch -p1` to the unchanged HEAD.
- the demo test files left UNTRACKED in the worktree (both of them), and the worktree's tracked files RESET to HEAD at the end (git checkout -- .), so that `git status --porcelain` shows only untracked files.
- meta.json / meta2.json: a JSON object with keys "summary" (what the change is and the rationale a maintainer would give, plus what it really breaks), "needs_to_manifest" (exactly what has to happen for the violation to show), "files_changed" (list), "demo_cmd" (exactly of the form: go test -vet=off -count=1 -run 'TestSeedDemo<Word>' ./<pkg>/  -- add -race only if the violation is a data race).

Before you finish, verify for EACH change yourself: apply only that patch to a clean tree -> whole suite passes, its demo fails; revert -> its demo passes. Final answer: two or three lines per change (what, trigger, demo command). Do not write anything outside {wt}.""")
